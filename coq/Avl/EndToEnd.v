(* The headline statements of the AVL trees, composed from the theorems of
   Avl/Master.v, Avl/FinalMaster.v (histories refine the reference map),
   Avl/WordsOk.v (all words fit the index width after every history) and
   Avl/DocFacts.v (the independent reader on the bytes of an invariant state).
   Their conclusions speak only about API answers and bytes:

   [history_bytes_doc]: after every admissible history whose arguments fit
   the key/value fields, every call has returned normally with the reference
   map's answers, and the independent reader, applied to the bytes of the
   final state, accepts them and reads exactly the reference map's contents.

   [history_reopen]: such a history can be interrupted anywhere by dropping
   the handle and decoding the bytes again; the answers and the final bytes
   are those of the uninterrupted history.

   The premise [kv_fits] of Avl/DocFacts.v (stored keys and values fit the
   layout) is discharged by [kv_from_ops]: every stored entry was an argument
   of an earlier operation. *)
From Coq Require Import List NArith ZArith Bool Lia.
From Stevia Require Import Base.Res Base.Bytes Avl.Impl Avl.Tree Avl.Rep Avl.Spec Avl.TreeInv.
From Stevia Require Import Avl.Alloc Avl.Inv Avl.LinkInsert Avl.LinkSteps Avl.Master.
From Stevia Require Import Avl.Format Hash.FormatFacts Avl.FormatFacts Avl.DocFacts Avl.WordsOk Avl.FinalMaster.
Import ListNotations.
Open Scope N_scope.

Arguments N.add : simpl never.
Arguments N.sub : simpl never.
Arguments N.mul : simpl never.
Arguments N.pow : simpl never.
Arguments N.eqb : simpl never.
Arguments N.ltb : simpl never.
Arguments N.leb : simpl never.
Arguments N.max : simpl never.
Arguments Z.ltb : simpl never.
Arguments Z.eqb : simpl never.
Arguments N.of_nat : simpl never.
Arguments N.to_nat : simpl never.

(* ------------------------------------------------------------------ *)
(* 1. every stored entry was an argument of an earlier operation       *)

Lemma sm_insert_in m k v k' v' :
  In (k', v') (sm_insert m k v) -> In (k', v') m \/ (k', v') = (k, v).
Proof.
  induction m as [|[k1 v1] m IH]; cbn [sm_insert].
  - intros [Hx|[]]. right. symmetry. exact Hx.
  - destruct (k <? k1)%Z.
    + intros [Hx|Hx]; [right; symmetry; exact Hx|left; exact Hx].
    + destruct (k =? k1)%Z; [intros Hx; left; exact Hx|].
      intros [Hx|Hx]; [left; left; exact Hx|].
      destruct (IH Hx) as [Hin|He]; [left; right; exact Hin|right; exact He].
Qed.

Lemma sm_remove_in m k x : In x (sm_remove m k) -> In x m.
Proof.
  induction m as [|[k1 v1] m IH]; cbn [sm_remove]; [intros []|].
  destruct (k =? k1)%Z; [intros Hx; right; exact Hx|].
  intros [Hx|Hx]; [left; exact Hx|right; apply IH; exact Hx].
Qed.

Lemma sm_update_in m k v k' v' :
  In (k', v') (sm_update m k v) -> In (k', v') m \/ (k' = k /\ v' = v /\ exists v0, In (k, v0) m).
Proof.
  induction m as [|[k1 v1] m IH]; cbn [sm_update]; [intros []|].
  destruct (Z.eqb_spec k k1) as [E|E].
  - intros [Hx|Hx]; [|left; right; exact Hx]. injection Hx as <- <-.
    right. split; [symmetry; exact E|]. split; [reflexivity|]. exists v1. left. rewrite E. reflexivity.
  - intros [Hx|Hx]; [left; left; exact Hx|].
    destruct (IH Hx) as [Hin|(E1 & E2 & v0 & Hin)]; [left; right; exact Hin|].
    right. split; [exact E1|]. split; [exact E2|]. exists v0. right. exact Hin.
Qed.

(* one step of the reference map: an entry of the new contents is an old
   entry, or the argument of this insertion, or the value written by this
   [get_mut] under a key that was present *)
Lemma spec_step_ents a o k v :
  In (k, v) (sents (fst (spec_step a o))) ->
  In (k, v) (sents a) \/ o = OInsert k v \/ (o = OGetMut k v /\ exists v0, In (k, v0) (sents a)).
Proof.
  destruct o as [k0 v0|k0|k0|k0 v0|k0|k0| | | | | |n| |]; cbn [spec_step];
    try (cbn [fst sents s_claim]; intros Hx; left; exact Hx).
  - (* OInsert *)
    cbv zeta. cbn [sents s_claim scap snrec].
    destruct (sm_find (sents a) k0); [cbn [fst sents]; intros Hx; left; exact Hx|].
    match goal with |- context [if ?c then _ else _] => destruct c end;
      cbn [fst sents]; [intros Hx; left; exact Hx|].
    intros Hx. destruct (sm_insert_in _ _ _ _ _ Hx) as [Hin|He]; [left; exact Hin|].
    right. left. injection He as -> ->. reflexivity.
  - (* ORemove *)
    cbv zeta. cbn [fst sents s_claim]. intros Hx. left. apply (sm_remove_in _ _ _ Hx).
  - (* OGetMut *)
    cbv zeta. cbn [fst sents s_claim]. intros Hx.
    destruct (sm_update_in _ _ _ _ _ Hx) as [Hin|(-> & -> & v1 & Hin)]; [left; exact Hin|].
    right. right. split; [reflexivity|]. exists v1. exact Hin.
Qed.

Lemma spec_step_key a o k :
  (exists v, In (k, v) (sents (fst (spec_step a o)))) ->
  (exists v, In (k, v) (sents a)) \/ exists v, o = OInsert k v.
Proof.
  intros (v & Hx). destruct (spec_step_ents a o k v Hx) as [Hin|[He|(_ & v0 & Hin)]].
  - left. exists v. exact Hin.
  - right. exists v. exact He.
  - left. exists v0. exact Hin.
Qed.

Lemma final_s_key ops : forall a k,
  (exists v, In (k, v) (sents (final_s a ops))) ->
  (exists v, In (k, v) (sents a)) \/ exists v, In (OInsert k v) ops.
Proof.
  induction ops as [|o r IH]; intros a k; cbn [final_s]; [intros Hx; left; exact Hx|].
  intros Hx. destruct (IH _ _ Hx) as [H1|(v & H1)].
  - destruct (spec_step_key a o k H1) as [H2|(v & ->)]; [left; exact H2|].
    right. exists v. left. reflexivity.
  - right. exists v. right. exact H1.
Qed.

(* the contents after a history *)
Lemma final_s_ents ops : forall a k v,
  In (k, v) (sents (final_s a ops)) ->
  In (k, v) (sents a) \/ In (OInsert k v) ops \/
  (In (OGetMut k v) ops /\ ((exists v0, In (k, v0) (sents a)) \/ exists v0, In (OInsert k v0) ops)).
Proof.
  induction ops as [|o r IH]; intros a k v; cbn [final_s]; [intros Hx; left; exact Hx|].
  intros Hx. destruct (IH _ _ _ Hx) as [H1|[H1|(H1 & H2)]].
  - destruct (spec_step_ents a o k v H1) as [H3|[->|(-> & H3)]].
    + left. exact H3.
    + right. left. left. reflexivity.
    + right. right. split; [left; reflexivity|]. left. exact H3.
  - right. left. right. exact H1.
  - right. right. split; [right; exact H1|].
    destruct H2 as [H2|(v0 & H2)].
    + destruct (spec_step_key a o k H2) as [H3|(v0 & ->)]; [left; exact H3|].
      right. exists v0. left. reflexivity.
    + right. exists v0. right. exact H2.
Qed.

(* from the empty map: every entry (k, v) of the final contents is the
   argument pair of an insertion, or v was written through [get_mut k] and k
   was the key of an insertion *)
Theorem spec_kv_from_ops capacity ops k v :
  In (k, v) (sents (final_s (spec_init capacity) ops)) ->
  In (OInsert k v) ops \/ (In (OGetMut k v) ops /\ exists v0, In (OInsert k v0) ops).
Proof.
  intros Hx. destruct (final_s_ents ops _ _ _ Hx) as [[]|[H1|(H1 & [( v0 & [])|H2])]].
  - left. exact H1.
  - right. split; assumption.
Qed.

(* the arguments of a history fit the key and value fields *)
Definition op_fit (lay : layout) (o : op) : Prop :=
  match o with
  | OInsert k v | OGetMut k v =>
    zval_ok (fsigned (kty lay)) (N.to_nat (ksz lay)) k /\
    zval_ok (fsigned (vty lay)) (N.to_nat (vsz lay)) v
  | _ => True
  end.
Definition ops_fit (lay : layout) (ops : list op) : Prop := Forall (op_fit lay) ops.

Lemma ops_fit_app lay ops1 ops2 : ops_fit lay (ops1 ++ ops2) <-> ops_fit lay ops1 /\ ops_fit lay ops2.
Proof. apply Forall_app. Qed.

Lemma growth_ok_app bits ops1 : forall a ops2,
  growth_ok bits a (ops1 ++ ops2) <-> growth_ok bits a ops1 /\ growth_ok bits (final_s a ops1) ops2.
Proof.
  induction ops1 as [|o r IH]; intros a ops2; cbn [app growth_ok final_s]; [tauto|].
  rewrite IH. tauto.
Qed.

(* the tree of a state that represents the final contents of a history:
   every (slot, key, value) of it comes from the operations *)
Theorem kv_from_ops capacity ops s t slot k v :
  abs_of s t = final_s (spec_init capacity) ops -> In (slot, k, v) (triples t) ->
  In (OInsert k v) ops \/ (In (OGetMut k v) ops /\ exists v0, In (OInsert k v0) ops).
Proof.
  intros Habs Hin. apply (spec_kv_from_ops capacity). rewrite <- Habs. cbn [abs_of sents].
  rewrite inorder_triples. apply in_map_iff. exists (slot, k, v). split; [reflexivity|exact Hin].
Qed.

Theorem kv_fits_from_ops lay capacity ops s t :
  abs_of s t = final_s (spec_init capacity) ops -> ops_fit lay ops -> kv_fits lay t.
Proof.
  intros Habs Hfit slot k v Hin. unfold ops_fit in Hfit. rewrite Forall_forall in Hfit.
  destruct (kv_from_ops capacity ops s t slot k v Habs Hin) as [H1|(H1 & v0 & H2)].
  - exact (Hfit _ H1).
  - split; [exact (proj1 (Hfit _ H2))|exact (proj2 (Hfit _ H1))].
Qed.

(* ------------------------------------------------------------------ *)
(* 2. the headline statements                                          *)

Section E2E.
Variable wbytes : nat.
Variable lay : layout.
Hypothesis Hw : wbytes = 1%nat \/ wbytes = 4%nat.
Hypothesis Hk : 0 < ksz lay.
Hypothesis Hv : 0 < vsz lay.
Local Notation bits := (bits_of wbytes).

(* what a history from the initialised buffer gives: the final state, its
   tree, the invariant, the word invariant, and [kv_fits] *)
Lemma history_state capacity ops :
  capacity < 2 ^ bits -> (bits <> 8 -> capacity + 1 < 2 ^ bits) ->
  growth_ok bits (spec_init capacity) ops -> ops_fit lay ops ->
  exists s t fr term,
    final_c bits (init_c capacity capacity) ops = Ok s /\ Inv bits s t fr term /\
    abs_of s t = final_s (spec_init capacity) ops /\ words_ok bits s /\ kv_fits lay t.
Proof.
  intros H1 H2 Hg Hfit. pose proof (okbits_w wbytes Hw) as Hb.
  destruct (final_refines_final bits capacity ops Hb H1 H2 Hg) as (s & t & fr & term & Hf & Hinv & _ & Habs).
  exists s, t, fr, term. split; [exact Hf|]. split; [exact Hinv|]. split; [exact Habs|]. split.
  - apply (run_words_ok bits capacity capacity ops s (okbits_ge1 bits Hb) H1 Hf).
  - apply (kv_fits_from_ops lay capacity ops s t Habs Hfit).
Qed.

(* After every admissible history whose arguments fit the layout: every call
   returned normally and answered as the reference map does (insert's slot
   number apart); the bytes of the final state decode; and the independent
   reader, which knows the documented format only, accepts them (all three
   verdicts) and reads, in key order, exactly the reference map's contents. *)
Theorem history_bytes_doc capacity ops :
  capacity < 2 ^ bits -> (bits <> 8 -> capacity + 1 < 2 ^ bits) ->
  growth_ok bits (spec_init capacity) ops -> ops_fit lay ops ->
  exists s outs d,
    final_c bits (init_c capacity capacity) ops = Ok s /\
    run_c bits (init_c capacity capacity) ops = map Ok outs /\
    map out_abs outs = run_s (spec_init capacity) ops /\
    decode wbytes lay (encode wbytes lay s) = Some s /\
    decode_doc wbytes lay (encode wbytes lay s) = Some d /\
    d_wf d = true /\ d_bst d = true /\ d_bal d = true /\
    map (fun x => (snd (fst x), snd x)) (d_inorder (d_tree d)) = sents (final_s (spec_init capacity) ops) /\
    N.of_nat (length (encode wbytes lay s)) = data_len wbytes lay (snrec (final_s (spec_init capacity) ops)).
Proof.
  intros H1 H2 Hg Hfit. pose proof (okbits_w wbytes Hw) as Hb.
  destruct (history_state capacity ops H1 H2 Hg Hfit) as (s & t & fr & term & Hf & Hinv & Habs & Hwo & Hkv).
  destruct (run_refines_final bits capacity ops Hb H1 H2 Hg) as (outs & Hrun & Hout).
  destruct (avl_doc_w wbytes lay Hw Hk Hv s t fr term Hinv Hkv Hwo)
    as (d & Hd & _ & _ & _ & Hio & _ & _ & _ & _ & Wf & Wb & Wa & _ & _ & Hlen).
  exists s, outs, d. split; [exact Hf|]. split; [exact Hrun|]. split; [exact Hout|].
  split; [apply (inv_decode_encode_w wbytes lay Hw Hk Hv s t fr term Hinv Hkv Hwo)|].
  split; [exact Hd|]. split; [exact Wf|]. split; [exact Wb|]. split; [exact Wa|].
  rewrite <- Habs. cbn [abs_of sents snrec]. split; [exact Hio|exact Hlen].
Qed.

(* Drop and re-open anywhere: run the first part, encode, decode the bytes,
   run the second part on the decoded handle.  Every call of the interrupted
   run answers as in the uninterrupted one, and the final bytes are equal. *)
Theorem history_reopen capacity ops1 ops2 :
  capacity < 2 ^ bits -> (bits <> 8 -> capacity + 1 < 2 ^ bits) ->
  growth_ok bits (spec_init capacity) (ops1 ++ ops2) -> ops_fit lay (ops1 ++ ops2) ->
  exists s1 s1' sf sf' outs,
    final_c bits (init_c capacity capacity) ops1 = Ok s1 /\
    decode wbytes lay (encode wbytes lay s1) = Some s1' /\
    final_c bits s1' ops2 = Ok sf' /\
    final_c bits (init_c capacity capacity) (ops1 ++ ops2) = Ok sf /\
    run_c bits (init_c capacity capacity) (ops1 ++ ops2) = map Ok outs /\
    run_c bits (init_c capacity capacity) ops1 ++ run_c bits s1' ops2 = map Ok outs /\
    encode wbytes lay sf' = encode wbytes lay sf.
Proof.
  intros H1 H2 Hg Hfit. pose proof (okbits_w wbytes Hw) as Hb.
  pose proof (proj1 (proj1 (growth_ok_app bits ops1 _ ops2) Hg)) as Hg1.
  pose proof (proj1 (proj1 (ops_fit_app lay ops1 ops2) Hfit)) as Hfit1.
  destruct (history_state capacity ops1 H1 H2 Hg1 Hfit1) as (s1 & t1 & fr1 & term1 & Hf1 & Hinv1 & _ & Hwo1 & Hkv1).
  destruct (history_state capacity (ops1 ++ ops2) H1 H2 Hg Hfit) as (sf & t & fr & term & Hf & _).
  destruct (run_refines_final bits capacity (ops1 ++ ops2) Hb H1 H2 Hg) as (outs & Hrun & _).
  exists s1, s1, sf, sf, outs. split; [exact Hf1|].
  split; [apply (inv_decode_encode_w wbytes lay Hw Hk Hv s1 t1 fr1 term1 Hinv1 Hkv1 Hwo1)|].
  split; [rewrite <- (final_c_app bits ops1 _ s1 ops2 Hf1); exact Hf|].
  split; [exact Hf|]. split; [exact Hrun|].
  split; [rewrite <- (run_c_app bits ops1 _ s1 ops2 Hf1); exact Hrun|reflexivity].
Qed.

End E2E.

(* ------------------------------------------------------------------ *)
(* the hypotheses are satisfiable: the example history of Avl/Balance.v on
   a u8 tree with u8 keys and i32 values, capacity 9 *)
Example e2e_example_hyps :
  9 < 2 ^ bits_of 1 /\ growth_ok (bits_of 1) (spec_init 9) Balance.ex_ops /\ ops_fit ex_lay8 Balance.ex_ops.
Proof.
  split; [reflexivity|]. split.
  - apply growth_ok_no_ext. unfold Balance.ex_ops. repeat constructor.
  - unfold ops_fit, Balance.ex_ops.
    repeat (apply Forall_cons; [cbn [op_fit]; try exact I; split; vm_compute; split; solve [discriminate|reflexivity]|]).
    apply Forall_nil.
Qed.

Print Assumptions spec_kv_from_ops.
Print Assumptions kv_from_ops.
Print Assumptions kv_fits_from_ops.
Print Assumptions history_state.
Print Assumptions history_bytes_doc.
Print Assumptions history_reopen.
Print Assumptions e2e_example_hyps.
