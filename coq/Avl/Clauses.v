(* The clauses of C01, one corollary each, from an arbitrary state that
   satisfies the master invariant (hence in every reachable state). *)
From Coq Require Import List NArith ZArith Bool Lia ZifyBool Permutation Sorted.
From Stevia Require Import Base.Res Base.ResMore Avl.Impl Avl.Tree Avl.Rep Avl.Spec.
From Stevia Require Import Avl.TreeInv Avl.SmapFacts Avl.TreeOps Avl.TreeProps Avl.LinkFind Avl.Alloc Avl.Inv.
From Stevia Require Import Avl.LinkInsert Avl.LinkSteps Avl.SmapMore Avl.Master.
Import ListNotations.
Open Scope N_scope.

Arguments N.add : simpl never.
Arguments N.sub : simpl never.
Arguments N.mul : simpl never.
Arguments N.pow : simpl never.
Arguments N.modulo : simpl never.
Arguments N.eqb : simpl never.
Arguments N.ltb : simpl never.
Arguments N.leb : simpl never.
Arguments N.max : simpl never.
Arguments Z.add : simpl never.
Arguments Z.sub : simpl never.
Arguments Z.ltb : simpl never.
Arguments Z.gtb : simpl never.
Arguments Z.eqb : simpl never.
Arguments N.of_nat : simpl never.

Section Clauses.
Variable bits : N.

Lemma inv_sorted s t fr term : Inv bits s t fr term -> ssorted (inorder t).
Proof. intros H. apply bst_ssorted. exact (inv_bst _ _ _ _ _ H). Qed.

(* the tree's lookup and the map's lookup agree on presence *)
Lemma t_find_none_sm t k : bst t -> (t_find t k = None <-> sm_find (inorder t) k = None).
Proof.
  intros B. pose proof (t_find_inorder t k B) as H.
  destruct (t_find t k) as [[i v]|]; cbn [option_map snd] in H; rewrite <- H; split; congruence.
Qed.

Lemma t_find_some_sm t k v : bst t ->
  (sm_find (inorder t) k = Some v <-> exists slot, t_find t k = Some (slot, v)).
Proof.
  intros B. pose proof (t_find_inorder t k B) as H.
  destruct (t_find t k) as [[i w]|]; cbn [option_map snd] in H; rewrite <- H; split.
  - intros [= ->]. exists i. reflexivity.
  - intros [slot [= _ ->]]. reflexivity.
  - discriminate.
  - intros [slot Hs]. discriminate.
Qed.

(* ---- insert ---- *)
Theorem insert_clause s t fr term k v :
  Inv bits s t fr term -> okbits bits -> sizecond bits s ->
  exists s' r log t' fr' term',
    step_c bits s (OInsert k v) = Ok (s', RSlot r, log) /\
    Inv bits s' t' fr' term' /\ sizecond bits s' /\
    cap s' = N.max (cap s) (nrec s) /\ nrec s' = nrec s /\
    (* succeeds exactly when the key is absent and the tree is not full *)
    ((exists slot, r = Some slot) <-> sm_find (inorder t) k = None /\ size s < cap s') /\
    (* then the key is there with its value and there is one more entry *)
    ((exists slot, r = Some slot) ->
       sm_find (inorder t') k = Some v /\ size s' = size s + 1 /\
       inorder t' = sm_insert (inorder t) k v) /\
    (* refused: same contents; the very same state when no growth was pending *)
    (r = None -> t' = t /\ size s' = size s /\ (settled s -> s' = s)) /\
    (* never overwrites; only that key is added *)
    (forall k', k' <> k -> sm_find (inorder t') k' = sm_find (inorder t) k') /\
    (forall v0, sm_find (inorder t) k = Some v0 -> sm_find (inorder t') k = Some v0).
Proof.
  intros H Hb Hsc.
  destruct (open_mut_inv_spec bits s t fr term H Hsc)
    as (s1 & fr1 & Hom & H1 & Hcap1 & _ & Hlen1 & Hsame).
  pose proof (inv_bst _ _ _ _ _ H) as Hbst.
  pose proof (t_find_none_sm t k Hbst) as Hnone.
  pose proof (inv_size _ _ _ _ _ H) as Hsz. pose proof (inv_size _ _ _ _ _ H1) as Hsz1.
  assert (Hsc1 : sizecond bits s1) by (apply (sizecond_mono bits s); [exact Hlen1|lia|exact Hsc]).
  assert (Hnrec1 : nrec s1 = nrec s) by (unfold nrec; rewrite Hlen1; reflexivity).
  destruct (insert_spec bits s1 t fr1 term k v H1 Hb) as (Hpres & Hfullc & Habs).
  cbn [step_c]. rewrite Hom. cbn [bind].
  assert (Hrefused : insert bits s1 k v = Ok (s1, None, t_log t k) ->
                     (sm_find (inorder t) k = None /\ size s < cap s1 -> False) ->
    exists s' r log t' fr' term',
    ('(s2, r0, log0) <- insert bits s1 k v ;; Ok (s2, RSlot r0, log0)) = Ok (s', RSlot r, log) /\
    Inv bits s' t' fr' term' /\ sizecond bits s' /\
    cap s' = N.max (cap s) (nrec s) /\ nrec s' = nrec s /\
    ((exists slot, r = Some slot) <-> sm_find (inorder t) k = None /\ size s < cap s') /\
    ((exists slot, r = Some slot) ->
       sm_find (inorder t') k = Some v /\ size s' = size s + 1 /\
       inorder t' = sm_insert (inorder t) k v) /\
    (r = None -> t' = t /\ size s' = size s /\ (settled s -> s' = s)) /\
    (forall k', k' <> k -> sm_find (inorder t') k' = sm_find (inorder t) k') /\
    (forall v0, sm_find (inorder t) k = Some v0 -> sm_find (inorder t') k = Some v0)).
  { intros Hins Hno. rewrite Hins. cbn [bind].
    exists s1, None, (t_log t k), t, fr1, term.
    split; [reflexivity|]. split; [exact H1|]. split; [exact Hsc1|].
    split; [exact Hcap1|]. split; [exact Hnrec1|]. split.
    { split; [intros [slot Hs]; discriminate|]. intros Hc. destruct (Hno Hc). }
    split; [intros [slot Hs]; discriminate|].
    split; [|split; auto].
    intros _. split; [reflexivity|]. split; [lia|].
    intros Hst. apply Hsame. exact Hst. }
  destruct (t_find t k) as [[i v0]|] eqn:Ef.
  - apply Hrefused; [apply Hpres; discriminate|].
    intros [Hc _]. apply Hnone in Hc. discriminate.
  - pose proof (proj1 Hnone eq_refl) as Hsm.
    destruct (is_full s1) eqn:Efull.
    + apply Hrefused; [apply Hfullc; auto|]. unfold is_full in Efull. lia.
    + destruct (Habs eq_refl eq_refl)
        as (s2 & new & fr2 & term2 & Hins & H2 & _ & Hcap2 & Hlen2 & _).
      rewrite Hins. cbn [bind].
      pose proof (t_insert_inorder t new k v Hbst) as Hio.
      pose proof (inv_size _ _ _ _ _ H2) as Hsz2.
      exists s2, (Some new), (t_log t k), (t_insert t new k v), fr2, term2.
      split; [reflexivity|]. split; [exact H2|].
      split; [apply (sizecond_mono bits s1); [exact Hlen2|lia|exact Hsc1]|].
      split; [unfold nrec; lia|]. split; [unfold nrec in *; rewrite Hlen2; exact Hnrec1|].
      split.
      { split; [|intros _; exists new; reflexivity]. intros _. split; [exact Hsm|].
        unfold is_full in Efull. lia. }
      split.
      { intros _. rewrite Hio. split; [apply sm_find_insert_same; exact Hsm|]. split; [|reflexivity].
        rewrite Hsz2, Hio, sm_insert_length_find by exact Hsm. lia. }
      split; [discriminate|]. split.
      * intros k' Hk'. rewrite Hio. apply sm_find_insert_other. exact Hk'.
      * intros v0 Hv0. congruence.
Qed.

(* ---- get ---- *)
Theorem get_clause s t fr term k :
  Inv bits s t fr term ->
  step_c bits s (OGet k) = Ok (s, RVal (sm_find (inorder t) k), t_log t k).
Proof. intros H. cbn [step_c]. rewrite (get_inv_spec bits _ _ _ _ k H). reflexivity. Qed.

Theorem contains_clause s t fr term k :
  Inv bits s t fr term ->
  step_c bits s (OContains k) =
  Ok (s, RBool (match sm_find (inorder t) k with Some _ => true | None => false end), t_log t k).
Proof. intros H. cbn [step_c]. rewrite (contains_inv_spec bits _ _ _ _ k H). reflexivity. Qed.

(* ---- get_mut with a write: returns the old value; afterwards the key
   carries the new one, every other key is untouched ---- *)
Theorem get_mut_clause s t fr term k v' :
  Inv bits s t fr term -> okbits bits -> sizecond bits s ->
  exists s' log t' fr' term',
    step_c bits s (OGetMut k v') = Ok (s', RVal (sm_find (inorder t) k), log) /\
    Inv bits s' t' fr' term' /\ sizecond bits s' /\
    cap s' = N.max (cap s) (nrec s) /\ nrec s' = nrec s /\ size s' = size s /\
    sm_find (inorder t') k = match sm_find (inorder t) k with Some _ => Some v' | None => None end /\
    (forall k', k' <> k -> sm_find (inorder t') k' = sm_find (inorder t) k') /\
    (sm_find (inorder t) k = None -> t' = t /\ (settled s -> s' = s)) /\
    get s' k = Ok (match sm_find (inorder t) k with Some _ => Some v' | None => None end, t_log t' k).
Proof.
  intros H Hb Hsc.
  destruct (open_mut_inv_spec bits s t fr term H Hsc)
    as (s1 & fr1 & Hom & H1 & Hcap1 & _ & Hlen1 & Hsame).
  pose proof (inv_bst _ _ _ _ _ H) as Hbst.
  assert (Hsc1 : sizecond bits s1) by (apply (sizecond_mono bits s); [exact Hlen1|lia|exact Hsc]).
  destruct (get_mut_inv_spec bits s1 t fr1 term k v' H1)
    as (s2 & Hget & H2 & Hio & _ & _ & Hsize2 & Hcap2 & _ & _ & Hlen2).
  pose proof (inv_size _ _ _ _ _ H) as Hsz. pose proof (inv_size _ _ _ _ _ H1) as Hsz1.
  cbn [step_c]. rewrite Hom. cbn [bind]. rewrite Hget. cbn [bind].
  exists s2, (t_log t k), (t_update t k v'), fr1, term.
  split; [reflexivity|]. split; [exact H2|].
  split; [apply (sizecond_mono bits s1); [exact Hlen2|lia|exact Hsc1]|].
  split; [unfold nrec; lia|]. split; [unfold nrec; rewrite Hlen2, Hlen1; reflexivity|].
  split; [lia|]. rewrite Hio.
  split; [apply sm_find_update_same|].
  split; [intros k' Hk'; apply sm_find_update_other; exact Hk'|].
  split.
  - intros Hn. assert (Ht : t_update t k v' = t).
    { apply LinkFind.t_update_absent. apply (t_find_none_sm t k Hbst). exact Hn. }
    split; [exact Ht|]. intros Hst. destruct (Hsame Hst) as [-> _].
    assert (Hf : t_find t k = None) by (apply (t_find_none_sm t k Hbst); exact Hn).
    pose proof (get_mut_set_spec s t k v' (inv_rep _ _ _ _ _ H) (inv_nodup _ _ _ _ _ H) (inv_root _ _ _ _ _ H)) as Hg.
    rewrite Hf in Hg. destruct Hg as [Hg _]. rewrite Hg in Hget. congruence.
  - rewrite (get_inv_spec bits _ _ _ _ k H2), Hio, sm_find_update_same. reflexivity.
Qed.

(* ---- lowest is the minimum key ---- *)
Theorem lowest_clause s t fr term :
  Inv bits s t fr term ->
  exists r, step_c bits s OLowest = Ok (s, RVal r, []) /\
    match r with
    | None => inorder t = [] /\ size s = 0
    | Some k0 => (exists v0, sm_find (inorder t) k0 = Some v0) /\
                 (forall k v, sm_find (inorder t) k = Some v -> (k0 <= k)%Z)
    end.
Proof.
  intros H. cbn [step_c]. rewrite (lowest_inv_spec bits _ _ _ _ H). cbn [bind].
  exists (sm_lowest (inorder t)). split; [reflexivity|].
  pose proof (sm_lowest_min (inorder t) (inv_sorted _ _ _ _ H)) as Hm.
  destruct (sm_lowest (inorder t)) as [k0|].
  - destruct Hm as (_ & Hmin & Hv). split; [exact Hv|].
    intros k v Hk. apply Hmin. exact (sm_find_in_keys _ _ _ Hk).
  - split; [exact Hm|]. rewrite (inv_size _ _ _ _ _ H), Hm. reflexivity.
Qed.

(* ---- len, is_empty, is_full, capacity track the entry count ---- *)
Theorem sizes_clause s t fr term :
  Inv bits s t fr term ->
  let n := N.of_nat (length (inorder t)) in
  step_c bits s OLen = Ok (s, RNum n, []) /\
  step_c bits s OIsEmpty = Ok (s, RBool (n =? 0), []) /\
  step_c bits s OIsFull = Ok (s, RBool (cap s <=? n), []) /\
  step_c bits s OCapacity = Ok (s, RNum (cap s), []) /\
  n <= cap s /\ (is_full s = true <-> n = cap s) /\ (is_empty s = true <-> inorder t = []).
Proof.
  intros H n. destruct (header_inv_spec bits _ _ _ _ H) as (Hl & He & Hf & Hc & Hiff & Hle).
  cbn [step_c]. rewrite Hl, He, Hf, Hc. fold n in Hiff, Hle |- *.
  split; [reflexivity|]. split; [reflexivity|]. split; [reflexivity|]. split; [reflexivity|].
  split; [exact Hle|]. split; [fold n in Hf; rewrite <- Hf; exact Hiff|].
  subst n. destruct (inorder t) as [|x m].
  - split; reflexivity.
  - cbn [length]. split; [intros Hx; lia|discriminate].
Qed.

(* ---- the entry count after each kind of step, abstractly ---- *)
Theorem step_entry_count s t fr term :
  Inv bits s t fr term -> size s = N.of_nat (length (inorder t)).
Proof. apply inv_size. Qed.

End Clauses.

(* ------------------------------------------------------------------ *)
Section WithRemove.
Variable bits : N.
Hypothesis Hremove : remove_spec_statement bits.

(* ---- remove ---- *)
Theorem remove_clause s t fr term k :
  Inv bits s t fr term -> okbits bits -> sizecond bits s ->
  exists s' log t' fr' term',
    step_c bits s (ORemove k) = Ok (s', RVal (sm_find (inorder t) k), log) /\
    Inv bits s' t' fr' term' /\ sizecond bits s' /\
    cap s' = N.max (cap s) (nrec s) /\ nrec s' = nrec s /\
    (* the key is gone, every other key is untouched *)
    sm_find (inorder t') k = None /\
    (forall k', k' <> k -> sm_find (inorder t') k' = sm_find (inorder t) k') /\
    inorder t' = sm_remove (inorder t) k /\
    (* present: one entry fewer *)
    (forall v, sm_find (inorder t) k = Some v -> size s' + 1 = size s) /\
    (* absent: same contents; the very same state when no growth was pending *)
    (sm_find (inorder t) k = None -> t' = t /\ size s' = size s /\ (settled s -> s' = s)).
Proof.
  intros H Hb Hsc.
  destruct (open_mut_inv_spec bits s t fr term H Hsc)
    as (s1 & fr1 & Hom & H1 & Hcap1 & _ & Hlen1 & Hsame).
  pose proof (inv_bst _ _ _ _ _ H) as Hbst.
  pose proof (t_find_inorder t k Hbst) as Hfi.
  pose proof (inv_size _ _ _ _ _ H) as Hsz. pose proof (inv_size _ _ _ _ _ H1) as Hsz1.
  assert (Hsc1 : sizecond bits s1) by (apply (sizecond_mono bits s); [exact Hlen1|lia|exact Hsc]).
  assert (Hnrec1 : nrec s1 = nrec s) by (unfold nrec; rewrite Hlen1; reflexivity).
  destruct (Hremove s1 t fr1 term k H1 Hb) as [Habsent Hpresent].
  cbn [step_c]. rewrite Hom. cbn [bind].
  destruct (t_find t k) as [[slot v]|] eqn:Ef; cbn [option_map snd] in Hfi; rewrite <- Hfi.
  - destruct (Hpresent slot v eq_refl) as (s2 & fr2 & term2 & Hrm & H2 & _ & Hcap2 & Hlen2).
    rewrite Hrm. cbn [bind].
    destruct (t_remove_correct t k slot v (inv_hok _ _ _ _ _ H) (inv_avl _ _ _ _ _ H) Hbst Ef)
      as (_ & _ & _ & _ & _ & Hio & _).
    pose proof (inv_size _ _ _ _ _ H2) as Hsz2.
    exists s2, (t_log t k), (t_remove t k), fr2, term2.
    split; [reflexivity|]. split; [exact H2|].
    split; [apply (sizecond_mono bits s1); [exact Hlen2|lia|exact Hsc1]|].
    split; [unfold nrec; lia|]. split; [unfold nrec in *; rewrite Hlen2; exact Hnrec1|].
    rewrite Hio.
    split; [apply sm_find_remove_same; apply (inv_sorted bits _ _ _ _ H)|].
    split; [intros k' Hk'; apply sm_find_remove_other; exact Hk'|].
    split; [reflexivity|]. split; [|discriminate].
    intros v1 _. rewrite Hsz2, Hio, Hsz.
    pose proof (sm_remove_length (inorder t) k v (eq_sym Hfi)). lia.
  - rewrite (Habsent eq_refl). cbn [bind].
    exists s1, (t_log t k), t, fr1, term.
    split; [reflexivity|]. split; [exact H1|]. split; [exact Hsc1|].
    split; [exact Hcap1|]. split; [exact Hnrec1|].
    split; [symmetry; exact Hfi|]. split; [reflexivity|].
    split; [symmetry; apply sm_remove_absent; symmetry; exact Hfi|].
    split; [intros v0 Hv0; discriminate|].
    intros _. split; [reflexivity|]. split; [lia|]. intros Hst. apply Hsame. exact Hst.
Qed.

(* a removed key can be inserted again; a key whose value was removed reads
   as absent *)
Theorem get_after_remove s t fr term k :
  Inv bits s t fr term -> okbits bits -> sizecond bits s ->
  exists s' out log, step_c bits s (ORemove k) = Ok (s', out, log) /\
    exists log', get s' k = Ok (None, log').
Proof.
  intros H Hb Hsc.
  destruct (remove_clause s t fr term k H Hb Hsc)
    as (s' & log & t' & fr' & term' & Hstep & H' & _ & _ & _ & Hgone & _).
  exists s', (RVal (sm_find (inorder t) k)), log. split; [exact Hstep|].
  exists (t_log t' k). rewrite (get_inv_spec bits _ _ _ _ k H'), Hgone. reflexivity.
Qed.

End WithRemove.

(* a successful insert is read back *)
Theorem get_after_insert bits s t fr term k v s' slot log :
  Inv bits s t fr term -> okbits bits -> sizecond bits s ->
  step_c bits s (OInsert k v) = Ok (s', RSlot (Some slot), log) ->
  exists log', get s' k = Ok (Some v, log').
Proof.
  intros H Hb Hsc Hstep.
  destruct (insert_clause bits s t fr term k v H Hb Hsc)
    as (s2 & r & log2 & t' & fr' & term' & Hstep2 & H' & _ & _ & _ & _ & Hsucc & _).
  rewrite Hstep in Hstep2. injection Hstep2 as <- <- _.
  destruct (Hsucc (ex_intro _ slot eq_refl)) as (Hf & _).
  exists (t_log t' k). rewrite (get_inv_spec bits _ _ _ _ k H'), Hf. reflexivity.
Qed.

Print Assumptions insert_clause.
Print Assumptions get_mut_clause.
Print Assumptions lowest_clause.
Print Assumptions sizes_clause.
Print Assumptions remove_clause.
Print Assumptions get_after_remove.
Print Assumptions get_after_insert.
