(* C09 and C12 for the trees: refused operations and queries hand back the
   very same state (hence the very same bytes); every history returns
   normally; the all-zero buffer reads as an empty tree. *)
From Coq Require Import List NArith ZArith Bool Lia ZifyBool Permutation Sorted.
From Stevia Require Import Base.Res Base.ResMore Base.Bytes Avl.Impl Avl.Tree Avl.Rep Avl.Spec Avl.Format.
From Stevia Require Import Avl.TreeInv Avl.SmapFacts Avl.TreeOps Avl.TreeProps Avl.LinkFind Avl.Alloc Avl.Inv.
From Stevia Require Import Avl.LinkInsert Avl.LinkSteps Avl.SmapMore Avl.Master Avl.Clauses Avl.Capacity.
Import ListNotations.
Open Scope N_scope.

Arguments N.add : simpl never.
Arguments N.sub : simpl never.
Arguments N.mul : simpl never.
Arguments N.pow : simpl never.
Arguments N.modulo : simpl never.
Arguments N.eqb : simpl never.
Arguments N.ltb : simpl never.
Arguments N.leb : simpl never.
Arguments N.max : simpl never.
Arguments Z.add : simpl never.
Arguments Z.sub : simpl never.
Arguments Z.ltb : simpl never.
Arguments Z.gtb : simpl never.
Arguments Z.eqb : simpl never.
Arguments N.of_nat : simpl never.

(* "did nothing": a refused insert, a remove / get_mut of an absent key,
   get_mut without a write, every query, and re-opening *)
Definition quiet (o : op) (x : out) : Prop :=
  match o, x with
  | OInsert _ _, RSlot None => True
  | ORemove _, RVal None => True
  | OGetMut _ _, RVal None => True
  | OGetMut0 _, _ => True
  | OGet _, _ | OContains _, _ | OLowest, _ | OLen, _ | OIsEmpty, _ | OIsFull, _
  | OCapacity, _ | OOpenRo, _ | OOpenMut, _ => True
  | _, _ => False
  end.

Lemma run_s_length ops : forall a, length (run_s a ops) = length ops.
Proof.
  induction ops as [|o r IH]; intros a; cbn [run_s length]; [reflexivity|].
  destruct (spec_step a o) as [a' x]. cbn [length]. rewrite IH. reflexivity.
Qed.

Section Quiet.
Variable bits : N.

(* ---- C09 ---- *)

(* the queries never touch the state; no invariant needed *)
Theorem ro_step_same s o s' x log :
  ro_op o -> step_c bits s o = Ok (s', x, log) -> s' = s.
Proof.
  intros Hro. destruct o as [k v|k|k|k v|k|k| | | | | |n| | ]; cbn [ro_op] in Hro; try contradiction;
    cbn [step_c].
  - destruct (get s k) as [[r lg]| |]; cbn [bind]; congruence.
  - destruct (contains s k) as [[r lg]| |]; cbn [bind]; congruence.
  - destruct (lowest s) as [r| |]; cbn [bind]; congruence.
  - congruence.
  - congruence.
  - congruence.
  - congruence.
  - congruence.
Qed.

Theorem insert_refused_same s t fr term k v s' log :
  Inv bits s t fr term -> okbits bits ->
  insert bits s k v = Ok (s', None, log) -> s' = s.
Proof.
  intros H Hb Hi. destruct (insert_spec bits s t fr term k v H Hb) as (Hp & Hfc & Hins).
  destruct (t_find t k) as [y|] eqn:Ef; [rewrite Hp in Hi by discriminate; congruence|].
  destruct (is_full s) eqn:Efull; [rewrite Hfc in Hi by reflexivity; congruence|].
  destruct (Hins eq_refl eq_refl) as (s1 & new1 & fr1 & term1 & Hi1 & _).
  rewrite Hi1 in Hi. discriminate.
Qed.

(* insert is refused exactly for a present key or a full tree *)
Theorem insert_refused_iff s t fr term k v :
  Inv bits s t fr term -> okbits bits ->
  (t_find t k <> None \/ is_full s = true <->
   insert bits s k v = Ok (s, None, t_log t k)).
Proof.
  intros H Hb. destruct (insert_spec bits s t fr term k v H Hb) as (Hp & Hfc & Hins). split.
  - intros [Hc|Hc]; [apply Hp; exact Hc|].
    destruct (t_find t k) as [y|] eqn:Ef; [apply Hp; discriminate|apply Hfc; auto].
  - intros Hi. destruct (t_find t k) as [y|] eqn:Ef; [left; discriminate|].
    destruct (is_full s) eqn:Efull; [right; reflexivity|].
    destruct (Hins eq_refl eq_refl) as (s1 & new1 & fr1 & term1 & Hi1 & _).
    rewrite Hi1 in Hi. discriminate.
Qed.

Theorem get_mut_absent_same s t fr term k v' s' log :
  Inv bits s t fr term -> get_mut_set s k v' = Ok (s', None, log) -> s' = s.
Proof.
  intros H Hg.
  pose proof (get_mut_set_spec s t k v' (inv_rep _ _ _ _ _ H) (inv_nodup _ _ _ _ _ H) (inv_root _ _ _ _ _ H)) as Hs.
  destruct (t_find t k) as [[i v]|].
  - destruct Hs as (ns' & Hs & _). rewrite Hs in Hg. discriminate.
  - destruct Hs as [Hs _]. rewrite Hs in Hg. congruence.
Qed.

(* byte level *)
Lemma same_bytes wb lay (s s' : st) : s' = s -> encode wb lay s' = encode wb lay s.
Proof. intros ->. reflexivity. Qed.

(* every quiet step other than a removal, from a state with no growth
   pending, hands back the same state (no premise about [remove]) *)
Theorem quiet_step_same_noremove s t fr term o s' x log :
  Inv bits s t fr term -> okbits bits -> settled s -> not_remove o ->
  step_c bits s o = Ok (s', x, log) -> quiet o x -> s' = s.
Proof.
  intros H Hb Hst Hnr Hstep Hq. pose proof (open_mut_same bits s Hst) as Hom.
  destruct o as [k v|k|k|k v|k|k| | | | | |n| | ];
    try (eapply ro_step_same; [|exact Hstep]; exact I); cbn [step_c] in Hstep; rewrite ?Hom in Hstep;
    cbn [bind] in Hstep.
  - destruct (insert bits s k v) as [[[s2 r] lg]| |] eqn:Ei; cbn [bind] in Hstep; try discriminate.
    injection Hstep as <- <- _. cbn [quiet] in Hq. destruct r as [i|]; [contradiction|].
    exact (insert_refused_same s t fr term k v s2 lg H Hb Ei).
  - destruct Hnr.
  - destruct (get_mut_set s k v) as [[[s2 r] lg]| |] eqn:Eg; cbn [bind] in Hstep; try discriminate.
    injection Hstep as <- <- _. cbn [quiet] in Hq. destruct r as [i|]; [contradiction|].
    exact (get_mut_absent_same s t fr term k v s2 lg H Eg).
  - destruct (get s k) as [[r lg]| |]; cbn [bind] in Hstep; congruence.
  - cbn [quiet] in Hq. destruct Hq.
  - congruence.
Qed.

Theorem quiet_step_bytes_noremove wb lay s t fr term o s' x log :
  Inv bits s t fr term -> okbits bits -> settled s -> not_remove o ->
  step_c bits s o = Ok (s', x, log) -> quiet o x ->
  encode wb lay s' = encode wb lay s.
Proof.
  intros H Hb Hst Hnr Hstep Hq. apply same_bytes.
  exact (quiet_step_same_noremove s t fr term o s' x log H Hb Hst Hnr Hstep Hq).
Qed.

(* ---- C12: the all-zero buffer ---- *)
Theorem zero_buffer_reads_empty n :
  let z := mkS 0 0 0 0 0 (repeat node0 n) in
  (forall k, get z k = Ok (None, [])) /\
  (forall k, contains z k = Ok (false, [])) /\
  lowest z = Ok None /\ len z = 0 /\ is_empty z = true /\ capacity z = 0 /\ is_full z = true /\
  (forall k, step_c bits z (OGet k) = Ok (z, RVal None, [])) /\
  (forall k, step_c bits z (OContains k) = Ok (z, RBool false, [])) /\
  step_c bits z OLowest = Ok (z, RVal None, []) /\
  step_c bits z OLen = Ok (z, RNum 0, []) /\
  step_c bits z OIsEmpty = Ok (z, RBool true, []) /\
  step_c bits z OCapacity = Ok (z, RNum 0, []).
Proof.
  cbv zeta. repeat split; intros; reflexivity.
Qed.

End Quiet.

(* ------------------------------------------------------------------ *)
Section WithRemove.
Variable bits : N.
Hypothesis Hremove : remove_spec_statement bits.

Theorem remove_absent_same s t fr term k s' log :
  Inv bits s t fr term -> okbits bits ->
  remove bits s k = Ok (s', None, log) -> s' = s.
Proof.
  intros H Hb Hr. destruct (Hremove s t fr term k H Hb) as [Ha Hp].
  destruct (t_find t k) as [[slot v]|] eqn:Ef.
  - destruct (Hp slot v eq_refl) as (s2 & fr2 & term2 & Hrm & _). rewrite Hrm in Hr. discriminate.
  - rewrite (Ha eq_refl) in Hr. congruence.
Qed.

Theorem remove_absent_iff s t fr term k :
  Inv bits s t fr term -> okbits bits ->
  (t_find t k = None <-> remove bits s k = Ok (s, None, t_log t k)).
Proof.
  intros H Hb. destruct (Hremove s t fr term k H Hb) as [Ha Hp]. split; [exact Ha|].
  intros Hr. destruct (t_find t k) as [[slot v]|] eqn:Ef; [|reflexivity].
  destruct (Hp slot v eq_refl) as (s2 & fr2 & term2 & Hrm & _). rewrite Hrm in Hr. discriminate.
Qed.

(* every quiet step from a state with no growth pending hands back the
   same state *)
Theorem quiet_step_same s t fr term o s' x log :
  Inv bits s t fr term -> okbits bits -> settled s ->
  step_c bits s o = Ok (s', x, log) -> quiet o x -> s' = s.
Proof.
  intros H Hb Hst Hstep Hq.
  destruct o as [k v|k|k|k v|k|k| | | | | |n| | ];
    try (eapply (quiet_step_same_noremove bits); [exact H|exact Hb|exact Hst| |exact Hstep|exact Hq]; exact I).
  pose proof (open_mut_same bits s Hst) as Hom.
  cbn [step_c] in Hstep; rewrite Hom in Hstep; cbn [bind] in Hstep.
  destruct (remove bits s k) as [[[s2 r] lg]| |] eqn:Er; cbn [bind] in Hstep; try discriminate.
  injection Hstep as <- <- _. cbn [quiet] in Hq. destruct r as [i|]; [contradiction|].
  exact (remove_absent_same s t fr term k s2 lg H Hb Er).
Qed.

Theorem quiet_step_bytes wb lay s t fr term o s' x log :
  Inv bits s t fr term -> okbits bits -> settled s ->
  step_c bits s o = Ok (s', x, log) -> quiet o x ->
  encode wb lay s' = encode wb lay s.
Proof.
  intros H Hb Hst Hstep Hq. apply same_bytes. exact (quiet_step_same s t fr term o s' x log H Hb Hst Hstep Hq).
Qed.

(* ... in every state reachable on a buffer of fixed size *)
Theorem quiet_step_same_reachable capacity ops s o s' x log :
  okbits bits -> capacity < 2 ^ bits -> (bits <> 8 -> capacity + 1 < 2 ^ bits) ->
  Forall no_ext ops -> final_c bits (init_c capacity capacity) ops = Ok s ->
  step_c bits s o = Ok (s', x, log) -> quiet o x -> s' = s.
Proof.
  intros Hb H1 H2 Hne Hf Hstep Hq.
  destruct (final_fixed bits Hremove capacity ops s Hb H1 H2 Hne Hf) as (t & fr & term & H & Hst & _).
  exact (quiet_step_same s t fr term o s' x log H Hb Hst Hstep Hq).
Qed.

(* ---- C12: every history returns normally ---- *)
Theorem run_total_from s t fr term ops :
  Inv bits s t fr term -> okbits bits -> sizecond bits s -> growth_okw bits (abs_of s t) ops ->
  Forall res_ok (run_c bits s ops) /\ length (run_c bits s ops) = length ops.
Proof.
  intros H Hb Hsc Hg.
  destruct (run_refines_from bits Hremove ops s t fr term H Hb Hsc Hg) as (outs & Hr & Ha).
  rewrite Hr. split; [apply Forall_map_Ok|].
  rewrite map_length, <- (map_length out_abs), Ha. apply run_s_length.
Qed.

Theorem run_total capacity ops :
  okbits bits -> capacity < 2 ^ bits -> (bits <> 8 -> capacity + 1 < 2 ^ bits) ->
  growth_ok bits (spec_init capacity) ops ->
  Forall res_ok (run_c bits (init_c capacity capacity) ops) /\
  length (run_c bits (init_c capacity capacity) ops) = length ops.
Proof.
  intros Hb H1 H2 Hg.
  destruct (run_refines bits Hremove capacity ops Hb H1 H2 Hg) as (outs & Hr & Ha).
  rewrite Hr. split; [apply Forall_map_Ok|].
  rewrite map_length, <- (map_length out_abs), Ha. apply run_s_length.
Qed.

Theorem run_total_fixed capacity ops :
  okbits bits -> capacity < 2 ^ bits -> (bits <> 8 -> capacity + 1 < 2 ^ bits) ->
  Forall no_ext ops ->
  Forall res_ok (run_c bits (init_c capacity capacity) ops) /\
  length (run_c bits (init_c capacity capacity) ops) = length ops.
Proof. intros Hb H1 H2 Hne. apply run_total; auto. apply growth_ok_no_ext. exact Hne. Qed.

End WithRemove.

(* the two widths, every capacity the API accepts: 0 .. 255 for the u8 tree
   (255 = the largest the index type holds), 0 .. 2^32 - 2 for the u32 tree *)
Theorem run_total_u8 capacity ops :
  remove_spec_statement 8 -> capacity <= 255 -> Forall no_ext ops ->
  Forall res_ok (run_c 8 (init_c capacity capacity) ops) /\
  length (run_c 8 (init_c capacity capacity) ops) = length ops.
Proof.
  intros Hrm Hc Hne. apply run_total_fixed; auto.
  - left. reflexivity.
  - change (2 ^ 8) with 256. lia.
  - intros Hx. congruence.
Qed.

Theorem run_total_u32 capacity ops :
  remove_spec_statement 32 -> capacity + 1 < 2 ^ 32 -> Forall no_ext ops ->
  Forall res_ok (run_c 32 (init_c capacity capacity) ops) /\
  length (run_c 32 (init_c capacity capacity) ops) = length ops.
Proof.
  intros Hrm Hc Hne. apply run_total_fixed; auto.
  - right. reflexivity.
  - lia.
Qed.

(* capacities 0, 1, 2 and 255 of the u8 tree *)
Corollary run_total_u8_edges ops :
  remove_spec_statement 8 -> Forall no_ext ops ->
  Forall (fun c => Forall res_ok (run_c 8 (init_c c c) ops) /\
                   length (run_c 8 (init_c c c) ops) = length ops) [0; 1; 2; 255].
Proof.
  intros Hrm Hne. repeat (constructor; [apply run_total_u8; [exact Hrm|lia|exact Hne]|]). constructor.
Qed.

Print Assumptions ro_step_same.
Print Assumptions insert_refused_same.
Print Assumptions insert_refused_iff.
Print Assumptions quiet_step_same_noremove.
Print Assumptions zero_buffer_reads_empty.
Print Assumptions remove_absent_same.
Print Assumptions quiet_step_same.
Print Assumptions quiet_step_bytes.
Print Assumptions quiet_step_same_reachable.
Print Assumptions run_total_from.
Print Assumptions run_total.
Print Assumptions run_total_u8.
Print Assumptions run_total_u32.
Print Assumptions run_total_u8_edges.
