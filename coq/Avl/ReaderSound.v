(* Soundness of the independent reader [decode_doc] of the AVL trees, in the
   direction reader -> structure: whatever bytes it is given (no invariant is
   assumed), if it answers [Some d] then the buffer decodes, the header words
   are the ones reported, the tree reported was read by following the links,
   the free list reported was read by following the height registers, and each
   of the verdicts [d_wf], [d_bst], [d_bal] means what it says.
   (Avl/DocFacts.v proves the other direction: on the bytes of a state
   satisfying the invariant the reader succeeds and says [true] three times.)

   The reader does NOT check three things the invariant asks for: that the
   free list ends at the cursor (it follows exactly [lseq - 1 - #live] height
   registers from the free-list head and stops), and the two bounds on the
   capacity word.  With those added the three verdicts give the master
   invariant ([avl_reader_inv]); without the first they do not
   ([avl_reader_not_inv]). *)
From Coq Require Import List NArith ZArith Bool Lia ZifyBool Arith Sorting.Sorted.
From Stevia Require Import Base.Res Base.Bytes Avl.Impl Avl.Tree Avl.Rep Avl.Spec.
From Stevia Require Import Avl.TreeInv Avl.SmapFacts Avl.TreeOps Avl.Alloc Avl.Inv.
From Stevia Require Import Avl.Format Hash.FormatFacts Avl.FormatFacts Avl.Balance Avl.DocFacts.
Import ListNotations.
Open Scope N_scope.

Arguments N.add : simpl never.
Arguments N.sub : simpl never.
Arguments N.mul : simpl never.
Arguments N.div : simpl never.
Arguments N.pow : simpl never.
Arguments N.modulo : simpl never.
Arguments N.eqb : simpl never.
Arguments N.ltb : simpl never.
Arguments N.leb : simpl never.
Arguments N.max : simpl never.
Arguments Z.add : simpl never.
Arguments Z.sub : simpl never.
Arguments Z.ltb : simpl never.
Arguments Z.eqb : simpl never.
Arguments N.of_nat : simpl never.
Arguments N.to_nat : simpl never.

(* ------------------------------------------------------------------ *)
(* 1. the reader's tree as a structure over the record array           *)

(* slot of the root (0 = sentinel for the empty tree) *)
Definition dslot (t : dtree) : N := match t with DE => 0 | DT _ i _ _ _ _ => i end.

(* the record array holds the tree: the record at a node's slot holds the
   slots of its subtrees' roots, its stored height, its key and its value *)
Fixpoint drep (ns : list node) (t : dtree) : Prop :=
  match t with
  | DE => True
  | DT l i k v h r => holds ns i (dslot l) (dslot r) h k v /\ drep ns l /\ drep ns r
  end.

(* the live slots, in order *)
Definition dlive (t : dtree) : list N := map (fun x => fst (fst x)) (d_inorder t).
Definition dkeys (t : dtree) : list Z := map (fun x => snd (fst x)) (d_inorder t).

(* [dsub u t]: u occurs in t *)
Inductive dsub (u : dtree) : dtree -> Prop :=
| dsub_here : dsub u u
| dsub_left l i k v h r : dsub u l -> dsub u (DT l i k v h r)
| dsub_right l i k v h r : dsub u r -> dsub u (DT l i k v h r).

(* the tree of layer T with the same shape, slots, keys, values, heights *)
Fixpoint it_of (t : dtree) : itree :=
  match t with DE => E | DT l i k v h r => T (it_of l) i k v h (it_of r) end.

Lemma dt_of_it_of t : dt_of (it_of t) = t.
Proof. induction t as [|l IHl i k v h r IHr]; [reflexivity|]. cbn [it_of dt_of]. rewrite IHl, IHr. reflexivity. Qed.
Lemma it_of_dt_of t : it_of (dt_of t) = t.
Proof. induction t as [|l IHl i k v h r IHr]; [reflexivity|]. cbn [it_of dt_of]. rewrite IHl, IHr. reflexivity. Qed.
Lemma idx_it_of t : idx (it_of t) = dslot t.
Proof. destruct t; reflexivity. Qed.
Lemma triples_it_of t : triples (it_of t) = d_inorder t.
Proof. rewrite <- d_inorder_dt_of, dt_of_it_of. reflexivity. Qed.
Lemma idxs_it_of t : idxs (it_of t) = dlive t.
Proof. rewrite idxs_triples, triples_it_of. reflexivity. Qed.
Lemma keys_it_of t : keys (it_of t) = dkeys t.
Proof. rewrite keys_triples, triples_it_of. reflexivity. Qed.
Lemma levels_it_of t : levels (it_of t) = d_levels t.
Proof. rewrite <- d_levels_dt_of, dt_of_it_of. reflexivity. Qed.

Lemma drep_rep ns t : drep ns t <-> rep ns (it_of t).
Proof.
  induction t as [|l IHl i k v h r IHr]; [reflexivity|].
  cbn [drep it_of rep]. rewrite !idx_it_of, IHl, IHr. reflexivity.
Qed.

(* ------------------------------------------------------------------ *)
(* 2. reflection of the boolean checks                                 *)

Lemma nodupb_NoDup (l : list N) : nodupb l = true -> NoDup l.
Proof.
  induction l as [|a l IH]; intros H; [constructor|].
  cbn [nodupb] in H. apply andb_true_iff in H. destruct H as [H1 H2].
  constructor; [|apply IH; exact H2].
  intros Hin. apply negb_true_iff in H1.
  assert (T : existsb (N.eqb a) l = true).
  { apply existsb_exists. exists a. split; [exact Hin|apply N.eqb_refl]. }
  congruence.
Qed.

Lemma nodupb_iff (l : list N) : nodupb l = true <-> NoDup l.
Proof. split; [apply nodupb_NoDup|apply nodupb_of_nodup]. Qed.

Lemma is_zero_node_eq n : is_zero_node n = true -> n = node0.
Proof.
  destruct n as [a b c k v]. unfold is_zero_node. cbn [nl nr nh nk nv].
  rewrite !andb_true_iff. intros ((((A & B) & C) & K) & V).
  apply N.eqb_eq in A, B, C. apply Z.eqb_eq in K, V. subst. reflexivity.
Qed.

(* a duplicate-free list of q-1 numbers in [1,q) contains all of them *)
Lemma pigeon_full_N (l : list N) q : NoDup l -> (forall i, In i l -> 1 <= i < q) ->
  N.of_nat (length l) + 1 = q -> forall i, 1 <= i < q -> In i l.
Proof.
  intros ND R L i Hi.
  apply (NoDup_length_incl ND (l' := map N.of_nat (List.seq 1 (length l)))).
  - rewrite map_length, seq_length. lia.
  - intros j Hj. apply R in Hj. apply in_map_iff. exists (N.to_nat j). split; [lia|].
    apply in_seq. lia.
  - apply in_map_iff. exists (N.to_nat i). split; [lia|]. apply in_seq. lia.
Qed.

(* what the balance verdict says, node by node *)
Lemma d_balanced_nodes t : d_balanced t = true ->
  forall l i k v h r, dsub (DT l i k v h r) t ->
    d_levels l <= d_levels r + 1 /\ d_levels r <= d_levels l + 1 /\
    h + 1 = d_levels (DT l i k v h r).
Proof.
  intros Hb l i k v h r Hs. revert Hb.
  remember (DT l i k v h r) as u eqn:Eu.
  induction Hs as [|l0 i0 k0 v0 h0 r0 Hs IH|l0 i0 k0 v0 h0 r0 Hs IH]; intros Hb.
  - subst u. cbn [d_balanced d_levels] in *. rewrite !andb_true_iff in Hb.
    destruct Hb as ((((B1 & B2) & Hh) & _) & _). lia.
  - cbn [d_balanced] in Hb. rewrite !andb_true_iff in Hb. destruct Hb as ((_ & Dl) & _).
    apply IH; assumption.
  - cbn [d_balanced] in Hb. rewrite !andb_true_iff in Hb. destruct Hb as (_ & Dr).
    apply IH; assumption.
Qed.

Lemma d_balanced_it t : d_balanced t = true -> avl (it_of t) /\ hok (it_of t).
Proof. intros H. apply d_balanced_sound. rewrite dt_of_it_of. exact H. Qed.

(* ------------------------------------------------------------------ *)
(* 3. the reader's walks, read backwards                               *)

Lemma rec_at_getn s i n : rec_at s i = Some n -> getn (nodes s) i = Ok n.
Proof. apply getn_rec_at. Qed.

Lemma rec_at_in_range s i n : rec_at s i = Some n -> 1 <= i <= N.of_nat (length (nodes s)).
Proof. intros H. apply rec_at_getn in H. apply getn_range in H. exact H. Qed.

(* following the links: the tree returned is held by the record array and
   its root is the slot the walk started from *)
Lemma walk_sound s : forall fuel i t, walk fuel s i = Some t -> drep (nodes s) t /\ dslot t = i.
Proof.
  induction fuel as [|f IH]; intros i t H; cbn [walk] in H; [discriminate|].
  destruct (N.eqb_spec i 0) as [E0|E0].
  - injection H as <-. cbn [drep dslot]. auto.
  - destruct (rec_at s i) as [n|] eqn:En; [|discriminate].
    destruct (walk f s (nl n)) as [l|] eqn:El; [|discriminate].
    destruct (walk f s (nr n)) as [r|] eqn:Er; [|discriminate].
    injection H as <-. destruct (IH _ _ El) as [Rl Sl]. destruct (IH _ _ Er) as [Rr Sr].
    cbn [drep dslot]. split; [|reflexivity]. split; [|split; assumption].
    exists n. split; [apply rec_at_getn; exact En|]. rewrite Sl, Sr. repeat split; reflexivity.
Qed.

(* every slot of the tree read is a record of the buffer *)
Lemma drep_live_range ns t : drep ns t -> forall i, In i (dlive t) -> 1 <= i <= N.of_nat (length ns).
Proof.
  unfold dlive. induction t as [|l IHl i0 k v h r IHr]; cbn [drep d_inorder map]; [intros _ i []|].
  intros ((n & Hn & _) & Hl & Hr) i Hi. rewrite map_app in Hi. cbn [map fst] in Hi.
  apply in_app_or in Hi. destruct Hi as [Hi|[<-|Hi]]; [apply IHl; assumption| |apply IHr; assumption].
  apply (getn_range _ _ _ Hn).
Qed.

(* following the height registers *)
Lemma free_chain_sound s : forall n h fr, free_chain n s h = Some fr ->
  length fr = n /\ (exists term, fchain (nodes s) h fr term) /\
  (forall i, In i fr -> 1 <= i <= N.of_nat (length (nodes s))).
Proof.
  induction n as [|n IH]; intros h fr H; cbn [free_chain] in H.
  - injection H as <-. split; [reflexivity|]. split; [exists h; reflexivity|]. intros i [].
  - destruct (rec_at s h) as [x|] eqn:Ex; [|discriminate].
    destruct (free_chain n s (nh x)) as [r|] eqn:Er; [|discriminate].
    injection H as <-. destruct (IH _ _ Er) as (A & (term & B) & C).
    split; [cbn [length]; lia|]. split.
    + exists term. cbn [fchain]. split; [reflexivity|]. exists x. split; [apply rec_at_getn; exact Ex|exact B].
    + intros i [<-|Hi]; [apply (rec_at_in_range s h x Ex)|apply C; exact Hi].
Qed.

(* ------------------------------------------------------------------ *)
(* 4. the main statement                                               *)

Section Sound.
Variable wbytes : nat.
Variable lay : layout.
Local Notation decode := (decode wbytes lay).
Local Notation decode_doc := (decode_doc wbytes lay).
Local Notation lseq := (Format.lseq wbytes).

Theorem avl_reader_sound bs d : decode_doc bs = Some d ->
  exists s, decode bs = Some s /\
    d_hdr d = [root s; size s; cap s; flh s; seq s] /\
    (* the tree was read by following the links from the root word *)
    drep (nodes s) (d_tree d) /\ dslot (d_tree d) = root s /\
    (forall i, In i (dlive (d_tree d)) -> 1 <= i <= N.of_nat (length (nodes s))) /\
    (* the recycled slots were read by following the height registers from
       the free-list head, as many as the cursor and the tree leave *)
    (exists term, fchain (nodes s) (flh s) (d_free d) term) /\
    N.of_nat (length (d_free d)) = lseq s - 1 - N.of_nat (length (dlive (d_tree d))) /\
    (forall i, In i (d_free d) -> 1 <= i <= N.of_nat (length (nodes s))) /\
    (* the never-used slots are the records from the cursor on *)
    (forall i, In i (d_never d) <-> lseq s <= i /\ 1 <= i <= N.of_nat (length (nodes s))) /\
    (* well-formedness *)
    (d_wf d = true ->
       (* every record is in exactly one class; live and recycled together
          are exactly the slots below the cursor *)
       NoDup (dlive (d_tree d) ++ d_free d ++ d_never d) /\
       (forall i, In i (dlive (d_tree d) ++ d_free d ++ d_never d) <-> 1 <= i <= N.of_nat (length (nodes s))) /\
       (forall i, In i (dlive (d_tree d) ++ d_free d) <-> 1 <= i < lseq s) /\
       N.of_nat (length (dlive (d_tree d)) + length (d_free d)) + 1 = lseq s /\
       (* no node is reached twice (no sharing, no cycle), no slot is both
          live and recycled *)
       NoDup (dlive (d_tree d)) /\ NoDup (d_free d) /\
       (forall i, In i (dlive (d_tree d)) -> ~ In i (d_free d)) /\
       (* size word, cursor, capacity word *)
       N.of_nat (length (dlive (d_tree d))) = size s /\
       1 <= lseq s <= cap s + 1 /\ cap s <= N.of_nat (length (nodes s)) /\
       (* recycled records are cleared but for the chain link; never-used
          records are all zero *)
       (forall i, In i (d_free d) -> free_rec (nodes s) i) /\
       (forall i, In i (d_never d) -> getn (nodes s) i = Ok node0)) /\
    (* search order *)
    (d_bst d = true -> StronglySorted Z.lt (dkeys (d_tree d))) /\
    (* balance and stored heights *)
    (d_bal d = true ->
       forall l i k v h r, dsub (DT l i k v h r) (d_tree d) ->
         d_levels l <= d_levels r + 1 /\ d_levels r <= d_levels l + 1 /\
         h + 1 = d_levels (DT l i k v h r)).
Proof.
  intros H. unfold Format.decode_doc in H.
  destruct (decode bs) as [s|] eqn:Hd; [|discriminate].
  destruct (walk (S (length (nodes s))) s (root s)) as [t|] eqn:Hwk; [|discriminate].
  cbv zeta in H.
  match type of H with match ?X with _ => _ end = _ => destruct X as [fr|] eqn:Hfr; [|discriminate] end.
  injection H as <-. cbn [d_hdr d_tree d_free d_never d_wf d_bst d_bal].
  fold (dlive t). fold (dkeys t).
  destruct (walk_sound s _ _ _ Hwk) as [Hrep Hroot].
  destruct (free_chain_sound s _ _ _ Hfr) as (HLf & Hch & HRf).
  change (map (fun x => fst (fst x)) (d_inorder t)) with (dlive t) in HLf.
  pose proof (drep_live_range _ _ Hrep) as HRl.
  assert (Hnev : forall i, In i (filter (fun i => lseq s <=? i) (map N.of_nat (List.seq 1 (length (nodes s)))))
                   <-> lseq s <= i /\ 1 <= i <= N.of_nat (length (nodes s))).
  { intros i. rewrite filter_In, in_map_iff. split.
    - intros ((j & <- & Hj) & Hle). apply in_seq in Hj. lia.
    - intros (Hle & H1 & H2). split; [|lia]. exists (N.to_nat i). split; [lia|]. apply in_seq. lia. }
  exists s. split; [reflexivity|]. split; [reflexivity|]. split; [exact Hrep|]. split; [exact Hroot|].
  split; [exact HRl|]. split; [exact Hch|]. split; [rewrite HLf; lia|]. split; [exact HRf|].
  split; [exact Hnev|].
  split; [|split; [apply sorted_keys_sound|apply d_balanced_nodes]].
  intros W. rewrite !andb_true_iff in W.
  destruct W as [[[[[[[W1 W2] W3] W4] W5] W6] W7] W8].
  apply nodupb_NoDup in W1. apply N.eqb_eq in W3. apply N.leb_le in W4, W5, W6.
  assert (HR : forall i, In i (dlive t ++ fr) -> 1 <= i < lseq s).
  { intros i Hi. rewrite forallb_forall in W2. specialize (W2 i Hi). lia. }
  assert (Hcnt : N.of_nat (length (dlive t) + length fr) + 1 = lseq s) by (rewrite HLf; lia).
  assert (Full : forall i, 1 <= i < lseq s -> In i (dlive t ++ fr)).
  { apply pigeon_full_N; [exact W1|exact HR|]. rewrite app_length. exact Hcnt. }
  destruct (nodup_app _ _ W1) as (NDl & NDf & Hdisj).
  split.
  { rewrite app_assoc. apply nodup_app_intro.
    - exact W1.
    - apply NoDup_filter. apply FinFun.Injective_map_NoDup; [|apply seq_NoDup]. intros a b Hab. lia.
    - intros x Hx Hf. apply Hnev in Hf. specialize (HR x Hx). lia. }
  split.
  { intros i. rewrite app_assoc, in_app_iff, Hnev. split.
    - intros [Hi|Hi]; [specialize (HR i Hi); lia|lia].
    - intros Hi. destruct (N.lt_ge_cases i (lseq s)) as [Hlt|Hge]; [left; apply Full; lia|right; lia]. }
  split; [intros i; split; [apply HR|apply Full]|].
  split; [exact Hcnt|]. split; [exact NDl|]. split; [exact NDf|]. split; [exact Hdisj|].
  split; [exact W3|]. split; [lia|]. split; [exact W6|].
  split.
  - intros i Hi. rewrite forallb_forall in W8. specialize (W8 i Hi).
    destruct (rec_at s i) as [n|] eqn:En; [|discriminate]. exists n.
    split; [apply rec_at_getn; exact En|].
    rewrite !andb_true_iff in W8. destruct W8 as (((A & B) & K) & V).
    apply N.eqb_eq in A, B. apply Z.eqb_eq in K, V. auto.
  - intros i Hi. rewrite forallb_forall in W7. specialize (W7 i Hi).
    destruct (rec_at s i) as [n|] eqn:En; [|discriminate].
    apply is_zero_node_eq in W7. subst n. apply rec_at_getn. exact En.
Qed.

(* the same verdicts, said of the tree of layer T with the reader's shape *)
Theorem avl_reader_tree bs d s : decode_doc bs = Some d -> decode bs = Some s ->
  rep (nodes s) (it_of (d_tree d)) /\ idx (it_of (d_tree d)) = root s /\
  triples (it_of (d_tree d)) = d_inorder (d_tree d) /\
  (d_bst d = true -> bst (it_of (d_tree d))) /\
  (d_bal d = true -> avl (it_of (d_tree d)) /\ hok (it_of (d_tree d))).
Proof.
  intros H Hd. destruct (avl_reader_sound bs d H) as (s0 & Hd0 & _ & Hrep & Hroot & _).
  rewrite Hd in Hd0. injection Hd0 as <-.
  split; [apply drep_rep; exact Hrep|]. split; [rewrite idx_it_of; exact Hroot|].
  split; [apply triples_it_of|].
  assert (Eb : d_bst d = sorted_keys (dkeys (d_tree d)) /\ d_bal d = d_balanced (d_tree d)).
  { unfold Format.decode_doc in H. rewrite Hd in H.
    destruct (walk (S (length (nodes s))) s (root s)) as [t|]; [|discriminate]. cbv zeta in H.
    match type of H with match ?X with _ => _ end = _ => destruct X as [fr|]; [|discriminate] end.
    injection H as <-. split; reflexivity. }
  destruct Eb as [E1 E2]. split.
  - intros Hb. apply bst_sorted. rewrite keys_it_of. apply sorted_keys_sound. rewrite <- E1. exact Hb.
  - intros Hb. apply d_balanced_it. rewrite <- E2. exact Hb.
Qed.

(* ------------------------------------------------------------------ *)
(* 5. with the unchecked clauses added: the master invariant           *)

Hypothesis Hw : wbytes = 1%nat \/ wbytes = 4%nat.
Local Notation bits := (bits_of wbytes).

Theorem avl_reader_inv bs d s term : decode_doc bs = Some d -> decode bs = Some s ->
  d_wf d = true -> d_bst d = true -> d_bal d = true ->
  fchain (nodes s) (flh s) (d_free d) term -> (lseq s <= cap s -> term = seq s) ->
  cap s < 2 ^ bits -> (bits <> 8 -> cap s + 1 < 2 ^ bits) ->
  Inv bits s (it_of (d_tree d)) (d_free d) term.
Proof.
  intros H Hd Wf Wb Wa Hch Hterm Hc1 Hc2.
  destruct (avl_reader_tree bs d s H Hd) as (Hrep & Hroot & _ & Hbst & Hbal).
  destruct (Hbal Wa) as [Havl Hhok].
  destruct (avl_reader_sound bs d H) as (s0 & Hd0 & _ & _ & _ & _ & _ & _ & _ & Hnev & Hwf & _).
  rewrite Hd in Hd0. injection Hd0 as <-.
  destruct (Hwf Wf) as (ND & Hcov & Hlow & Hcnt & _ & _ & _ & Hsz & Hsq & Hcl & Hfree & Hzero).
  constructor; [exact Hrep|symmetry; exact Hroot|exact Hhok|exact Havl|exact (Hbst Wb)|].
  rewrite idxs_it_of.
  constructor; rewrite <- ?(lseq_eq wbytes Hw).
  - rewrite app_assoc in ND. apply nodup_app in ND. exact (proj1 ND).
  - intros x Hx. apply Hlow in Hx. exact Hx.
  - rewrite app_length. lia.
  - symmetry. exact Hsz.
  - exact Hch.
  - exact Hterm.
  - exact Hfree.
  - intros j H1 H2. apply Hzero. apply Hnev. lia.
  - lia.
  - lia.
  - exact Hcl.
  - exact Hc1.
  - exact Hc2.
Qed.

End Sound.

(* ------------------------------------------------------------------ *)
(* 6. bytes the reader rejects, and bytes it accepts although they are
      not a state of the invariant                                      *)

(* a free-list head that points at a live slot: [d_wf] is false *)
Example reject_live_and_free :
  exists d, decode_doc 1 ex_lay8 (encode 1 ex_lay8 (with_flh ex_state 1)) = Some d /\ d_wf d = false.
Proof. eexists. split; vm_compute; reflexivity. Qed.

(* a cyclic link (record 2 is its own left child; also a two-cycle 1 -> 2 ->
   1): the walk runs out of fuel and the reader refuses the buffer *)
Definition cyc_self : st := mkS 1 2 2 3 3 [mkN 2 0 1 20 200; mkN 2 0 0 10 100]%Z.
Definition cyc_two : st := mkS 1 2 2 3 3 [mkN 2 0 1 20 200; mkN 0 1 0 10 100]%Z.
Example reject_cycle :
  decode 1 ex_lay8 (encode 1 ex_lay8 cyc_self) = Some cyc_self /\
  decode_doc 1 ex_lay8 (encode 1 ex_lay8 cyc_self) = None /\
  decode 1 ex_lay8 (encode 1 ex_lay8 cyc_two) = Some cyc_two /\
  decode_doc 1 ex_lay8 (encode 1 ex_lay8 cyc_two) = None.
Proof. repeat split; vm_compute; reflexivity. Qed.

(* a record with two parents (1 -> 2 on both sides): the walk succeeds, slot 2
   occurs twice among the live slots, [d_wf] is false *)
Definition shared_child : st := mkS 1 2 2 3 3 [mkN 2 2 1 20 200; mkN 0 0 0 10 100]%Z.
Example reject_shared :
  exists d, decode_doc 1 ex_lay8 (encode 1 ex_lay8 shared_child) = Some d /\
    dlive (d_tree d) = [2; 1; 2] /\ d_wf d = false.
Proof. eexists. split; [vm_compute; reflexivity|]. split; vm_compute; reflexivity. Qed.

(* the unchecked clause matters: capacity 2, nothing stored, cursor 1, but
   the free-list head word says 2.  The reader follows 0 height registers and
   is satisfied; the invariant is not (an empty free chain must start at the
   cursor), and [add] would hand out record 2 while the cursor stays at 1 *)
Definition avl_rs_bad : st := mkS 0 0 2 2 1 [node0; node0].
Example avl_reader_not_inv :
  (exists d, decode_doc 1 ex_lay8 (encode 1 ex_lay8 avl_rs_bad) = Some d /\
     d_wf d = true /\ d_bst d = true /\ d_bal d = true) /\
  ~ inv 8 avl_rs_bad.
Proof.
  split.
  - eexists. split; [vm_compute; reflexivity|]. repeat split.
  - intros (t & fr & term & I). pose proof (inv_alloc _ _ _ _ _ I) as A.
    pose proof (ai_count _ _ _ _ _ A) as Hc. pose proof (ai_chain _ _ _ _ _ A) as Hch.
    pose proof (ai_term _ _ _ _ _ A) as Ht.
    change (Alloc.lseq 8 avl_rs_bad) with 1 in *. rewrite app_length in Hc.
    destruct fr as [|x fr]; [|cbn [length] in Hc; lia].
    cbn [fchain] in Hch. cbn [flh seq cap avl_rs_bad] in *. specialize (Ht ltac:(lia)). lia.
Qed.

Print Assumptions nodupb_iff.
Print Assumptions walk_sound.
Print Assumptions free_chain_sound.
Print Assumptions avl_reader_sound.
Print Assumptions avl_reader_tree.
Print Assumptions avl_reader_inv.
Print Assumptions reject_live_and_free.
Print Assumptions reject_cycle.
Print Assumptions reject_shared.
Print Assumptions avl_reader_not_inv.
