(* Link C <-> T under the master invariant, part 1: decompositions of the
   tree, the height budget of [rebalance_spec] from the invariant, and
   [insert] of layer C against [t_insert] of layer T. *)
From Coq Require Import List NArith ZArith Bool Lia ZifyBool Permutation.
From Stevia Require Import Base.Res Avl.Impl Avl.Tree Avl.Rep Avl.Spec Avl.LinkPrim Avl.LinkRebal.
From Stevia Require Import Avl.TreeInv Avl.SmapFacts Avl.TreeOps Avl.TreeHeight Avl.LinkFind Avl.Alloc Avl.Inv.
Import ListNotations.
Open Scope N_scope.

Arguments N.add : simpl never.
Arguments N.sub : simpl never.
Arguments N.mul : simpl never.
Arguments N.pow : simpl never.
Arguments N.modulo : simpl never.
Arguments N.eqb : simpl never.
Arguments N.ltb : simpl never.
Arguments N.leb : simpl never.
Arguments N.max : simpl never.
Arguments Z.add : simpl never.
Arguments Z.sub : simpl never.
Arguments Z.ltb : simpl never.
Arguments Z.gtb : simpl never.
Arguments Z.eqb : simpl never.
Arguments N.of_nat : simpl never.

(* ------------------------------------------------------------------ *)
(* small tree facts                                                    *)

Lemma hok_hmax t : hok t -> hmax t <= levels t.
Proof.
  induction t as [|l IHl i k v h r IHr]; cbn [hok hmax levels]; [lia|].
  intros [Hh [Hl Hr]]. specialize (IHl Hl). specialize (IHr Hr). lia.
Qed.

(* for a non-empty tree the bound is off by one: the stored heights count
   edges, [levels] counts nodes *)
Lemma hok_hmax_tight t : hok t -> t <> E -> hmax t + 1 = levels t.
Proof.
  destruct t as [|l i k v h r]; [congruence|]. cbn [hok hmax levels]. intros [Hh [Hl Hr]] _.
  pose proof (hok_hmax l Hl). pose proof (hok_hmax r Hr). lia.
Qed.

Lemma length_idxs_inorder t : length (idxs t) = length (inorder t).
Proof. rewrite idxs_triples, inorder_triples, !map_length. reflexivity. Qed.

Lemma tsize_idxs t : tsize t = N.of_nat (length (idxs t)).
Proof. rewrite tsize_triples, idxs_triples, map_length. reflexivity. Qed.

Lemma keys_idxs_length t : length (keys t) = length (idxs t).
Proof. rewrite keys_triples, idxs_triples, !map_length. reflexivity. Qed.

(* the representation only reads the records of the tree's own slots *)
Lemma rep_ext ns ns' t :
  (forall j, In j (idxs t) -> getn ns' j = getn ns j) -> rep ns t -> rep ns' t.
Proof.
  induction t as [|l IHl i k v h r IHr]; cbn [rep idxs]; auto.
  intros Hs [[n Hn] [Hl Hr]]. split; [|split].
  - exists n. rewrite Hs; [assumption|]. apply in_or_app. right. left. reflexivity.
  - apply IHl; [|assumption]. intros j Hj. apply Hs. apply in_or_app. left. assumption.
  - apply IHr; [|assumption]. intros j Hj. apply Hs. apply in_or_app. right. right. assumption.
Qed.

(* appending records does not disturb the representation *)
Lemma rep_app ns more t : rep ns t -> rep (ns ++ more) t.
Proof.
  intros H. apply (rep_ext ns); [|assumption].
  intros j Hj. apply getn_app_l. apply (rep_idxs_range ns t j H Hj).
Qed.

(* ------------------------------------------------------------------ *)
(* decompositions of a tree into a context and a subtree, keeping the  *)
(* stored heights of the siblings                                      *)

Inductive decomp (t0 : itree) : ctx -> itree -> Prop :=
| dc_here : decomp t0 [] t0
| dc_left c l i k v h r : decomp t0 c (T l i k v h r) -> decomp t0 (FL i k v r :: c) l
| dc_right c l i k v h r : decomp t0 c (T l i k v h r) -> decomp t0 (FR l i k v :: c) r.

Lemma decomp_bounds t0 c u :
  decomp t0 c u ->
  cmax c <= hmax t0 /\ hmax u <= hmax t0 /\ (length c + depth u <= depth t0)%nat.
Proof.
  induction 1 as [|c l i k v h r _ IH|c l i k v h r _ IH];
    cbn [cmax hmax depth length fsib] in *; lia.
Qed.

Lemma decomp_perm t0 c u : decomp t0 c u -> Permutation (idxs t0) (idxs u ++ ctx_idxs c).
Proof.
  induction 1 as [|c l i k v h r _ IH|c l i k v h r _ IH]; cbn [ctx_idxs fidx fsib idxs] in *.
  - rewrite app_nil_r. reflexivity.
  - rewrite IH, <- app_assoc. reflexivity.
  - rewrite IH, <- app_assoc. cbn [app].
    rewrite (Permutation_app_comm (idxs l) (i :: idxs r ++ ctx_idxs c)). cbn [app].
    rewrite <- Permutation_middle. apply perm_skip.
    rewrite <- !app_assoc. apply Permutation_app_head. apply Permutation_app_comm.
Qed.

Lemma decomp_rep ns t0 c u :
  decomp t0 c u -> rep ns t0 -> rep ns u /\ rep_ctx ns c (idx u) (idx t0).
Proof.
  induction 1 as [|c l i k v h r _ IH|c l i k v h r _ IH]; intros Hrep.
  - split; [assumption|reflexivity].
  - destruct (IH Hrep) as [[Hh [Hl Hr]] Hc]. cbn [idx] in Hc.
    split; [assumption|]. cbn [rep_ctx]. split; [exists h; assumption|]. split; assumption.
  - destruct (IH Hrep) as [[Hh [Hl Hr]] Hc]. cbn [idx] in Hc.
    split; [assumption|]. cbn [rep_ctx]. split; [exists h; assumption|]. split; assumption.
Qed.

Lemma decomp_plug t0 c u : decomp t0 c u -> erase (plug c u) = erase t0.
Proof.
  induction 1 as [|c l i k v h r _ IH|c l i k v h r _ IH]; cbn [plug fill]; [reflexivity| |].
  - rewrite <- IH. apply erase_plug. reflexivity.
  - rewrite <- IH. apply erase_plug. reflexivity.
Qed.

Lemma t_locate_decomp t0 t : forall key c c' t',
  decomp t0 c t -> t_locate t key c = (c', t') -> decomp t0 c' t'.
Proof.
  induction t as [|l IHl i k v h r IHr]; intros key c c' t' Hd; cbn [t_locate].
  - intros [= <- <-]. assumption.
  - destruct (key <? k)%Z; [|destruct (k <? key)%Z].
    + apply IHl. eapply dc_left; eassumption.
    + apply IHr. eapply dc_right; eassumption.
    + intros [= <- <-]. assumption.
Qed.

Lemma t_descend_decomp t0 t : forall key c cp tp d,
  decomp t0 c t -> t_descend t key c = Some (cp, tp, d) -> decomp t0 cp tp.
Proof.
  induction t as [|l IHl i k v h r IHr]; intros key c cp tp d Hd; cbn [t_descend]; [discriminate|].
  destruct (key <? k)%Z; [|destruct (k <? key)%Z]; [| |discriminate].
  - destruct l as [|ll li lk lv lh lr] eqn:El.
    + intros [= <- <- <-]. assumption.
    + rewrite <- El in *. apply IHl. eapply dc_left; eassumption.
  - destruct r as [|rl ri rk rv rh rr] eqn:Er.
    + intros [= <- <- <-]. assumption.
    + rewrite <- Er in *. apply IHr. eapply dc_right; eassumption.
Qed.

(* the children of a tree *)
Definition tlc (t : itree) : itree := match t with E => E | T l _ _ _ _ _ => l end.
Definition trc (t : itree) : itree := match t with E => E | T _ _ _ _ _ r => r end.

Lemma hmax_tlc t : hmax (tlc t) <= hmax t.
Proof. destruct t; cbn [tlc hmax]; lia. Qed.
Lemma hmax_trc t : hmax (trc t) <= hmax t.
Proof. destruct t; cbn [trc hmax]; lia. Qed.

Lemma hmax_hang_l tp d new key value : hmax (tlc (hang tp d new key value)) <= hmax tp.
Proof. destruct tp as [|l i k v h r]; destruct d; cbn [hang tlc hmax]; lia. Qed.
Lemma hmax_hang_r tp d new key value : hmax (trc (hang tp d new key value)) <= hmax tp.
Proof. destruct tp as [|l i k v h r]; destruct d; cbn [hang trc hmax]; lia. Qed.

(* the live list of the allocator invariant is a set *)
Lemma alloc_inv_perm bits s live live' fr term :
  Permutation live live' -> alloc_inv bits s live fr term -> alloc_inv bits s live' fr term.
Proof.
  intros Hp [Hnd Hrg Hcnt Hsize Hch Htm Hfr Hz Hl1 Hl2 Hcl Hcw Hcw1].
  assert (Hp' : Permutation (live ++ fr) (live' ++ fr)) by (apply Permutation_app_tail; assumption).
  constructor; auto.
  - eapply Permutation_NoDup; eassumption.
  - intros x Hx. apply Hrg. eapply Permutation_in; [symmetry; exact Hp'|exact Hx].
  - rewrite <- Hcnt. f_equal. symmetry. apply (Permutation_length Hp').
  - rewrite Hsize. f_equal. apply (Permutation_length Hp).
Qed.

(* ------------------------------------------------------------------ *)
Section W.
Variable bits : N.

Definition okbits : Prop := bits = 8 \/ bits = 32.

(* the height budget demanded by [rebalance_spec] *)
Definition budget (c : ctx) (l r : itree) : Prop :=
  N.max (N.max (hmax l) (hmax r)) (cmax c) + 2 * N.of_nat (length c) + 3 < 2 ^ (bits - 1).

Definition lvbound : N := if bits =? 8 then 11 else 45.

Lemma lvbound_budget : okbits -> 3 * lvbound + 3 < 2 ^ (bits - 1).
Proof.
  unfold lvbound. intros [->| ->].
  - vm_compute. reflexivity.
  - vm_compute. reflexivity.
Qed.

Lemma lvbound_small : okbits -> lvbound + 2 < 2 ^ bits.
Proof.
  unfold lvbound. intros [->| ->].
  - vm_compute. reflexivity.
  - vm_compute. reflexivity.
Qed.

Lemma inv_nodup s t fr term : Inv bits s t fr term -> NoDup (idxs t).
Proof.
  intros H. pose proof (ai_nodup _ _ _ _ _ (inv_alloc _ _ _ _ _ H)) as Hnd.
  apply nodup_app in Hnd. tauto.
Qed.

Lemma inv_size s t fr term : Inv bits s t fr term -> size s = N.of_nat (length (inorder t)).
Proof.
  intros H. rewrite (ai_size _ _ _ _ _ (inv_alloc _ _ _ _ _ H)), length_idxs_inorder. reflexivity.
Qed.

Lemma inv_tsize s t fr term : Inv bits s t fr term -> tsize t < 2 ^ bits.
Proof.
  intros H. pose proof (inv_alloc _ _ _ _ _ H) as Ha.
  pose proof (ai_size _ _ _ _ _ Ha). pose proof (alloc_size_le_cap _ _ _ _ _ Ha).
  pose proof (ai_capw _ _ _ _ _ Ha). rewrite tsize_idxs. lia.
Qed.

Lemma inv_levels s t fr term : Inv bits s t fr term -> okbits -> levels t <= lvbound.
Proof.
  intros H Hb. pose proof (inv_tsize _ _ _ _ H) as Hs. pose proof (inv_avl _ _ _ _ _ H) as Ha.
  unfold lvbound. destruct Hb as [->| ->].
  - change (8 =? 8) with true. cbv iota. apply avl_levels_u8_tight; [assumption|].
    change (2 ^ 8) with 256 in Hs. assumption.
  - change (32 =? 8) with false. cbv iota. apply avl_levels_u32_tight; assumption.
Qed.

Lemma budget_of_levels t c l r :
  okbits -> levels t <= lvbound ->
  hmax l <= levels t -> hmax r <= levels t -> cmax c <= levels t ->
  N.of_nat (length c) <= levels t -> budget c l r.
Proof.
  intros Hb Hlv Hl Hr Hc Hn. unfold budget. pose proof (lvbound_budget Hb). lia.
Qed.

(* 1. the height budget, for every decomposition of the tree of the
   invariant, and after hanging a new leaf below the bottom node *)
Theorem inv_budget s t fr term c u :
  Inv bits s t fr term -> okbits -> decomp t c u ->
  budget c (tlc u) (trc u) /\
  (forall d new key value,
     budget c (tlc (hang u d new key value)) (trc (hang u d new key value))).
Proof.
  intros H Hb Hd. pose proof (inv_levels _ _ _ _ H Hb) as Hlv.
  pose proof (hok_hmax t (inv_hok _ _ _ _ _ H)) as Hh.
  destruct (decomp_bounds _ _ _ Hd) as [Hc [Hu Hlen]].
  assert (Hn : N.of_nat (length c) <= levels t) by (rewrite <- depth_levels; lia).
  split.
  - apply (budget_of_levels t); auto.
    + pose proof (hmax_tlc u). lia.
    + pose proof (hmax_trc u). lia.
    + lia.
  - intros d new key value. apply (budget_of_levels t); auto.
    + pose proof (hmax_hang_l u d new key value). lia.
    + pose proof (hmax_hang_r u d new key value). lia.
    + lia.
Qed.

End W.

(* ------------------------------------------------------------------ *)
(* 2. insert                                                           *)
Section Insert.
Variable bits : N.

Lemma hang_shape lp p kp vp hp rp d new key value :
  hang (T lp p kp vp hp rp) d new key value =
  T (tlc (hang (T lp p kp vp hp rp) d new key value)) p kp vp hp
    (trc (hang (T lp p kp vp hp rp) d new key value)).
Proof. destruct d; reflexivity. Qed.

(* after [add] has filled the new record, [update_child p d new] makes the
   array represent (up to the height of p) the bottom node with the new leaf
   hung below it *)
Lemma hang_rep ns lp p kp vp hp rp d new key value :
  rep ns (T lp p kp vp hp rp) -> match d with L => lp = E | R => rp = E end ->
  getn ns new = Ok (mkN 0 0 0 key value) ->
  ~ In new (idxs (T lp p kp vp hp rp)) -> NoDup (idxs (T lp p kp vp hp rp)) ->
  hmax (T lp p kp vp hp rp) + 2 < 2 ^ bits ->
  exists ns', update_child bits ns p d new = Ok ns' /\
    rep_top ns' (hang (T lp p kp vp hp rp) d new key value) /\
    same_outside ns ns' [p] /\ length ns' = length ns /\
    Permutation (idxs (hang (T lp p kp vp hp rp) d new key value))
                (new :: idxs (T lp p kp vp hp rp)).
Proof.
  intros [Hh [Hl Hr]] Hbot Hg Hnew Hnd Hbud.
  cbn [idxs] in Hnew, Hnd. apply nodup_split in Hnd as (Hpl & Hpr & _).
  assert (Hpn : p <> new).
  { intros ->. apply Hnew. apply in_or_app. right. left. reflexivity. }
  assert (Hleaf : rep ns (T E new key value 0 E)).
  { cbn [rep idx]. split; [|auto]. exists (mkN 0 0 0 key value). cbn [nl nr nh nk nv]. repeat split; assumption. }
  cbn [hmax] in Hbud.
  destruct d; subst.
  - destruct (update_child_L_spec bits ns p (idx E) (idx rp) hp kp vp (T E new key value 0 E) rp
                Hh eq_refl Hr Hleaf) as (ns' & Hu & Hrep' & Hso & Hlen).
    + cbn [idxs app In]. intros [?|[]]. congruence.
    + exact Hpr.
    + cbn [newh sth]. pose proof (sth_le_hmax rp). lia.
    + cbn [idx] in Hu. exists ns'. split; [exact Hu|]. split; [exact (rep_rep_top _ _ Hrep')|].
      split; [exact Hso|]. split; [exact Hlen|]. cbn [hang idxs app]. reflexivity.
  - destruct (update_child_R_spec bits ns p (idx lp) (idx E) hp kp vp lp (T E new key value 0 E)
                Hh eq_refl Hl Hleaf) as (ns' & Hu & Hrep' & Hso & Hlen).
    + cbn [idxs app In]. intros [?|[]]. congruence.
    + exact Hpl.
    + pose proof (sth_le_hmax lp). destruct lp; cbn [newh sth] in *; lia.
    + cbn [idx] in Hu. exists ns'. split; [exact Hu|]. split; [exact (rep_rep_top _ _ Hrep')|].
      split; [exact Hso|]. split; [exact Hlen|]. cbn [hang idxs app].
      change (idxs lp ++ p :: [new]) with (idxs lp ++ [p] ++ [new]). rewrite app_assoc.
      symmetry. apply Permutation_cons_append.
Qed.

Lemma inv_not_full_lt s t fr term : Inv bits s t fr term -> is_full s = false -> size s < cap s.
Proof. intros _. unfold is_full. lia. Qed.

Lemma insert_empty_spec s fr term key value :
  Inv bits s E fr term -> is_full s = false ->
  exists s' new fr' term',
    insert bits s key value = Ok (s', Some new, []) /\
    Inv bits s' (T E new key value 0 E) fr' term' /\
    cap s' = cap s /\ length (nodes s') = length (nodes s) /\
    (fr = new :: fr' \/ (fr = [] /\ new = lseq bits s)).
Proof.
  intros H Hfull. pose proof (inv_root _ _ _ _ _ H) as Hroot. cbn [idx] in Hroot.
  pose proof (inv_alloc _ _ _ _ _ H) as Ha. cbn [idxs] in Ha.
  destruct (add_spec bits s [] fr term key value Ha (inv_not_full_lt _ _ _ _ H Hfull))
    as (s1 & new & fr' & term' & Hadd & _ & Hgnew & _ & Hlen1 & _ & Hcap1 & _ & Ha1 & Hcase).
  exists (with_root s1 new), new, fr', term'.
  split; [|split; [|split; [|split]]].
  - unfold insert. rewrite Hroot, N.eqb_refl, Hfull, Hadd. reflexivity.
  - constructor; cbn [with_root nodes root idx idxs app].
    + cbn [rep idx]. split; [|auto]. exists (mkN 0 0 0 key value). cbn [nl nr nh nk nv]. repeat split; assumption.
    + reflexivity.
    + cbn [hok levels]. repeat split; lia.
    + cbn [avl levels]. repeat split; lia.
    + cbn [bst all_keys]. auto.
    + apply alloc_with_root. exact Ha1.
  - exact Hcap1.
  - exact Hlen1.
  - destruct Hcase as [[Hf _]|[Hf [_ [Hn _]]]]; [left; exact Hf|right; split; assumption].
Qed.

Lemma insert_nonempty_spec s t fr term key value :
  Inv bits s t fr term -> okbits bits -> t <> E -> t_find t key = None -> is_full s = false ->
  exists s' new fr' term',
    insert bits s key value = Ok (s', Some new, t_log t key) /\
    Inv bits s' (t_insert t new key value) fr' term' /\
    ~ In new (idxs t) /\
    cap s' = cap s /\ length (nodes s') = length (nodes s) /\
    (fr = new :: fr' \/ (fr = [] /\ new = lseq bits s)).
Proof.
  intros H Hb Hne Hfind Hfull.
  pose proof (inv_rep _ _ _ _ _ H) as Hrep. pose proof (inv_root _ _ _ _ _ H) as Hroot.
  pose proof (inv_hok _ _ _ _ _ H) as Hhok. pose proof (inv_avl _ _ _ _ _ H) as Havl.
  pose proof (inv_bst _ _ _ _ _ H) as Hbst. pose proof (inv_alloc _ _ _ _ _ H) as Ha.
  pose proof (inv_nodup _ _ _ _ _ H) as Hnd.
  pose proof (fuel_enough s t Hrep Hnd) as Hfuel.
  destruct (insert_loop_absent bits s key value t (fuel_of s) [] [] Hrep Hne Hfuel Hfind Hfull)
    as (cp & lp & p & kp & vp & hp & rp & d & Hdesc & _ & Hbot & Hloop).
  cbn [path_of app] in Hloop.
  assert (Hdec : decomp t cp (T lp p kp vp hp rp))
    by (eapply t_descend_decomp; [apply dc_here|exact Hdesc]).
  destruct (decomp_rep (nodes s) _ _ _ Hdec Hrep) as [Hreptp Hctx]. cbn [idx] in Hctx.
  pose proof (decomp_perm _ _ _ Hdec) as Hperm.
  destruct (decomp_bounds _ _ _ Hdec) as (_ & Htpmax & _).
  pose proof (hok_hmax t Hhok) as Hhm. pose proof (inv_levels _ _ _ _ _ H Hb) as Hlv.
  pose proof (lvbound_small bits Hb) as Hsmall.
  destruct (inv_budget bits s t fr term cp _ H Hb Hdec) as [_ Hbud].
  destruct (add_spec bits s (idxs t) fr term key value Ha (inv_not_full_lt _ _ _ _ H Hfull))
    as (s1 & new & fr' & term' & Hadd & Hnew & Hgnew & Hso1 & Hlen1 & Hroot1 & Hcap1 & _ & Ha1 & Hcase).
  (* the slots of the decomposition *)
  assert (Hnd2 : NoDup (idxs (T lp p kp vp hp rp) ++ ctx_idxs cp))
    by (eapply Permutation_NoDup; [exact Hperm|exact Hnd]).
  destruct (nodup_app _ _ Hnd2) as (Hndtp & _ & Hdisj).
  assert (Hpin : In p (idxs (T lp p kp vp hp rp)))
    by (cbn [idxs]; apply in_or_app; right; left; reflexivity).
  assert (Hnew2 : ~ In new (idxs (T lp p kp vp hp rp) ++ ctx_idxs cp)).
  { intros Hin. apply Hnew. eapply Permutation_in; [symmetry; exact Hperm|exact Hin]. }
  assert (Hnewtp : ~ In new (idxs (T lp p kp vp hp rp)))
    by (intros Hin; apply Hnew2; apply in_or_app; left; exact Hin).
  (* the old tree survives [add] *)
  assert (Hreptp1 : rep (nodes s1) (T lp p kp vp hp rp)).
  { apply (rep_frame (nodes s) (nodes s1) _ [new] Hso1); [|exact Hreptp].
    intros j Hj [<-|[]]. contradiction. }
  assert (Hctx1 : rep_ctx (nodes s1) cp p (idx t)).
  { apply (rep_ctx_frame (nodes s) (nodes s1) [new] _ _ _ Hso1); [|exact Hctx].
    intros j Hj [<-|[]]. apply Hnew2. apply in_or_app. right. exact Hj. }
  (* hang the leaf *)
  destruct (hang_rep (nodes s1) lp p kp vp hp rp d new key value Hreptp1) as
      (ns' & Hupd & Hreptop & Hso2 & Hlen2 & Hpermh); auto.
  { destruct d; tauto. }
  { lia. }
  set (hg := hang (T lp p kp vp hp rp) d new key value) in *.
  assert (Hshape : hg = T (tlc hg) p kp vp hp (trc hg)) by apply hang_shape.
  assert (Hctx2 : rep_ctx ns' cp p (idx t)).
  { apply (rep_ctx_frame (nodes s1) ns' [p] _ _ _ Hso2); [|exact Hctx1].
    intros j Hj [<-|[]]. exact (Hdisj _ Hpin Hj). }
  assert (Hndh : NoDup (idxs hg ++ ctx_idxs cp)).
  { eapply Permutation_NoDup; [symmetry; apply Permutation_app_tail; exact Hpermh|].
    cbn [app]. constructor; assumption. }
  specialize (Hbud d new key value). fold hg in Hbud.
  rewrite Hshape in Hreptop, Hndh.
  destruct (rebalance_spec bits cp (with_nodes s1 ns') (tlc hg) p kp vp hp (trc hg))
    as (s2 & Hreb & Hrep2 & Hroot2 & Hhdr & Hso3 & Hlen3).
  { exact Hreptop. }
  { cbn [with_nodes nodes root]. rewrite Hroot1, Hroot. exact Hctx2. }
  { exact Hndh. }
  { exact Hbud. }
  rewrite <- Hshape in Hrep2, Hroot2, Hso3.
  pose proof (t_insert_descend new value t key [] cp _ d Hdesc) as Hins.
  cbn [plug_rebal] in Hins. fold hg in Hins. rewrite <- Hins in Hrep2, Hroot2.
  cbn [with_nodes nodes] in Hso3, Hlen3.
  assert (Hnotin : ~ In key (keys t)) by (apply t_find_none_iff; assumption).
  pose proof (TreeOps.t_insert_correct t new key value Hhok Havl Hbst Hnotin) as Hpost.
  exists s2, new, fr', term'.
  split; [|split; [|split; [|split; [|split]]]].
  - unfold insert. rewrite Hroot.
    destruct (N.eqb_spec (idx t) 0) as [Hz|_].
    { exfalso. apply Hne. eapply rep_idx0; eassumption. }
    rewrite Hloop, Hadd. cbn [bind]. rewrite Hupd. cbn [bind]. rewrite Hreb. reflexivity.
  - constructor.
    + exact Hrep2.
    + exact Hroot2.
    + exact (ip_hok _ _ _ _ _ Hpost).
    + exact (ip_avl _ _ _ _ _ Hpost).
    + exact (ip_bst _ _ _ _ _ Hpost).
    + destruct Hhdr as (Hsz & Hcp & Hfl & Hsq). cbn [with_nodes size cap flh seq] in *.
      apply (alloc_frame_gen bits s1 s2 _ fr' term'); auto; [| lia |].
      * eapply alloc_inv_perm; [symmetry; exact (ip_idxs _ _ _ _ _ Hpost)|exact Ha1].
      * intros j Hj.
        assert (Hjl : ~ In j (new :: idxs t)).
        { intros Hin. destruct Hj as [Hj|Hj].
          - pose proof (ai_nodup _ _ _ _ _ Ha1) as Hnd1. apply nodup_app in Hnd1.
            destruct Hnd1 as (_ & _ & Hd1). exact (Hd1 j Hin Hj).
          - destruct (ai_range _ _ _ _ _ Ha1 j) as [_ Hlt]; [apply in_or_app; left; exact Hin|]. lia. }
        rewrite Hso3, Hso2; [reflexivity| |].
        -- intros [<-|[]]. apply Hjl. right.
           eapply Permutation_in; [symmetry; exact Hperm|]. apply in_or_app. left. exact Hpin.
        -- intros Hin. apply Hjl.
           assert (Hin2 : In j (new :: idxs (T lp p kp vp hp rp) ++ ctx_idxs cp)).
           { change (new :: idxs (T lp p kp vp hp rp) ++ ctx_idxs cp)
               with ((new :: idxs (T lp p kp vp hp rp)) ++ ctx_idxs cp).
             eapply Permutation_in; [apply Permutation_app_tail; exact Hpermh|exact Hin]. }
           destruct Hin2 as [<-|Hin2]; [left; reflexivity|right].
           eapply Permutation_in; [symmetry; exact Hperm|exact Hin2].
  - exact Hnew.
  - destruct Hhdr as (_ & Hcp & _). cbn [with_nodes cap] in Hcp. lia.
  - lia.
  - destruct Hcase as [[Hf _]|[Hf [_ [Hn _]]]]; [left; exact Hf|right; split; assumption].
Qed.

End Insert.

Section InsertSpec.
Variable bits : N.

Lemma inv_root_nz s t fr term : Inv bits s t fr term -> t <> E -> (root s =? 0) = false.
Proof.
  intros H Hne. rewrite (inv_root _ _ _ _ _ H).
  destruct (N.eqb_spec (idx t) 0) as [Hz|_]; [|reflexivity].
  exfalso. apply Hne. eapply rep_idx0; [exact (inv_rep _ _ _ _ _ H)|exact Hz].
Qed.

Lemma insert_refused_spec s t fr term key value :
  Inv bits s t fr term -> t_find t key <> None \/ is_full s = true ->
  insert bits s key value = Ok (s, None, t_log t key).
Proof.
  intros H Hcase.
  pose proof (inv_rep _ _ _ _ _ H) as Hrep. pose proof (inv_root _ _ _ _ _ H) as Hroot.
  pose proof (inv_nodup _ _ _ _ _ H) as Hnd.
  pose proof (fuel_enough s t Hrep Hnd) as Hfuel.
  destruct t as [|l i k v h r] eqn:Et.
  - cbn [idx] in Hroot. destruct Hcase as [Hp|Hfull]; [cbn [t_find] in Hp; congruence|].
    unfold insert. rewrite Hroot, N.eqb_refl, Hfull. reflexivity.
  - rewrite <- Et in *. assert (Hne : t <> E) by (rewrite Et; discriminate).
    assert (Hloop : exists path,
      insert_loop bits (fuel_of s) s key value (idx t) (path_of [] (idx t)) [] =
      Ok (s, None, path, [] ++ t_log t key)).
    { destruct (t_find t key) as [x|] eqn:Ef.
      - apply insert_loop_present; auto. congruence.
      - destruct Hcase as [Hp|Hfull]; [congruence|]. apply insert_loop_full; auto. }
    destruct Hloop as [path Hloop]. cbn [path_of app] in Hloop.
    unfold insert. rewrite (inv_root_nz _ _ _ _ H Hne). rewrite Hroot, Hloop. reflexivity.
Qed.

(* 2. insert under the invariant *)
Theorem insert_spec s t fr term key value :
  Inv bits s t fr term -> okbits bits ->
  (t_find t key <> None -> insert bits s key value = Ok (s, None, t_log t key)) /\
  (t_find t key = None -> is_full s = true ->
   insert bits s key value = Ok (s, None, t_log t key)) /\
  (t_find t key = None -> is_full s = false ->
   exists s' new fr' term',
     insert bits s key value = Ok (s', Some new, t_log t key) /\
     Inv bits s' (t_insert t new key value) fr' term' /\
     ~ In new (idxs t) /\
     cap s' = cap s /\ length (nodes s') = length (nodes s) /\
     (fr = new :: fr' \/ (fr = [] /\ new = lseq bits s))).
Proof.
  intros H Hb. split; [|split].
  - intros Hp. apply (insert_refused_spec s t fr term); auto.
  - intros _ Hf. apply (insert_refused_spec s t fr term); auto.
  - intros Hfind Hfull. destruct t as [|l i k v h r] eqn:Et.
    + destruct (insert_empty_spec bits s fr term key value H Hfull)
        as (s' & new & fr' & term' & Hi & HI & Hc & Hl & Hcase).
      exists s', new, fr', term'. cbn [t_log t_insert idxs In]. tauto.
    + rewrite <- Et in *. apply (insert_nonempty_spec bits s t fr term key value); auto. rewrite Et. discriminate.
Qed.

End InsertSpec.

Print Assumptions inv_budget.
Print Assumptions insert_spec.
