(* Link C <-> T, part 2: rebalance_step / rebalance_list / rebalance of
   layer C simulate rebal / plug_rebal of layer T. *)
From Coq Require Import List NArith ZArith Bool Lia ZifyBool Permutation.
From Stevia Require Import Base.Res Avl.Impl Avl.Tree Avl.Rep Avl.LinkPrim.
Import ListNotations.
Open Scope N_scope.
Arguments N.add : simpl never.
Arguments N.sub : simpl never.
Arguments N.mul : simpl never.
Arguments N.max : simpl never.
Arguments N.pow : simpl never.
Arguments N.eqb : simpl never.
Arguments N.ltb : simpl never.
Arguments N.leb : simpl never.
Arguments Z.add : simpl never.
Arguments Z.sub : simpl never.
Arguments Z.ltb : simpl never.
Arguments Z.leb : simpl never.
Arguments Z.eqb : simpl never.
Arguments Z.of_N : simpl never.
Arguments N.of_nat : simpl never.

(* ---------------------------------------------------------------- *)
(* tree-level facts about rebal (TreeInv.v is not used)              *)

Lemma rotr_idxs t : idxs (rotr t) = idxs t.
Proof.
  destruct t as [|[|a j kj vj hj b] i k v h r]; try reflexivity.
  cbn [rotr idxs mk]. rewrite <- app_assoc. reflexivity.
Qed.
Lemma rotl_idxs t : idxs (rotl t) = idxs t.
Proof.
  destruct t as [|l i k v h [|b j kj vj hj c]]; try reflexivity.
  cbn [rotl idxs mk]. rewrite <- app_assoc. reflexivity.
Qed.

(* the in-order list of slots is not merely permuted: it is unchanged *)
Lemma rebal_idxs t : idxs (rebal t) = idxs t.
Proof.
  destruct t as [|l i k v h r]; [reflexivity|]. cbn [rebal].
  destruct (1 <? bfac l r)%Z.
  - destruct l as [|ll j kj vj hj lr]; [reflexivity|].
    rewrite rotr_idxs. cbn [idxs]. destruct (bfac ll lr <? 0)%Z; [|reflexivity].
    rewrite rotl_idxs. reflexivity.
  - destruct (bfac l r <? -1)%Z; [|reflexivity].
    destruct r as [|rl j kj vj hj rr]; [reflexivity|].
    rewrite rotl_idxs. cbn [idxs]. destruct (0 <? bfac rl rr)%Z; [|reflexivity].
    rewrite rotr_idxs. reflexivity.
Qed.
Lemma rebal_idxs_perm t : Permutation (idxs t) (idxs (rebal t)).
Proof. rewrite rebal_idxs. apply Permutation_refl. Qed.

Lemma hp_nonneg t : (0 <= hp t)%Z.
Proof. destruct t; cbn [hp]; lia. Qed.

Lemma bfac_E_l r : (bfac E r <= 0)%Z.
Proof. unfold bfac. cbn [hp]. pose proof (hp_nonneg r). lia. Qed.
Lemma bfac_E_r l : (0 <= bfac l E)%Z.
Proof. unfold bfac. cbn [hp]. pose proof (hp_nonneg l). lia. Qed.

Lemma rebal_is_mk l i k v h r :
  exists l' i' k' v' r', rebal (T l i k v h r) = mk l' i' k' v' r'.
Proof.
  cbn [rebal].
  destruct (Z.ltb_spec 1 (bfac l r)) as [Hbf|Hbf].
  - destruct l as [|ll j kj vj hj lr]; [pose proof (bfac_E_l r); lia|].
    destruct (Z.ltb_spec (bfac ll lr) 0) as [Hl|Hl].
    + destruct lr as [|b j' kj' vj' hj' c]; [pose proof (bfac_E_r ll); lia|].
      cbn [rotl rotr mk]. unfold mk. eauto 10.
    + cbn [rotr]. eauto 10.
  - destruct (Z.ltb_spec (bfac l r) (-1)) as [Hbf'|Hbf'].
    + destruct r as [|rl j kj vj hj rr]; [pose proof (bfac_E_r l); lia|].
      destruct (Z.ltb_spec 0 (bfac rl rr)) as [Hr|Hr].
      * destruct rl as [|b j' kj' vj' hj' c]; [pose proof (bfac_E_l rr); lia|].
        cbn [rotl rotr mk]. unfold mk. eauto 10.
      * cbn [rotl]. eauto 10.
    + eauto 10.
Qed.

Lemma hmax_rebal l i k v h r :
  hmax (rebal (T l i k v h r)) <= N.max (hmax l) (hmax r) + 2.
Proof.
  cbn [rebal].
  destruct (Z.ltb_spec 1 (bfac l r)) as [Hbf|Hbf].
  - destruct l as [|ll j kj vj hj lr]; [pose proof (bfac_E_l r); lia|].
    destruct (Z.ltb_spec (bfac ll lr) 0) as [Hl|Hl].
    + destruct lr as [|b j' kj' vj' hj' c]; [pose proof (bfac_E_r ll); lia|].
      cbn [rotl rotr mk].
      fold (mk ll j kj vj b). fold (mk c i k v r).
      fold (mk (mk ll j kj vj b) j' kj' vj' (mk c i k v r)).
      pose proof (hmax_mk ll j kj vj b). pose proof (hmax_mk c i k v r).
      pose proof (hmax_mk (mk ll j kj vj b) j' kj' vj' (mk c i k v r)).
      cbn [hmax]. lia.
    + cbn [rotr]. pose proof (hmax_mk lr i k v r).
      pose proof (hmax_mk ll j kj vj (mk lr i k v r)). cbn [hmax]. lia.
  - destruct (Z.ltb_spec (bfac l r) (-1)) as [Hbf'|Hbf'].
    + destruct r as [|rl j kj vj hj rr]; [pose proof (bfac_E_r l); lia|].
      destruct (Z.ltb_spec 0 (bfac rl rr)) as [Hr|Hr].
      * destruct rl as [|b j' kj' vj' hj' c]; [pose proof (bfac_E_l rr); lia|].
        cbn [rotl rotr mk].
        fold (mk l i k v b). fold (mk c j kj vj rr).
        fold (mk (mk l i k v b) j' kj' vj' (mk c j kj vj rr)).
        pose proof (hmax_mk l i k v b). pose proof (hmax_mk c j kj vj rr).
        pose proof (hmax_mk (mk l i k v b) j' kj' vj' (mk c j kj vj rr)).
        cbn [hmax]. lia.
      * cbn [rotl]. pose proof (hmax_mk l i k v rl).
        pose proof (hmax_mk (mk l i k v rl) j kj vj rr). cbn [hmax]. lia.
    + pose proof (hmax_mk l i k v r). lia.
Qed.

Section Width.
Variable bits : N.
Local Notation W := (2 ^ bits).
Local Notation B := (2 ^ (bits - 1)).

(* the rotation part of [rebalance_step]: returns the new array and, if a
   rotation happened, the slot of the new subtree root *)
Definition rebal_core (ns : list node) (child : N) : res (list node * option N) :=
  cn <- getn ns child ;;
  let left := nl cn in let right := nr cn in
  bf <- balance_factor bits ns left right ;;
  (if (1 <? bf)%Z then
     ln <- getn ns left ;;
     lbf <- balance_factor bits ns (nl ln) (nr ln) ;;
     ns' <- (if (lbf <? 0)%Z then
               '(nsa, idx) <- left_rotate bits ns left ;;
               update_child bits nsa child L idx
             else Ok ns) ;;
     '(nsb, idx) <- right_rotate bits ns' child ;;
     Ok (nsb, Some idx)
   else if (bf <? -1)%Z then
     rn <- getn ns right ;;
     rbf <- balance_factor bits ns (nl rn) (nr rn) ;;
     ns' <- (if (0 <? rbf)%Z then
               '(nsa, idx) <- right_rotate bits ns right ;;
               update_child bits nsa child R idx
             else Ok ns) ;;
     '(nsb, idx) <- left_rotate bits ns' child ;;
     Ok (nsb, Some idx)
   else
     ns' <- update_height bits ns child ;; Ok (ns', None)).

Lemma rebalance_step_eq s parent branch child :
  rebalance_step bits s (parent, branch, child) =
  '(ns1, index) <- rebal_core (nodes s) child ;;
  match index with
  | None => Ok (with_nodes s ns1)
  | Some index =>
    match parent with
    | Some p =>
      d <- expect_dir branch ;;
      ns2 <- update_child bits ns1 p d index ;;
      Ok (with_nodes s ns2)
    | None =>
      ns2 <- update_height bits ns1 index ;;
      Ok (with_root (with_nodes s ns2) index)
    end
  end.
Proof.
  unfold rebalance_step, rebal_core.
  destruct (getn (nodes s) child) as [cn| |]; cbn [bind]; try reflexivity.
  destruct (balance_factor bits (nodes s) (nl cn) (nr cn)) as [bf| |]; cbn [bind]; reflexivity.
Qed.

Ltac in_sub := let x := fresh "x" in let Hx := fresh "Hx" in
  intros x Hx; cbn [idxs mk app] in *;
  repeat (rewrite ?in_app_iff in *; cbn [In] in * ); intuition.

Lemma rebal_core_spec ns l i k v h r :
  rep_top ns (T l i k v h r) -> NoDup (idxs (T l i k v h r)) ->
  N.max (hmax l) (hmax r) + 3 < B ->
  exists ns' oi, rebal_core ns i = Ok (ns', oi) /\
    rep ns' (rebal (T l i k v h r)) /\
    same_outside ns ns' (idxs (T l i k v h r)) /\ length ns' = length ns /\
    match oi with
    | None => idx (rebal (T l i k v h r)) = i
    | Some x => x = idx (rebal (T l i k v h r))
    end.
Proof.
  intros Rt Hnd Hb. pose proof B_le_W bits as HBW.
  remember (N.max (hmax l) (hmax r)) as X eqn:HX.
  pose proof Rt as [[h0 Hi] [Rl Rr]]. pose proof Hi as [n [Hn [Hnl [Hnr _]]]].
  pose proof (sth_le_hmax l) as Hsl. pose proof (sth_le_hmax r) as Hsr.
  unfold rebal_core. rewrite Hn. cbn [bind]. rewrite Hnl, Hnr.
  assert (Hsl' : sth l + 1 < B /\ sth r + 1 < B) by (clear - Hsl Hsr HX Hb; lia).
  rewrite (balance_factor_spec bits ns l r Rl Rr) by tauto. cbn [bind rebal].
  destruct (Z.ltb_spec 1 (bfac l r)) as [Hbf|Hbf].
  - (* left-heavy *)
    destruct l as [|ll j kj vj hj lr]; [pose proof (bfac_E_l r); lia|].
    cbn [idx]. pose proof Rl as [Hj [Rll Rlr]]. pose proof Hj as [m [Hm [Hml [Hmr _]]]].
    rewrite Hm. cbn [bind]. rewrite Hml, Hmr.
    cbn [hmax] in HX.
    pose proof (sth_le_hmax ll) as Hsll. pose proof (sth_le_hmax lr) as Hslr.
    assert (Hsl'' : sth ll + 1 < B /\ sth lr + 1 < B) by (clear - Hsll Hslr HX Hb; lia).
    rewrite (balance_factor_spec bits ns ll lr Rll Rlr) by tauto. cbn [bind].
    destruct (Z.ltb_spec (bfac ll lr) 0) as [Hlbf|Hlbf].
    + (* double rotation *)
      destruct lr as [|b j' kj' vj' hj' c]; [pose proof (bfac_E_r ll); lia|].
      cbn [hmax] in HX.
      assert (Hc : hmax ll <= X /\ hmax b <= X /\ hmax c <= X /\ hmax r <= X)
        by (clear - HX; lia).
      destruct Hc as [Xll [Xb [Xc Xr]]].
      pose proof (hmax_mk_le X ll j kj vj b Xll Xb) as M1.
      assert (Xc1 : hmax c <= X + 1) by lia.
      pose proof (hmax_mk_le (X + 1) (mk ll j kj vj b) j' kj' vj' c M1 Xc1) as M2.
      pose proof (hmax_mk_le X c i k v r Xc Xr) as M3.
      assert (Xr2 : hmax r <= X + 1 + 1) by lia.
      pose proof (newh_le_X X ll b Xll Xb) as F1.
      pose proof (newh_le_X (X + 1) (mk ll j kj vj b) c M1 Xc1) as F2.
      pose proof (newh_le_X (X + 1 + 1) (mk (mk ll j kj vj b) j' kj' vj' c) r M2 Xr2) as F3.
      pose proof (newh_le_X X c r Xc Xr) as F4.
      pose proof (newh_le_X (X + 1) (mk ll j kj vj b) (mk c i k v r) M1 M3) as F5.
      assert (Hndl : NoDup (idxs (T ll j kj vj hj (T b j' kj' vj' hj' c)))).
      { clear - Hnd. cbn [idxs] in Hnd. apply NoDup_app_iff' in Hnd. tauto. }
      assert (B1 : newh ll b < W) by lia.
      assert (B2 : newh (mk ll j kj vj b) c < W) by lia.
      assert (B3 : newh (mk (mk ll j kj vj b) j' kj' vj' c) r < W) by lia.
      assert (B4 : newh c r < W) by lia.
      assert (B5 : newh (mk ll j kj vj b) (mk c i k v r) < W) by lia.
      clear M1 M2 M3 F1 F2 F3 F4 F5.
      destruct (left_rotate_spec bits ns ll j kj vj hj b j' kj' vj' hj' c)
        as [nsa [Ua [Ra [Sa La]]]]; auto.
      { apply rep_rep_top. exact Rl. }
      cbn [rotl] in Ua, Ra. rewrite idx_mk in Ua. rewrite Ua. cbn [bind].
      assert (Hd : i <> j /\ i <> j' /\ ~ In i (idxs r) /\
                   ~ In i (idxs (mk (mk ll j kj vj b) j' kj' vj' c)) /\
                   ~ In j (idxs r) /\ ~ In j' (idxs r)).
      { clear - Hnd. nd_auto i j j'. }
      destruct Hd as [Hij [Hij' [Hir [Hil' [Hjr Hj'r]]]]].
      destruct (update_child_L_spec bits nsa i j (idx r) h0 k v
                  (mk (mk ll j kj vj b) j' kj' vj' c) r) as [nsc [Uc [Rc [Sc Lc]]]]; auto.
      { eapply holds_frame; eauto. cbn [In]. intuition congruence. }
      { eapply rep_frame'; eauto. }
      rewrite idx_mk in Uc. cbn [rotl]. rewrite Uc. cbn [bind].
      destruct (right_rotate_spec bits nsc (mk ll j kj vj b) j' kj' vj'
                  (newh (mk ll j kj vj b) c) c i k v
                  (newh (mk (mk ll j kj vj b) j' kj' vj' c) r) r)
        as [nsb [Ub [Rb [Sb Lb]]]]; auto.
      { apply rep_rep_top. exact Rc. }
      { clear - Hnd. cbn [idxs mk] in *.
        repeat (rewrite <- ?app_assoc in *; cbn [app] in * ). exact Hnd. }
      cbn [rotr idx] in Ub. rewrite ?idx_mk in Ub. rewrite Ub. cbn [bind].
      exists nsb, (Some j'). split; [reflexivity|]. split; [exact Rb|].
      split; [|split; [congruence|reflexivity]].
      eapply same_outside_weaken;
        [eapply same_outside_trans; [eapply same_outside_trans; [exact Sa|exact Sc]|exact Sb]|].
      clear. in_sub.
    + (* single right rotation *)
      assert (Hc : hmax ll <= X /\ hmax lr <= X /\ hmax r <= X) by (clear - HX; lia).
      destruct Hc as [Xll [Xlr Xr]].
      pose proof (hmax_mk_le X lr i k v r Xlr Xr) as M1.
      assert (Xll1 : hmax ll <= X + 1) by lia.
      pose proof (newh_le_X X lr r Xlr Xr) as F1.
      pose proof (newh_le_X (X + 1) ll (mk lr i k v r) Xll1 M1) as F2.
      assert (B1 : newh lr r < W) by lia.
      assert (B2 : newh ll (mk lr i k v r) < W) by lia.
      destruct (right_rotate_spec bits ns ll j kj vj hj lr i k v h r)
        as [nsb [Ub [Rb [Sb Lb]]]]; auto.
      cbn [rotr idx] in Ub. rewrite ?idx_mk in Ub. cbn [bind]. rewrite Ub. cbn [bind].
      exists nsb, (Some j). split; [reflexivity|]. split; [exact Rb|].
      split; [|split; [congruence|reflexivity]].
      eapply same_outside_weaken; [exact Sb|]. clear. in_sub.
  - destruct (Z.ltb_spec (bfac l r) (-1)) as [Hbf'|Hbf'].
    + (* right-heavy *)
      destruct r as [|rl j kj vj hj rr]; [pose proof (bfac_E_r l); lia|].
      cbn [idx]. pose proof Rr as [Hj [Rrl Rrr]]. pose proof Hj as [m [Hm [Hml [Hmr _]]]].
      rewrite Hm. cbn [bind]. rewrite Hml, Hmr.
      cbn [hmax] in HX.
      pose proof (sth_le_hmax rl) as Hsrl. pose proof (sth_le_hmax rr) as Hsrr.
      assert (Hsr'' : sth rl + 1 < B /\ sth rr + 1 < B) by (clear - Hsrl Hsrr HX Hb; lia).
      rewrite (balance_factor_spec bits ns rl rr Rrl Rrr) by tauto. cbn [bind].
      destruct (Z.ltb_spec 0 (bfac rl rr)) as [Hrbf|Hrbf].
      * (* double rotation *)
        destruct rl as [|b j' kj' vj' hj' c]; [pose proof (bfac_E_l rr); lia|].
        cbn [hmax] in HX.
        assert (Hc : hmax l <= X /\ hmax b <= X /\ hmax c <= X /\ hmax rr <= X)
          by (clear - HX; lia).
        destruct Hc as [Xl [Xb [Xc Xrr]]].
        pose proof (hmax_mk_le X c j kj vj rr Xc Xrr) as M1.
        assert (Xb1 : hmax b <= X + 1) by lia.
        pose proof (hmax_mk_le (X + 1) b j' kj' vj' (mk c j kj vj rr) Xb1 M1) as M2.
        pose proof (hmax_mk_le X l i k v b Xl Xb) as M3.
        assert (Xl2 : hmax l <= X + 1 + 1) by lia.
        pose proof (newh_le_X X c rr Xc Xrr) as F1.
        pose proof (newh_le_X (X + 1) b (mk c j kj vj rr) Xb1 M1) as F2.
        pose proof (newh_le_X (X + 1 + 1) l (mk b j' kj' vj' (mk c j kj vj rr)) Xl2 M2) as F3.
        pose proof (newh_le_X X l b Xl Xb) as F4.
        pose proof (newh_le_X (X + 1) (mk l i k v b) (mk c j kj vj rr) M3 M1) as F5.
        assert (Hndr : NoDup (idxs (T (T b j' kj' vj' hj' c) j kj vj hj rr))).
        { clear - Hnd. cbn [idxs] in Hnd. apply NoDup_app_iff' in Hnd.
          destruct Hnd as [_ [Hnd _]]. apply NoDup_cons_iff in Hnd. tauto. }
        assert (B1 : newh c rr < W) by lia.
        assert (B2 : newh b (mk c j kj vj rr) < W) by lia.
        assert (B3 : newh l (mk b j' kj' vj' (mk c j kj vj rr)) < W) by lia.
        assert (B4 : newh l b < W) by lia.
        assert (B5 : newh (mk l i k v b) (mk c j kj vj rr) < W) by lia.
        clear M1 M2 M3 F1 F2 F3 F4 F5.
        destruct (right_rotate_spec bits ns b j' kj' vj' hj' c j kj vj hj rr)
          as [nsa [Ua [Ra [Sa La]]]]; auto.
        { apply rep_rep_top. exact Rr. }
        cbn [rotr] in Ua, Ra. rewrite idx_mk in Ua. rewrite Ua. cbn [bind].
        assert (Hd : i <> j /\ i <> j' /\ ~ In i (idxs l) /\
                     ~ In i (idxs (mk b j' kj' vj' (mk c j kj vj rr))) /\
                     ~ In j (idxs l) /\ ~ In j' (idxs l)).
        { clear - Hnd. nd_auto i j j'. }
        destruct Hd as [Hij [Hij' [Hil [Hir' [Hjl Hj'l]]]]].
        destruct (update_child_R_spec bits nsa i (idx l) j h0 k v l
                    (mk b j' kj' vj' (mk c j kj vj rr))) as [nsc [Uc [Rc [Sc Lc]]]]; auto.
        { eapply holds_frame; eauto. cbn [In]. intuition congruence. }
        { eapply rep_frame'; eauto. }
        rewrite idx_mk in Uc. cbn [rotr]. rewrite Uc. cbn [bind].
        destruct (left_rotate_spec bits nsc l i k v
                    (newh l (mk b j' kj' vj' (mk c j kj vj rr)))
                    b j' kj' vj' (newh b (mk c j kj vj rr)) (mk c j kj vj rr))
          as [nsb [Ub [Rb [Sb Lb]]]]; auto.
        { apply rep_rep_top. exact Rc. }
        { clear - Hnd. cbn [idxs mk] in *.
          repeat (rewrite <- ?app_assoc in *; cbn [app] in * ). exact Hnd. }
        cbn [rotl idx] in Ub. rewrite ?idx_mk in Ub. rewrite Ub. cbn [bind].
        exists nsb, (Some j'). split; [reflexivity|]. split; [exact Rb|].
        split; [|split; [congruence|reflexivity]].
        eapply same_outside_weaken;
          [eapply same_outside_trans; [eapply same_outside_trans; [exact Sa|exact Sc]|exact Sb]|].
        clear. in_sub.
      * (* single left rotation *)
        assert (Hc : hmax l <= X /\ hmax rl <= X /\ hmax rr <= X) by (clear - HX; lia).
        destruct Hc as [Xl [Xrl Xrr]].
        pose proof (hmax_mk_le X l i k v rl Xl Xrl) as M1.
        assert (Xrr1 : hmax rr <= X + 1) by lia.
        pose proof (newh_le_X X l rl Xl Xrl) as F1.
        pose proof (newh_le_X (X + 1) (mk l i k v rl) rr M1 Xrr1) as F2.
        assert (B1 : newh l rl < W) by lia.
        assert (B2 : newh (mk l i k v rl) rr < W) by lia.
        destruct (left_rotate_spec bits ns l i k v h rl j kj vj hj rr)
          as [nsb [Ub [Rb [Sb Lb]]]]; auto.
        cbn [rotl idx] in Ub. rewrite ?idx_mk in Ub. cbn [bind]. rewrite Ub. cbn [bind].
        exists nsb, (Some j). split; [reflexivity|]. split; [exact Rb|].
        split; [|split; [congruence|reflexivity]].
        eapply same_outside_weaken; [exact Sb|]. clear. in_sub.
    + (* balanced: only the height is recomputed *)
      assert (Hc : hmax l <= X /\ hmax r <= X) by (clear - HX; lia).
      destruct Hc as [Xl Xr].
      pose proof (newh_le_X X l r Xl Xr) as F1.
      assert (Hd : ~ In i (idxs l) /\ ~ In i (idxs r)).
      { clear - Hnd. nd_auto i i i. }
      destruct Hd as [Hil Hir].
      assert (B1 : newh l r < W) by lia.
      destruct (update_height_spec bits ns l i k v h r) as [ns' [U [Rp [S Ln]]]]; auto.
      rewrite U. cbn [bind].
      exists ns', None. split; [reflexivity|]. split; [exact Rp|].
      split; [|split; [exact Ln|reflexivity]].
      eapply same_outside_weaken; [exact S|]. clear. in_sub.
Qed.

(* ---------------------------------------------------------------- *)
(* one step of the loop                                              *)

Definition hdr_eq (s s' : st) : Prop :=
  size s' = size s /\ cap s' = cap s /\ flh s' = flh s /\ seq s' = seq s.

Lemma hdr_eq_refl s : hdr_eq s s.
Proof. unfold hdr_eq. auto. Qed.
Lemma hdr_eq_trans s1 s2 s3 : hdr_eq s1 s2 -> hdr_eq s2 s3 -> hdr_eq s1 s3.
Proof. unfold hdr_eq. intuition congruence. Qed.

Lemma rebalance_step_root s l i k v h r :
  rep_top (nodes s) (T l i k v h r) -> NoDup (idxs (T l i k v h r)) ->
  N.max (hmax l) (hmax r) + 3 < B ->
  exists s', rebalance_step bits s (None, None, i) = Ok s' /\
    rep (nodes s') (rebal (T l i k v h r)) /\
    (root s = i -> root s' = idx (rebal (T l i k v h r))) /\
    hdr_eq s s' /\
    same_outside (nodes s) (nodes s') (idxs (T l i k v h r)) /\
    length (nodes s') = length (nodes s) /\
    (root s' = idx (rebal (T l i k v h r)) \/
     (root s' = root s /\ idx (rebal (T l i k v h r)) = i)).
Proof.
  intros Rt Hnd Hb. pose proof (B_le_W bits) as HBW.
  destruct (rebal_core_spec (nodes s) l i k v h r Rt Hnd Hb) as [ns1 [oi [Hc [R1 [S1 [L1 Ho]]]]]].
  rewrite rebalance_step_eq, Hc. cbn [bind].
  pose proof (hmax_rebal l i k v h r) as Hm.
  pose proof (rebal_idxs (T l i k v h r)) as Hix.
  destruct oi as [x|].
  - destruct (rebal_is_mk l i k v h r) as [l' [i' [k' [v' [r' Heq]]]]].
    rewrite Heq in *. rewrite idx_mk in Ho. subst x.
    assert (Hd : ~ In i' (idxs l') /\ ~ In i' (idxs r')).
    { rewrite <- Hix in Hnd. clear - Hnd. nd_auto i' i' i'. }
    destruct Hd as [Hil Hir].
    pose proof (hmax_mk_lower l' i' k' v' r') as Hlow.
    pose proof (newh_hmax l' r') as Hnew.
    assert (Hw : newh l' r' < W) by (clear - Hnew Hlow Hm Hb HBW; lia).
    destruct (update_height_spec bits ns1 l' i' k' v' (newh l' r') r')
      as [ns2 [U2 [R2 [S2 L2]]]]; auto.
    { apply rep_rep_top. exact R1. }
    rewrite U2. cbn [bind].
    exists (with_root (with_nodes s ns2) i'). cbn [with_root with_nodes nodes root size cap flh seq].
    split; [reflexivity|]. split; [exact R2|]. split; [intros _; rewrite idx_mk; reflexivity|].
    split; [unfold hdr_eq; cbn [with_root with_nodes size cap flh seq]; auto|].
    split; [|split; [congruence|left; rewrite idx_mk; reflexivity]].
    eapply same_outside_weaken; [eapply same_outside_trans; eauto|].
    intros y Hy. apply in_app_or in Hy. destruct Hy as [Hy|Hy]; [exact Hy|].
    rewrite <- Hix. rewrite idxs_mk. cbn [In] in Hy. destruct Hy as [<-|[]].
    apply in_or_app. right. left. reflexivity.
  - exists (with_nodes s ns1). cbn [with_nodes nodes root].
    split; [reflexivity|]. split; [exact R1|]. split; [intros <-; congruence|].
    split; [unfold hdr_eq; cbn [with_nodes size cap flh seq]; auto|].
    split; [exact S1|]. split; [exact L1|]. right. auto.
Qed.

Lemma nodup_ctx_split (a : list N) f c' :
  NoDup (a ++ ctx_idxs (f :: c')) ->
  NoDup a /\ ~ In (fidx f) a /\ ~ In (fidx f) (idxs (fsib f)) /\
  (forall y, In y (idxs (fsib f)) -> ~ In y a) /\
  (forall y, In y (ctx_idxs c') -> ~ In y a /\ y <> fidx f /\ ~ In y (idxs (fsib f))) /\
  NoDup (idxs (fsib f)) /\ NoDup (ctx_idxs c').
Proof.
  cbn [ctx_idxs]. intros H.
  apply NoDup_app_iff' in H. destruct H as [Ha [H Hd]].
  apply NoDup_cons_iff in H. destruct H as [Hp H]. rewrite in_app_iff in Hp.
  apply NoDup_app_iff' in H. destruct H as [Hs [Hc Hd']].
  split; [exact Ha|]. split; [intro Hx; apply (Hd _ Hx); left; reflexivity|].
  split; [tauto|]. split.
  { intros y Hy Hya. apply (Hd y Hya). right. apply in_or_app. auto. }
  split; [|auto].
  intros y Hy. split; [|split].
  - intro Hya. apply (Hd y Hya). right. apply in_or_app. auto.
  - intros ->. tauto.
  - intro Hys. exact (Hd' y Hys Hy).
Qed.

Lemma rep_top_of_ctx ns f c' t rt :
  rep ns t -> rep_ctx ns (f :: c') (idx t) rt ->
  rep_top ns (fill f t) /\ rep_ctx ns c' (fidx f) rt.
Proof.
  destruct f as [p kp vp sib|sib p kp vp]; cbn [rep_ctx fill rep_top fidx]; tauto.
Qed.

Lemma rebalance_step_ctx s f c' l i k v h r :
  rep_top (nodes s) (T l i k v h r) ->
  rep_ctx (nodes s) (f :: c') i (root s) ->
  NoDup (idxs (T l i k v h r) ++ ctx_idxs (f :: c')) ->
  N.max (hmax l) (hmax r) + 3 < B -> hmax (fsib f) + 3 < B ->
  exists s', rebalance_step bits s (Some (fidx f), Some (fdir f), i) = Ok s' /\
    rep (nodes s') (rebal (T l i k v h r)) /\
    rep_ctx (nodes s') (f :: c') (idx (rebal (T l i k v h r))) (root s') /\
    root s' = root s /\ hdr_eq s s' /\
    same_outside (nodes s) (nodes s') (fidx f :: idxs (T l i k v h r)) /\
    length (nodes s') = length (nodes s).
Proof.
  intros Rt Rc Hnd Hb Hbs. pose proof (B_le_W bits) as HBW.
  destruct (nodup_ctx_split _ _ _ Hnd) as [Hndt [Hpt [Hps [Hst [Hct [Hnds Hndc]]]]]].
  destruct (rebal_core_spec (nodes s) l i k v h r Rt Hndt Hb) as [ns1 [oi [Hc [R1 [S1 [L1 Ho]]]]]].
  rewrite rebalance_step_eq, Hc. cbn [bind].
  pose proof (hmax_rebal l i k v h r) as Hm.
  pose proof (rebal_idxs (T l i k v h r)) as Hix.
  set (t := T l i k v h r) in *.
  destruct oi as [x|].
  - subst x. cbn [expect_dir bind].
    pose proof (newh_hmax (rebal t) (fsib f)) as Hn1.
    pose proof (newh_hmax (fsib f) (rebal t)) as Hn2.
    assert (Hw : newh (rebal t) (fsib f) < W /\ newh (fsib f) (rebal t) < W)
      by (clear - Hn1 Hn2 Hm Hb Hbs HBW; lia).
    destruct Hw as [Hw1 Hw2].
    assert (Rs1 : rep ns1 (fsib f)).
    { destruct f; cbn [rep_ctx fsib] in *; eapply rep_frame; try exact S1; try tauto;
        intros y Hy; apply Hst; exact Hy. }
    assert (Rc1 : forall ns2, same_outside ns1 ns2 [fidx f] -> rep_ctx ns2 c' (fidx f) (root s)).
    { intros ns2 S2. apply (rep_ctx_frame (nodes s) ns2 (idxs t ++ [fidx f])).
      - eapply same_outside_trans; eauto.
      - intros y Hy Hin. destruct (Hct y Hy) as [Hy1 [Hy2 _]].
        apply in_app_or in Hin. cbn [In] in Hin. intuition congruence.
      - destruct f; cbn [rep_ctx fidx] in *; tauto. }
    destruct f as [p kp vp sib|sib p kp vp]; cbn [fidx fdir fsib rep_ctx] in *.
    + destruct Rc as [[hp Hp] [Rs Rcc]].
      destruct (update_child_L_spec bits ns1 p i (idx sib) hp kp vp (rebal t) sib)
        as [ns2 [U2 [R2 [S2 L2]]]]; auto.
      { eapply holds_frame; eauto. }
      { rewrite Hix. exact Hpt. }
      rewrite U2. cbn [bind]. exists (with_nodes s ns2). cbn [with_nodes nodes root].
      cbn [mk rep] in R2. destruct R2 as [Hp2 [Rt2 Rs2]].
      split; [reflexivity|]. split; [exact Rt2|].
      split; [split; [eauto|split; [exact Rs2|apply Rc1; exact S2]]|].
      split; [reflexivity|].
      split; [unfold hdr_eq; cbn [with_nodes size cap flh seq]; auto|].
      split; [|congruence].
      eapply same_outside_weaken; [eapply same_outside_trans; eauto|].
      intros y Hy. apply in_app_or in Hy. cbn [In] in *. tauto.
    + destruct Rc as [[hp Hp] [Rs Rcc]].
      destruct (update_child_R_spec bits ns1 p (idx sib) i hp kp vp sib (rebal t))
        as [ns2 [U2 [R2 [S2 L2]]]]; auto.
      { eapply holds_frame; eauto. }
      { rewrite Hix. exact Hpt. }
      rewrite U2. cbn [bind]. exists (with_nodes s ns2). cbn [with_nodes nodes root].
      cbn [mk rep] in R2. destruct R2 as [Hp2 [Rs2 Rt2]].
      split; [reflexivity|]. split; [exact Rt2|].
      split; [split; [eauto|split; [exact Rs2|apply Rc1; exact S2]]|].
      split; [reflexivity|].
      split; [unfold hdr_eq; cbn [with_nodes size cap flh seq]; auto|].
      split; [|congruence].
      eapply same_outside_weaken; [eapply same_outside_trans; eauto|].
      intros y Hy. apply in_app_or in Hy. cbn [In] in *. tauto.
  - rewrite Ho. exists (with_nodes s ns1). cbn [with_nodes nodes root].
    split; [reflexivity|]. split; [exact R1|].
    split.
    { apply (rep_ctx_frame (nodes s) ns1 (idxs t)); auto.
      intros y Hy. cbn [ctx_idxs In] in Hy. destruct Hy as [<-|Hy]; [exact Hpt|].
      apply in_app_or in Hy. destruct Hy as [Hy|Hy]; [apply Hst; exact Hy|].
      apply (Hct y Hy). }
    split; [reflexivity|].
    split; [unfold hdr_eq; cbn [with_nodes size cap flh seq]; auto|].
    split; [|exact L1].
    eapply same_outside_weaken; [exact S1|]. intros y Hy. right. exact Hy.
Qed.

(* ---------------------------------------------------------------- *)
(* the loop                                                          *)

(* maximum stored height in the siblings hanging off a context *)
Fixpoint cmax (c : ctx) : N :=
  match c with [] => 0 | f :: c' => N.max (hmax (fsib f)) (cmax c') end.

Lemma nodup_swap (a b c : list N) p : NoDup (a ++ p :: b ++ c) -> NoDup ((b ++ p :: a) ++ c).
Proof.
  apply Permutation_NoDup.
  change (a ++ p :: b ++ c) with (a ++ (p :: b) ++ c). rewrite app_assoc.
  apply Permutation_app_tail.
  eapply Permutation_trans; [apply Permutation_app_comm|].
  cbn [app]. apply Permutation_middle.
Qed.

Lemma rev_path_of f c' hole :
  rev (path_of (f :: c') hole) =
  (Some (fidx f), Some (fdir f), hole) :: rev (path_of c' (fidx f)).
Proof. cbn [path_of]. rewrite rev_app_distr. reflexivity. Qed.

Lemma rebalance_list_spec c : forall s l i k v h r,
  rep_top (nodes s) (T l i k v h r) ->
  rep_ctx (nodes s) c i (root s) ->
  NoDup (idxs (T l i k v h r) ++ ctx_idxs c) ->
  N.max (N.max (hmax l) (hmax r)) (cmax c) + 2 * N.of_nat (length c) + 3 < B ->
  exists s', rebalance_list bits s (rev (path_of c i)) = Ok s' /\
    rep (nodes s') (plug_rebal c (rebal (T l i k v h r))) /\
    root s' = idx (plug_rebal c (rebal (T l i k v h r))) /\
    hdr_eq s s' /\
    same_outside (nodes s) (nodes s') (idxs (T l i k v h r) ++ ctx_idxs c) /\
    length (nodes s') = length (nodes s).
Proof.
  induction c as [|f c' IH]; intros s l i k v h r Rt Rc Hnd Hb.
  - cbn [rep_ctx] in Rc. cbn [cmax length] in Hb. cbn [ctx_idxs] in *. rewrite app_nil_r in Hnd.
    assert (Hb' : N.max (hmax l) (hmax r) + 3 < B) by (clear - Hb; lia).
    destruct (rebalance_step_root s l i k v h r Rt Hnd Hb')
      as [s' [Hs [R1 [Hroot [Hh [S1 [L1 _]]]]]]].
    exists s'. cbn [path_of rev app rebalance_list plug_rebal]. rewrite Hs. cbn [bind].
    split; [reflexivity|]. split; [exact R1|]. split; [auto|]. split; [exact Hh|].
    split; [rewrite app_nil_r; exact S1|exact L1].
  - rewrite rev_path_of. cbn [rebalance_list plug_rebal].
    cbn [cmax length] in Hb. rewrite Nat2N.inj_succ in Hb.
    assert (Hb1 : N.max (hmax l) (hmax r) + 3 < B) by (clear - Hb; lia).
    assert (Hb2 : hmax (fsib f) + 3 < B) by (clear - Hb; lia).
    destruct (rebalance_step_ctx s f c' l i k v h r Rt Rc Hnd Hb1 Hb2)
      as [s1 [Hs [R1 [Rc1 [Hroot [Hh [S1 L1]]]]]]].
    rewrite Hs. cbn [bind].
    pose proof (hmax_rebal l i k v h r) as Hm.
    pose proof (rebal_idxs (T l i k v h r)) as Hix.
    set (t := T l i k v h r) in *.
    destruct (rep_top_of_ctx _ _ _ _ _ R1 Rc1) as [Rt1 Rc1'].
    assert (Hnd1 : NoDup (idxs (fill f (rebal t)) ++ ctx_idxs c')).
    { destruct f as [p kp vp sib|sib p kp vp]; cbn [fill idxs ctx_idxs fidx fsib] in *; rewrite Hix.
      - rewrite <- app_assoc. cbn [app]. exact Hnd.
      - apply nodup_swap. exact Hnd. }
    assert (Hsub : forall y, In y ((fidx f :: idxs t) ++ idxs (fill f (rebal t)) ++ ctx_idxs c') ->
                             In y (idxs t ++ ctx_idxs (f :: c'))).
    { intros y. destruct f as [p kp vp sib|sib p kp vp]; cbn [fill idxs ctx_idxs fidx fsib]; rewrite Hix;
        repeat (rewrite ?in_app_iff; cbn [In]); tauto. }
    destruct f as [p kp vp sib|sib p kp vp]; cbn [fill fidx fsib] in *.
    + destruct (IH s1 (rebal t) p kp vp 0 sib Rt1 Rc1' Hnd1) as [s' [Hl [R2 [Hr2 [Hh2 [S2 L2]]]]]].
      { clear - Hb Hm. lia. }
      exists s'. split; [exact Hl|]. split; [exact R2|]. split; [exact Hr2|].
      split; [eapply hdr_eq_trans; eauto|]. split; [|congruence].
      eapply same_outside_weaken; [eapply same_outside_trans; eauto|]. exact Hsub.
    + destruct (IH s1 sib p kp vp 0 (rebal t) Rt1 Rc1' Hnd1) as [s' [Hl [R2 [Hr2 [Hh2 [S2 L2]]]]]].
      { clear - Hb Hm. lia. }
      exists s'. split; [exact Hl|]. split; [exact R2|]. split; [exact Hr2|].
      split; [eapply hdr_eq_trans; eauto|]. split; [|congruence].
      eapply same_outside_weaken; [eapply same_outside_trans; eauto|]. exact Hsub.
Qed.

Lemma rebalance_spec c s l i k v h r :
  rep_top (nodes s) (T l i k v h r) ->
  rep_ctx (nodes s) c i (root s) ->
  NoDup (idxs (T l i k v h r) ++ ctx_idxs c) ->
  N.max (N.max (hmax l) (hmax r)) (cmax c) + 2 * N.of_nat (length c) + 3 < B ->
  exists s', rebalance bits s (path_of c i) = Ok s' /\
    rep (nodes s') (plug_rebal c (rebal (T l i k v h r))) /\
    root s' = idx (plug_rebal c (rebal (T l i k v h r))) /\
    hdr_eq s s' /\
    same_outside (nodes s) (nodes s') (idxs (T l i k v h r) ++ ctx_idxs c) /\
    length (nodes s') = length (nodes s).
Proof. unfold rebalance. apply rebalance_list_spec. Qed.

End Width.

(* ---------------------------------------------------------------- *)
(* the whole tree around a represented subtree                       *)

(* equal up to stored heights *)
Fixpoint heq (t u : itree) : Prop :=
  match t, u with
  | E, E => True
  | T l i k v _ r, T l' i' k' v' _ r' => i = i' /\ k = k' /\ v = v' /\ heq l l' /\ heq r r'
  | _, _ => False
  end.

Lemma heq_refl t : heq t t.
Proof. induction t as [|l IHl i k v h r IHr]; cbn [heq]; auto. Qed.
Lemma heq_idx t u : heq t u -> idx t = idx u.
Proof. destruct t, u; cbn [heq idx]; tauto. Qed.
Lemma heq_idxs t u : heq t u -> idxs t = idxs u.
Proof.
  revert u. induction t as [|l IHl i k v h r IHr]; intros [|l' i' k' v' h' r']; cbn [heq idxs];
    try tauto.
  intros [-> [_ [_ [Hl Hr]]]]. rewrite (IHl _ Hl), (IHr _ Hr). reflexivity.
Qed.
Lemma heq_inorder t u : heq t u -> inorder t = inorder u.
Proof.
  revert u. induction t as [|l IHl i k v h r IHr]; intros [|l' i' k' v' h' r']; cbn [heq inorder];
    try tauto.
  intros [_ [-> [-> [Hl Hr]]]]. rewrite (IHl _ Hl), (IHr _ Hr). reflexivity.
Qed.
Lemma heq_fill f t u : heq t u -> heq (fill f t) (fill f u).
Proof. destruct f; cbn [fill heq]; intros H; repeat split; auto using heq_refl. Qed.
Lemma heq_trans t : forall u w, heq t u -> heq u w -> heq t w.
Proof.
  induction t as [|l IHl i k v h r IHr]; intros [|l1 i1 k1 v1 h1 r1] [|l2 i2 k2 v2 h2 r2];
    cbn [heq]; try tauto.
  intros [-> [-> [-> [Hl Hr]]]] [-> [-> [-> [Hl' Hr']]]]. repeat split; eauto.
Qed.
Lemma heq_plug c : forall t u, heq t u -> heq (plug c t) (plug c u).
Proof.
  induction c as [|f c IH]; intros t u H; cbn [plug]; auto. apply IH, heq_fill, H.
Qed.

(* a represented subtree in a represented context: the whole tree
   [plug c t] is represented, up to the stored heights of the context nodes *)
Lemma rep_plug ns c : forall t rt,
  rep ns t -> rep_ctx ns c (idx t) rt ->
  exists u, rep ns u /\ heq u (plug c t) /\ idx u = rt.
Proof.
  induction c as [|f c IH]; intros t rt Rt Rc.
  - cbn [rep_ctx plug] in *. exists t. auto using heq_refl.
  - cbn [plug]. destruct f as [p kp vp sib|sib p kp vp]; cbn [rep_ctx fill] in *.
    + destruct Rc as [[hp Hp] [Rs Rc]].
      destruct (IH (T t p kp vp hp sib) rt) as [u [Ru [Hu Hi]]]; auto.
      { cbn [rep]. auto. }
      exists u. split; [exact Ru|]. split; [|exact Hi].
      eapply heq_trans; [exact Hu|]. apply heq_plug. cbn [heq]. auto using heq_refl.
    + destruct Rc as [[hp Hp] [Rs Rc]].
      destruct (IH (T sib p kp vp hp t) rt) as [u [Ru [Hu Hi]]]; auto.
      { cbn [rep]. auto. }
      exists u. split; [exact Ru|]. split; [|exact Hi].
      eapply heq_trans; [exact Hu|]. apply heq_plug. cbn [heq]. auto using heq_refl.
Qed.

(* ---------------------------------------------------------------- *)
(* sanity: the hypotheses are satisfiable and the conclusion computes *)

Module LinkRebalExample.
  (* slot 1: key 10, left -> 2; slot 2: key 5, left -> 3 (height stale: 0);
     slot 3: key 2, freshly inserted leaf.  The path is root(1) -L-> 2. *)
  Definition ns0 : list node :=
    [mkN 2 0 1 10%Z 100%Z; mkN 3 0 0 5%Z 50%Z; mkN 0 0 0 2%Z 20%Z].
  Definition s0 : st := mkS 1 3 3 4 4 ns0.
  Definition leaf3 : itree := T E 3 2%Z 20%Z 0 E.
  Definition t0 : itree := T leaf3 2 5%Z 50%Z 0 E.
  Definition c0 : ctx := [FL 1 10%Z 100%Z E].

  Example hyp_rep_top : rep_top (nodes s0) t0.
  Proof.
    cbn [rep_top t0 leaf3 rep idx]. split; [exists 0|split; [split; [|auto]|exact I]].
    - eexists. split; [reflexivity|]. cbn [nl nr nh nk nv]. auto.
    - eexists. split; [reflexivity|]. cbn [nl nr nh nk nv]. auto.
  Qed.
  Example hyp_rep_ctx : rep_ctx (nodes s0) c0 (idx t0) (root s0).
  Proof.
    cbn [rep_ctx c0 rep idx t0]. split; [exists 1|split; [exact I|reflexivity]].
    eexists. split; [reflexivity|]. cbn [nl nr nh nk nv]. auto.
  Qed.
  Example hyp_nodup : NoDup (idxs t0 ++ ctx_idxs c0).
  Proof. cbn. repeat constructor; cbn; intuition discriminate. Qed.
  Example hyp_bound :
    N.max (N.max (hmax leaf3) (hmax E)) (cmax c0) + 2 * N.of_nat (length c0) + 3 < 2 ^ (8 - 1).
  Proof. vm_compute. reflexivity. Qed.

  (* what the theorem predicts: a single right rotation at the root *)
  Example predicted :
    plug_rebal c0 (rebal t0) =
    T leaf3 2 5%Z 50%Z 1 (T E 1 10%Z 100%Z 0 E).
  Proof. vm_compute. reflexivity. Qed.
  Example computed :
    rebalance 8 s0 (path_of c0 (idx t0)) =
    Ok (mkS 2 3 3 4 4 [mkN 0 0 0 10%Z 100%Z; mkN 3 1 1 5%Z 50%Z; mkN 0 0 0 2%Z 20%Z]).
  Proof. vm_compute. reflexivity. Qed.

  (* the theorem applied to this state *)
  Example applied :
    exists s', rebalance 8 s0 (path_of c0 2) = Ok s' /\
      rep (nodes s') (plug_rebal c0 (rebal t0)) /\
      root s' = idx (plug_rebal c0 (rebal t0)) /\
      hdr_eq s0 s' /\
      same_outside (nodes s0) (nodes s') (idxs t0 ++ ctx_idxs c0) /\
      length (nodes s') = length (nodes s0).
  Proof.
    exact (rebalance_spec 8 c0 s0 leaf3 2 5%Z 50%Z 0 E hyp_rep_top hyp_rep_ctx hyp_nodup hyp_bound).
  Qed.

  (* outside the height bound the two layers part ways (u8 tree, stored
     height 127 resp. 128 in the left child of slot 1): the code panics on
     the `as i8 + 1`, resp. sees a negative height, where layer T computes
     with unbounded integers.  Not reachable for AVL trees of <= 255 nodes. *)
  Example beyond_bound_127 :
    balance_factor 8 [mkN 2 0 0 10%Z 0%Z; mkN 0 0 127 5%Z 0%Z] 2 0 = Panic PArith /\
    bfac (T E 2 5%Z 0%Z 127 E) E = 128%Z.
  Proof. vm_compute. auto. Qed.
  Example beyond_bound_128 :
    balance_factor 8 [mkN 2 0 0 10%Z 0%Z; mkN 0 0 128 5%Z 0%Z] 2 0 = Ok (-127)%Z /\
    bfac (T E 2 5%Z 0%Z 128 E) E = 129%Z.
  Proof. vm_compute. auto. Qed.
End LinkRebalExample.

Print Assumptions update_height_spec.
Print Assumptions update_child_L_spec.
Print Assumptions update_child_R_spec.
Print Assumptions balance_factor_spec.
Print Assumptions right_rotate_spec.
Print Assumptions left_rotate_spec.
Print Assumptions rebal_core_spec.
Print Assumptions rebalance_step_root.
Print Assumptions rebalance_step_ctx.
Print Assumptions rebalance_list_spec.
Print Assumptions rebalance_spec.
Print Assumptions rep_plug.
Print Assumptions rep_top_of_ctx.
Print Assumptions rebal_idxs_perm.
Print Assumptions hmax_rebal.
Print Assumptions LinkRebalExample.applied.
