(* Byte format of the AVL trees: size of the encoding, decode after encode is
   the identity on states whose words fit the index width and whose keys and
   values fit their field types, position of the header words and of the
   records, and the all-zero buffer. *)
From Coq Require Import List NArith ZArith Bool Lia Arith.
From Stevia Require Import Base.Res Base.Bytes Avl.Impl Avl.Format Hash.FormatFacts.
Import ListNotations.
Open Scope N_scope.
Arguments N.add : simpl never.
Arguments N.sub : simpl never.
Arguments N.mul : simpl never.
Arguments N.div : simpl never.
Arguments N.modulo : simpl never.
Arguments N.eqb : simpl never.
Arguments N.ltb : simpl never.
Arguments N.leb : simpl never.
Arguments N.pow : simpl never.
Arguments N.max : simpl never.
Arguments N.of_nat : simpl never.
Arguments N.to_nat : simpl never.
Arguments Z.add : simpl never.
Arguments Z.sub : simpl never.
Arguments Z.mul : simpl never.
Arguments Z.pow : simpl never.
Arguments Z.ltb : simpl never.
Arguments Z.leb : simpl never.
Arguments Z.eqb : simpl never.
Arguments Z.modulo : simpl never.
Arguments Z.of_nat : simpl never.
Arguments Z.of_N : simpl never.

(* ---------- list helpers ---------- *)
Lemma skipn_skipn' {A} (a b : nat) (l : list A) : skipn a (skipn b l) = skipn (b + a) l.
Proof.
  revert l; induction b as [|b IH]; intros l; [reflexivity|].
  destruct l as [|x l]; [rewrite !skipn_nil; reflexivity|].
  cbn [skipn Nat.add]. apply IH.
Qed.

Lemma firstn_repeat' {A} (x : A) k n : firstn k (repeat x n) = repeat x (Nat.min k n).
Proof.
  revert n; induction k as [|k IH]; intros n; [reflexivity|].
  destruct n as [|n]; [reflexivity|].
  cbn [repeat firstn Nat.min]. f_equal. apply IH.
Qed.

Lemma skipn_repeat' {A} (x : A) k n : skipn k (repeat x n) = repeat x (n - k).
Proof.
  revert n; induction k as [|k IH]; intros n; [rewrite Nat.sub_0_r; reflexivity|].
  destruct n as [|n]; [reflexivity|].
  cbn [repeat skipn Nat.sub]. apply IH.
Qed.

Lemma sub_app_mid (pre x post : list N) off len :
  length pre = N.to_nat off -> length x = N.to_nat len -> sub (pre ++ x ++ post) off len = x.
Proof.
  intros Hp Hx. unfold sub.
  rewrite (skipn_app_exact pre (x ++ post) _ Hp). apply firstn_app_exact. exact Hx.
Qed.

Lemma sub_repeat0 n off len :
  sub (repeat 0 n) off len = repeat 0 (Nat.min (N.to_nat len) (n - N.to_nat off)).
Proof. unfold sub. rewrite skipn_repeat', firstn_repeat'. reflexivity. Qed.

Lemma le_dec_repeat0 n : le_dec (repeat 0 n) = 0.
Proof. induction n as [|n IH]; [reflexivity|]. cbn [repeat le_dec]. rewrite IH. reflexivity. Qed.

Lemma z_dec_repeat0 sg n : z_dec sg (repeat 0 n) = 0%Z.
Proof.
  unfold z_dec. rewrite le_dec_repeat0, repeat_length. cbv zeta.
  change (Z.of_N 0) with 0%Z.
  assert (H : (0 < 2 ^ (8 * Z.of_nat n))%Z) by (apply Z.pow_pos_nonneg; lia).
  destruct sg; cbn [andb]; [|reflexivity].
  destruct (Z.leb_spec (2 ^ (8 * Z.of_nat n)) (2 * 0)); [lia|reflexivity].
Qed.

(* ---------- layout arithmetic ---------- *)
Lemma round_up_mod x a : a <> 0 -> round_up x a mod a = 0.
Proof.
  intros Ha. unfold round_up. destruct (N.eqb_spec a 0) as [E|_]; [contradiction|].
  apply N.mod_mul. exact Ha.
Qed.

Lemma round_up_lt x a : a <> 0 -> round_up x a < x + a.
Proof.
  intros Ha. unfold round_up. destruct (N.eqb_spec a 0) as [E|_]; [contradiction|].
  pose proof (N.div_mod (x + a - 1) a Ha) as E.
  pose proof (N.mod_lt (x + a - 1) a Ha) as L.
  rewrite (N.mul_comm ((x + a - 1) / a) a).
  revert E L. generalize ((x + a - 1) / a) ((x + a - 1) mod a). intros q r E L. lia.
Qed.

Lemma round_up_id x a : a <> 0 -> x mod a = 0 -> round_up x a = x.
Proof.
  intros Ha Hx. unfold round_up. destruct (N.eqb_spec a 0) as [E|_]; [contradiction|].
  pose proof (N.div_mod x a Ha) as E. rewrite Hx, N.add_0_r in E.
  replace (x + a - 1) with ((x / a) * a + (a - 1)) by lia.
  rewrite N.div_add_l by exact Ha. rewrite (N.div_small (a - 1) a) by lia. lia.
Qed.

Section Fmt.
Variable wbytes : nat.
Variable lay : layout.
Hypothesis Hw : wbytes = 1%nat \/ wbytes = 4%nat.
Hypothesis Hk : 0 < ksz lay.
Hypothesis Hv : 0 < vsz lay.

Local Notation w := (w wbytes).
Local Notation hdr_len := (hdr_len wbytes).
Local Notation ksz := (ksz lay).
Local Notation vsz := (vsz lay).
Local Notation koff := (koff wbytes lay).
Local Notation voff := (voff wbytes lay).
Local Notation rec_align := (rec_align wbytes lay).
Local Notation rec_len := (rec_len wbytes lay).
Local Notation data_len := (data_len wbytes lay).
Local Notation enc_node := (enc_node wbytes lay).
Local Notation enc_hdr := (enc_hdr wbytes).
Local Notation encode := (encode wbytes lay).
Local Notation word := (word wbytes).
Local Notation dec_node := (dec_node wbytes lay).
Local Notation dec_nodes := (dec_nodes wbytes lay).
Local Notation decode := (decode wbytes lay).

(* ---------- item 1: representable states ---------- *)
Definition word_ok (x : N) : Prop := x < 2 ^ (8 * N.of_nat wbytes).
Definition node_ok (n : node) : Prop :=
  word_ok (nl n) /\ word_ok (nr n) /\ word_ok (nh n) /\
  zval_ok (fsigned (kty lay)) (N.to_nat ksz) (nk n) /\
  zval_ok (fsigned (vty lay)) (N.to_nat vsz) (nv n).
Definition st_ok (s : st) : Prop :=
  word_ok (root s) /\ word_ok (size s) /\ word_ok (cap s) /\ word_ok (flh s) /\
  word_ok (seq s) /\ Forall node_ok (nodes s).

Lemma node0_ok : node_ok node0.
Proof.
  assert (P : forall k, 0 < 2 ^ k) by (intros k; apply N.neq_0_lt_0, N.pow_nonzero; lia).
  assert (Z0 : forall sg k, 0 < k -> zval_ok sg (N.to_nat k) 0%Z).
  { intros sg k Hk0. unfold zval_ok.
    assert (0 < 2 ^ (8 * Z.of_nat (N.to_nat k) - 1))%Z by (apply Z.pow_pos_nonneg; lia).
    assert (0 < 2 ^ (8 * Z.of_nat (N.to_nat k)))%Z by (apply Z.pow_pos_nonneg; lia).
    destruct sg; lia. }
  unfold node_ok, word_ok, node0; cbn [nl nr nh nk nv].
  repeat split; try apply P; apply Z0; assumption.
Qed.

(* ---------- item 2: lengths ---------- *)
Lemma w_eq : w = N.of_nat wbytes.
Proof. reflexivity. Qed.

Lemma koff_ge : 4 * w <= koff.
Proof. apply round_up_ge. Qed.
Lemma voff_ge : koff + ksz <= voff.
Proof. apply round_up_ge. Qed.
Lemma rec_len_ge : voff + vsz <= rec_len.
Proof. apply round_up_ge. Qed.
Lemma rec_len_pos : 0 < rec_len.
Proof. pose proof rec_len_ge. lia. Qed.
Lemma rec_align_pos : 0 < rec_align.
Proof. unfold Format.rec_align. lia. Qed.

Lemma koff_aligned : koff mod ksz = 0.
Proof. apply round_up_mod. lia. Qed.
Lemma voff_aligned : voff mod vsz = 0.
Proof. apply round_up_mod. lia. Qed.
Lemma rec_len_aligned : rec_len mod rec_align = 0.
Proof. apply round_up_mod. pose proof rec_align_pos. lia. Qed.

Lemma hdr_len_ge : (5 * wbytes <= hdr_len)%nat.
Proof. unfold Format.hdr_len. destruct Hw as [-> | ->]; cbn; lia. Qed.

Lemma z_enc_length k z : length (z_enc k z) = k.
Proof. unfold z_enc. apply le_enc_length. Qed.

Lemma enc_node_length n : length (enc_node n) = N.to_nat rec_len.
Proof.
  unfold Format.enc_node, zeros.
  rewrite !app_length, !le_enc_length, !z_enc_length, !repeat_length.
  pose proof koff_ge. pose proof voff_ge. pose proof rec_len_ge. pose proof w_eq. lia.
Qed.

Lemma enc_hdr_length s : length (enc_hdr s) = hdr_len.
Proof.
  unfold Format.enc_hdr, zeros.
  rewrite !app_length, !le_enc_length, !repeat_length.
  pose proof hdr_len_ge. lia.
Qed.

Lemma enc_nodes_length ns :
  length (flat_map enc_node ns) = (length ns * N.to_nat rec_len)%nat.
Proof. apply flat_map_length_const. intros a _. apply enc_node_length. Qed.

Theorem encode_length s :
  length (encode s) = (hdr_len + length (nodes s) * N.to_nat rec_len)%nat.
Proof. unfold Format.encode. rewrite app_length, enc_hdr_length, enc_nodes_length. reflexivity. Qed.

(* data_len(c) is exactly header plus c records *)
Theorem encode_data_len s :
  N.of_nat (length (encode s)) = data_len (N.of_nat (length (nodes s))).
Proof. rewrite encode_length. unfold Format.data_len. lia. Qed.

(* ---------- item 3: round trip ---------- *)
Lemma word_enc x : word_ok x -> le_dec (le_enc wbytes x) = x.
Proof. apply le_dec_enc. Qed.

(* the word at index [i] of a buffer, when the preceding bytes are [pre] *)
Lemma word_at pre x post i :
  length pre = (N.to_nat i * wbytes)%nat -> word_ok x ->
  word (pre ++ le_enc wbytes x ++ post) i = x.
Proof.
  intros Hp Hx. unfold Format.word.
  rewrite sub_app_mid; [apply word_enc; exact Hx | |].
  - rewrite Hp. pose proof w_eq. lia.
  - rewrite le_enc_length. pose proof w_eq. lia.
Qed.

Lemma words3 a b c post :
  word_ok a -> word_ok b -> word_ok c ->
  let bs := le_enc wbytes a ++ le_enc wbytes b ++ le_enc wbytes c ++ post in
  word bs 0 = a /\ word bs 1 = b /\ word bs 2 = c.
Proof.
  intros Ha Hb Hc bs. unfold bs.
  repeat split.
  - apply (word_at [] a); [reflexivity | exact Ha].
  - apply (word_at (le_enc wbytes a) b); [rewrite le_enc_length; lia | exact Hb].
  - rewrite (app_assoc (le_enc wbytes a)).
    apply (word_at _ c); [rewrite !app_length, !le_enc_length; lia | exact Hc].
Qed.

Lemma words5 a b c d e post :
  word_ok a -> word_ok b -> word_ok c -> word_ok d -> word_ok e ->
  let bs := le_enc wbytes a ++ le_enc wbytes b ++ le_enc wbytes c ++ le_enc wbytes d
            ++ le_enc wbytes e ++ post in
  word bs 0 = a /\ word bs 1 = b /\ word bs 2 = c /\ word bs 3 = d /\ word bs 4 = e.
Proof.
  intros Ha Hb Hc Hd He bs. unfold bs.
  destruct (words3 a b c (le_enc wbytes d ++ le_enc wbytes e ++ post) Ha Hb Hc) as (W0 & W1 & W2).
  repeat split; [exact W0 | exact W1 | exact W2 | |].
  - rewrite (app_assoc (le_enc wbytes a)), (app_assoc (_ ++ _)).
    apply (word_at _ d); [rewrite !app_length, !le_enc_length; lia | exact Hd].
  - rewrite (app_assoc (le_enc wbytes a)), (app_assoc (_ ++ _)), (app_assoc ((_ ++ _) ++ _)).
    apply (word_at _ e); [rewrite !app_length, !le_enc_length; lia | exact He].
Qed.

Lemma dec_enc_node n rest : node_ok n -> dec_node (enc_node n ++ rest) = n.
Proof.
  intros (Hl & Hr & Hh & Hkk & Hvv).
  pose proof koff_ge as G1. pose proof voff_ge as G2. pose proof rec_len_ge as G3.
  pose proof w_eq as Ew.
  unfold Format.dec_node, Format.enc_node.
  repeat rewrite <- app_assoc.
  match goal with |- context [le_enc wbytes (nh n) ++ ?p] =>
    destruct (words3 (nl n) (nr n) (nh n) p Hl Hr Hh) as (W0 & W1 & W2) end.
  rewrite W0, W1, W2. clear W0 W1 W2.
  (* key field *)
  match goal with |- context [sub ?l koff ksz] =>
    replace (sub l koff ksz) with (z_enc (N.to_nat ksz) (nk n)) end.
  2:{ symmetry.
      rewrite (app_assoc (le_enc wbytes (nl n))), (app_assoc (_ ++ _)), (app_assoc ((_ ++ _) ++ _)),
        (app_assoc (((_ ++ _) ++ _) ++ _)).
      apply sub_app_mid; [|apply z_enc_length].
      unfold zeros. rewrite !app_length, !le_enc_length, repeat_length. lia. }
  match goal with |- context [sub ?l voff vsz] =>
    replace (sub l voff vsz) with (z_enc (N.to_nat vsz) (nv n)) end.
  2:{ symmetry.
      rewrite (app_assoc (le_enc wbytes (nl n))), (app_assoc (_ ++ _)), (app_assoc ((_ ++ _) ++ _)),
        (app_assoc (((_ ++ _) ++ _) ++ _)), (app_assoc ((((_ ++ _) ++ _) ++ _) ++ _)),
        (app_assoc (((((_ ++ _) ++ _) ++ _) ++ _) ++ _)).
      apply sub_app_mid; [|apply z_enc_length].
      unfold zeros. rewrite !app_length, !le_enc_length, !repeat_length, z_enc_length. lia. }
  rewrite !z_dec_enc by assumption. destruct n; reflexivity.
Qed.

Lemma dec_enc_node_firstn n rest :
  node_ok n -> dec_node (firstn (N.to_nat rec_len) (enc_node n ++ rest)) = n.
Proof.
  intros H. rewrite firstn_app_exact by apply enc_node_length.
  rewrite <- (app_nil_r (enc_node n)). apply dec_enc_node. exact H.
Qed.

Lemma dec_nodes_enc ns rest :
  Forall node_ok ns -> dec_nodes (length ns) (flat_map enc_node ns ++ rest) = ns.
Proof.
  induction 1 as [|n ns Hn Hns IH]; [reflexivity|].
  cbn [length flat_map Format.dec_nodes]. rewrite <- app_assoc.
  rewrite dec_enc_node_firstn by exact Hn.
  rewrite skipn_app_exact by apply enc_node_length.
  rewrite IH. reflexivity.
Qed.

(* ---------- item 5 (header part): the five header words ---------- *)
Lemma encode_words s : st_ok s ->
  word (encode s) 0 = root s /\ word (encode s) 1 = size s /\ word (encode s) 2 = cap s /\
  word (encode s) 3 = flh s /\ word (encode s) 4 = seq s.
Proof.
  intros (H0 & H1 & H2 & H3 & H4 & _).
  unfold Format.encode, Format.enc_hdr. repeat rewrite <- app_assoc.
  apply words5; assumption.
Qed.

Theorem decode_encode s : st_ok s -> decode (encode s) = Some s.
Proof.
  intros Hs. pose proof (encode_words s Hs) as (W0 & W1 & W2 & W3 & W4).
  pose proof rec_len_pos as Hr.
  unfold Format.decode. rewrite W0, W1, W2, W3, W4.
  destruct (Nat.ltb_spec (length (encode s)) hdr_len) as [E|_].
  { rewrite encode_length in E. lia. }
  assert (Hb : skipn hdr_len (encode s) = flat_map enc_node (nodes s)).
  { unfold Format.encode. apply skipn_app_exact, enc_hdr_length. }
  rewrite Hb, enc_nodes_length.
  replace (N.of_nat (length (nodes s) * N.to_nat rec_len)) with (N.of_nat (length (nodes s)) * rec_len) by lia.
  rewrite N.mod_mul, N.div_mul by lia.
  rewrite N.eqb_refl. cbn [negb]. rewrite Nat2N.id.
  rewrite <- (app_nil_r (flat_map enc_node (nodes s))).
  rewrite dec_nodes_enc by (apply Hs). destruct s; reflexivity.
Qed.

(* ---------- item 4 ---------- *)
Corollary encode_inj s1 s2 : st_ok s1 -> st_ok s2 -> encode s1 = encode s2 -> s1 = s2.
Proof.
  intros H1 H2 E. apply decode_encode in H1. apply decode_encode in H2.
  rewrite E in H1. congruence.
Qed.

(* ---------- item 5 (record part): where slot [i] lives ---------- *)
Definition rec_off (i : N) : N := N.of_nat hdr_len + (i - 1) * rec_len.

Lemma rec_at_some s i n :
  rec_at s i = Some n <-> 1 <= i /\ nth_error (nodes s) (N.to_nat (i - 1)) = Some n.
Proof.
  unfold rec_at. destruct (N.eqb_spec i 0) as [E|E].
  - split; [discriminate | intros [H _]; lia].
  - split; [intros H; split; [lia | exact H] | intros [_ H]; exact H].
Qed.

Lemma rec_at_range s i n : rec_at s i = Some n -> 1 <= i <= N.of_nat (length (nodes s)).
Proof.
  intros H. apply rec_at_some in H. destruct H as [H1 H2].
  assert (N.to_nat (i - 1) < length (nodes s))%nat by (apply nth_error_Some; congruence). lia.
Qed.

(* the record of slot i occupies bytes [rec_off i, rec_off i + rec_len) *)
Theorem encode_rec_at s i n :
  rec_at s i = Some n -> sub (encode s) (rec_off i) rec_len = enc_node n.
Proof.
  intros H. apply rec_at_some in H. destruct H as [Hi Hn].
  apply nth_error_split in Hn. destruct Hn as (l1 & l2 & El & Hl1).
  unfold Format.encode. rewrite El, flat_map_app. cbn [flat_map].
  rewrite app_assoc. apply sub_app_mid; [|apply enc_node_length].
  rewrite app_length, enc_hdr_length, enc_nodes_length, Hl1. unfold rec_off. lia.
Qed.

Lemma rec_off_bound s i n :
  rec_at s i = Some n -> rec_off i + rec_len <= N.of_nat (length (encode s)).
Proof.
  intros H. apply rec_at_range in H. rewrite encode_length. unfold rec_off.
  replace (N.of_nat (hdr_len + length (nodes s) * N.to_nat rec_len))
    with (N.of_nat hdr_len + N.of_nat (length (nodes s)) * rec_len) by lia.
  assert (E1 : (i - 1) * rec_len + rec_len = i * rec_len).
  { rewrite <- (N.mul_1_l rec_len) at 2. rewrite <- N.mul_add_distr_r. f_equal. lia. }
  pose proof (N.mul_le_mono_r i _ rec_len (proj2 H)) as E2.
  revert E1 E2. generalize ((i - 1) * rec_len) (i * rec_len) (N.of_nat (length (nodes s)) * rec_len).
  intros a b c E1 E2. lia.
Qed.

Corollary encode_rec_at_dec s i n :
  st_ok s -> rec_at s i = Some n -> dec_node (sub (encode s) (rec_off i) rec_len) = n.
Proof.
  intros Hs H. rewrite (encode_rec_at s i n H).
  rewrite <- (app_nil_r (enc_node n)). apply dec_enc_node.
  apply rec_at_some in H. destruct H as [_ H]. apply nth_error_In in H.
  destruct Hs as (_ & _ & _ & _ & _ & Hf). rewrite Forall_forall in Hf. apply Hf. exact H.
Qed.

(* the same on the reading side, for any buffer that decodes *)
Lemma dec_nodes_length cnt bs : length (dec_nodes cnt bs) = cnt.
Proof. revert bs; induction cnt as [|c IH]; intros bs; cbn [Format.dec_nodes length]; auto. Qed.

Lemma dec_nodes_nth cnt bs j : (j < cnt)%nat ->
  nth_error (dec_nodes cnt bs) j
  = Some (dec_node (firstn (N.to_nat rec_len) (skipn (j * N.to_nat rec_len) bs))).
Proof.
  revert bs j; induction cnt as [|c IH]; intros bs j Hj; [lia|].
  cbn [Format.dec_nodes]. destruct j as [|j]; [reflexivity|].
  cbn [nth_error]. rewrite IH by lia. rewrite skipn_skipn'.
  reflexivity.
Qed.

Theorem decode_rec_at bs s i n :
  decode bs = Some s -> rec_at s i = Some n -> n = dec_node (sub bs (rec_off i) rec_len).
Proof.
  unfold Format.decode. intros D H.
  destruct (Nat.ltb_spec (length bs) hdr_len) as [_|_]; [discriminate|].
  destruct (negb _); [discriminate|]. injection D as <-.
  apply rec_at_some in H. cbn [nodes] in H. destruct H as [Hi Hn].
  assert (Hj : (N.to_nat (i - 1) < N.to_nat (N.of_nat (length (skipn hdr_len bs)) / rec_len))%nat).
  { rewrite <- (dec_nodes_length (N.to_nat (N.of_nat (length (skipn hdr_len bs)) / rec_len)) (skipn hdr_len bs)).
    apply nth_error_Some. congruence. }
  rewrite dec_nodes_nth in Hn by exact Hj. injection Hn as <-.
  unfold sub, rec_off. rewrite skipn_skipn'. do 3 f_equal. lia.
Qed.

Theorem decode_nodes_length bs s :
  decode bs = Some s ->
  length bs = (hdr_len + length (nodes s) * N.to_nat rec_len)%nat.
Proof.
  unfold Format.decode. intros D. pose proof rec_len_pos as Hr.
  destruct (Nat.ltb_spec (length bs) hdr_len) as [_|Hl]; [discriminate|].
  destruct (N.eqb_spec (N.of_nat (length (skipn hdr_len bs)) mod rec_len) 0) as [E|_]; [|discriminate].
  cbn [negb] in D. injection D as <-. cbn [nodes]. rewrite dec_nodes_length.
  rewrite skipn_length in *.
  pose proof (N.div_mod (N.of_nat (length bs - hdr_len)) rec_len ltac:(lia)) as Q.
  rewrite E in Q. revert Q. generalize (N.of_nat (length bs - hdr_len) / rec_len). intros q Q.
  assert (Q' : (length bs - hdr_len = N.to_nat rec_len * N.to_nat q)%nat).
  { rewrite <- N2Nat.inj_mul. lia. }
  rewrite (Nat.mul_comm (N.to_nat q)). lia.
Qed.

(* ---------- item 6: the all-zero buffer ---------- *)
Lemma word_repeat0 n i : word (repeat 0 n) i = 0.
Proof. unfold Format.word. rewrite sub_repeat0. apply le_dec_repeat0. Qed.

Lemma dec_node_repeat0 n : dec_node (repeat 0 n) = node0.
Proof.
  unfold Format.dec_node. rewrite !word_repeat0, !sub_repeat0, !z_dec_repeat0. reflexivity.
Qed.

Lemma dec_nodes_repeat0 cnt m : dec_nodes cnt (repeat 0 m) = repeat node0 cnt.
Proof.
  revert m; induction cnt as [|c IH]; intros m; [reflexivity|].
  cbn [Format.dec_nodes repeat]. rewrite firstn_repeat', skipn_repeat', dec_node_repeat0, IH.
  reflexivity.
Qed.

Theorem decode_zeros n :
  decode (repeat 0 (hdr_len + n * N.to_nat rec_len)) = Some (mkS 0 0 0 0 0 (repeat node0 n)).
Proof.
  pose proof rec_len_pos as Hr.
  unfold Format.decode. rewrite repeat_length.
  destruct (Nat.ltb_spec (hdr_len + n * N.to_nat rec_len) hdr_len) as [E|_]; [lia|].
  rewrite skipn_repeat', repeat_length, !word_repeat0.
  replace (N.of_nat (hdr_len + n * N.to_nat rec_len - hdr_len)) with (N.of_nat n * rec_len) by lia.
  rewrite N.mod_mul, N.div_mul by lia.
  rewrite N.eqb_refl. cbn [negb]. rewrite Nat2N.id, dec_nodes_repeat0. reflexivity.
Qed.

(* and conversely the all-zero state encodes to the all-zero buffer *)
Lemma le_enc_0 k : le_enc k 0 = repeat 0 k.
Proof.
  induction k as [|k IH]; [reflexivity|].
  cbn [le_enc repeat]. rewrite N.mod_0_l, N.div_0_l by lia. rewrite IH. reflexivity.
Qed.

Lemma z_enc_0 k : z_enc k 0 = repeat 0 k.
Proof. unfold z_enc. rewrite Zmod_0_l. change (Z.to_N 0) with 0. apply le_enc_0. Qed.

Lemma enc_node0 : enc_node node0 = repeat 0 (N.to_nat rec_len).
Proof.
  pose proof koff_ge as G1. pose proof voff_ge as G2. pose proof rec_len_ge as G3.
  pose proof w_eq as Ew.
  unfold Format.enc_node, node0, zeros; cbn [nl nr nh nk nv].
  rewrite !le_enc_0, !z_enc_0, <- !repeat_app. f_equal. lia.
Qed.

Theorem encode_zero_state n :
  encode (mkS 0 0 0 0 0 (repeat node0 n)) = repeat 0 (hdr_len + n * N.to_nat rec_len).
Proof.
  unfold Format.encode, Format.enc_hdr, zeros; cbn [root size cap flh seq nodes].
  rewrite repeat_app. f_equal.
  - rewrite !le_enc_0, <- !repeat_app. f_equal. pose proof hdr_len_ge. lia.
  - induction n as [|n IH]; [reflexivity|].
    cbn [repeat flat_map Nat.mul]. rewrite IH, enc_node0, <- repeat_app. reflexivity.
Qed.

End Fmt.

Print Assumptions encode_length.
Print Assumptions encode_data_len.
Print Assumptions dec_enc_node.
Print Assumptions dec_nodes_enc.
Print Assumptions decode_encode.
Print Assumptions encode_inj.
Print Assumptions encode_words.
Print Assumptions encode_rec_at.
Print Assumptions encode_rec_at_dec.
Print Assumptions decode_rec_at.
Print Assumptions decode_nodes_length.
Print Assumptions decode_zeros.
Print Assumptions encode_zero_state.

(* the hypotheses are satisfiable: u32 indices, i64 keys, u16 values; and
   u8 indices, u8 keys, i32 values *)
Example ex_lay32 : layout := mkLay {| fsz := 8; fsigned := true |} {| fsz := 2; fsigned := false |}.
Example ex_lay8 : layout := mkLay {| fsz := 1; fsigned := false |} {| fsz := 4; fsigned := true |}.
Example ex_st : st :=
  mkS 2 2 3 0 3 [mkN 0 0 0 (-5)%Z 7%Z; mkN 1 0 1 200%Z 65535%Z; node0].
Example ex_st8 : st :=
  mkS 2 2 3 0 3 [mkN 0 0 0 5%Z (-7)%Z; mkN 1 0 1 200%Z (-2147483648)%Z; node0].

Example ex_layout32 :
  (koff 4 ex_lay32, voff 4 ex_lay32, rec_len 4 ex_lay32, length (encode 4 ex_lay32 ex_st))
  = (16, 24, 32, 120%nat).
Proof. vm_compute. reflexivity. Qed.
Example ex_layout8 :
  (koff 1 ex_lay8, voff 1 ex_lay8, rec_len 1 ex_lay8, length (encode 1 ex_lay8 ex_st8))
  = (4, 8, 12, 44%nat).
Proof. vm_compute. reflexivity. Qed.
Example ex_roundtrip32 : decode 4 ex_lay32 (encode 4 ex_lay32 ex_st) = Some ex_st.
Proof. vm_compute. reflexivity. Qed.
Example ex_roundtrip8 : decode 1 ex_lay8 (encode 1 ex_lay8 ex_st8) = Some ex_st8.
Proof. vm_compute. reflexivity. Qed.
Example ex_st_ok : st_ok 4 ex_lay32 ex_st /\ st_ok 1 ex_lay8 ex_st8.
Proof.
  unfold st_ok, ex_st, ex_st8; cbn [root size cap flh seq nodes].
  repeat match goal with
         | |- _ /\ _ => split
         | |- Forall _ _ => constructor
         | |- node_ok _ _ _ => unfold node_ok
         end; vm_compute; try split; solve [reflexivity | discriminate | intro HH; discriminate HH].
Qed.
