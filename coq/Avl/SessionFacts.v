(* Handle sessions (Avl/Session.v): the master theorems with an explicit
   handle.  The step theorem for both values of the handle flag, the history
   theorems from every invariant state and from an initialised buffer whose
   record count may exceed the capacity, no Panic / Fuel outcome in any
   history, and two corollaries for a long-lived handle: refused operations
   hand back the very same state, and the capacity word is stable.

   The old theorems (Avl/Master.v, [step_c]: the view is re-opened before
   every mutating operation) are the special case "no live handle":
   [spec_step_sess_dead], [step_sess_dead]. *)
From Coq Require Import List NArith ZArith Bool Lia ZifyBool Permutation Sorted.
From Stevia Require Import Base.Res Base.ResMore Base.Bytes Avl.Impl Avl.Tree Avl.Rep Avl.Spec Avl.Format Avl.Session.
From Stevia Require Import Avl.TreeInv Avl.SmapFacts Avl.TreeOps Avl.TreeProps Avl.LinkFind Avl.Alloc Avl.Inv.
From Stevia Require Import Avl.LinkInsert Avl.LinkSteps Avl.SmapMore Avl.Master Avl.Clauses Avl.Capacity Avl.Quiet.
From Stevia Require Import Avl.FinalMaster.
Import ListNotations.
Open Scope N_scope.

Arguments N.add : simpl never.
Arguments N.sub : simpl never.
Arguments N.mul : simpl never.
Arguments N.pow : simpl never.
Arguments N.modulo : simpl never.
Arguments N.eqb : simpl never.
Arguments N.ltb : simpl never.
Arguments N.leb : simpl never.
Arguments N.max : simpl never.
Arguments Z.add : simpl never.
Arguments Z.sub : simpl never.
Arguments Z.ltb : simpl never.
Arguments Z.gtb : simpl never.
Arguments Z.eqb : simpl never.
Arguments N.of_nat : simpl never.

(* ------------------------------------------------------------------ *)
(* 1. the spec with a handle                                           *)

(* the handle flag after an operation *)
Definition live_after (live : bool) (o : op) : bool :=
  match o with
  | OExt _ | OOpenRo => false
  | OOpenMut => true
  | _ => if needs_mut o then true else live
  end.

(* [spec_step] is the bare operation after the claim that [step_c]'s
   re-opening makes; for [OOpenMut] the bare operation is the claim itself *)
Theorem spec_step_factor a o :
  spec_step a o = spec_op (if needs_mut o then s_claim a else a) o.
Proof. destruct o; reflexivity. Qed.

Ltac case_matches :=
  repeat match goal with |- context [match ?x with _ => _ end] => destruct x end.

(* one equation for [spec_step_sess]: the claim happens exactly when the
   operation needs the mutable view and there is no live handle *)
Theorem spec_step_sess_eq x o :
  spec_step_sess x o =
  let a0 := if needs_mut o && negb (a_live x) then s_claim (a_st x) else a_st x in
  (mkSSess (fst (spec_op a0 o)) (live_after (a_live x) o), snd (spec_op a0 o)).
Proof.
  destruct x as [a live]. destruct o; destruct live;
    cbn [spec_step_sess needs_mut a_live a_st spec_op live_after fst snd andb negb];
    cbv zeta; case_matches; reflexivity.
Qed.

(* no live handle: the old spec step *)
Theorem spec_step_sess_dead a o :
  spec_step_sess (mkSSess a false) o =
  (mkSSess (fst (spec_step a o)) (live_after false o), snd (spec_step a o)).
Proof.
  rewrite spec_step_sess_eq, spec_step_factor. cbn [a_live a_st negb]. cbv zeta.
  rewrite andb_true_r. reflexivity.
Qed.

Corollary spec_step_sess_dead_st a o :
  a_st (fst (spec_step_sess (mkSSess a false) o)) = fst (spec_step a o) /\
  snd (spec_step_sess (mkSSess a false) o) = snd (spec_step a o).
Proof. rewrite spec_step_sess_dead. split; reflexivity. Qed.

(* a live handle: the bare operation, no claim *)
Theorem spec_step_sess_live a o :
  spec_step_sess (mkSSess a true) o =
  (mkSSess (fst (spec_op a o)) (live_after true o), snd (spec_op a o)).
Proof.
  rewrite spec_step_sess_eq. cbn [a_live a_st negb]. cbv zeta.
  rewrite andb_false_r. reflexivity.
Qed.

Lemma spec_step_sess_flag x o :
  a_live (fst (spec_step_sess x o)) = live_after (a_live x) o.
Proof. rewrite spec_step_sess_eq. reflexivity. Qed.

(* when nothing is pending the claim is the identity, and the handle flag
   is invisible: the two specs agree *)
Lemma s_claim_settled a : snrec a <= scap a -> s_claim a = a.
Proof.
  destruct a as [c m n]. unfold s_claim. cbn [scap snrec sents]. intros H.
  replace (N.max c n) with c by lia. reflexivity.
Qed.

Theorem spec_step_sess_settled x o :
  snrec (a_st x) <= scap (a_st x) ->
  a_st (fst (spec_step_sess x o)) = fst (spec_step (a_st x) o) /\
  snd (spec_step_sess x o) = snd (spec_step (a_st x) o).
Proof.
  intros Hs. rewrite spec_step_sess_eq, spec_step_factor. cbv zeta.
  rewrite (s_claim_settled _ Hs). cbn [a_st fst snd].
  destruct (needs_mut o && negb (a_live x)), (needs_mut o); split; reflexivity.
Qed.

Fixpoint final_s_sess (x : ssess) (ops : list op) : ssess :=
  match ops with
  | [] => x
  | o :: r => final_s_sess (fst (spec_step_sess x o)) r
  end.

Lemma run_s_sess_length ops : forall x, length (run_s_sess x ops) = length ops.
Proof.
  induction ops as [|o r IH]; intros x; cbn [run_s_sess length]; [reflexivity|].
  destruct (spec_step_sess x o) as [x' y]. cbn [length]. rewrite IH. reflexivity.
Qed.

(* on a buffer of fixed size with nothing pending the session spec is the
   old spec, whatever the handle flag; in general they differ (see
   [sess_differs_from_reopen] below) *)
Theorem run_s_sess_fixed ops : forall x,
  Forall no_ext ops -> snrec (a_st x) <= scap (a_st x) ->
  run_s_sess x ops = run_s (a_st x) ops.
Proof.
  induction ops as [|o r IH]; intros x Hne Hs; cbn [run_s_sess run_s]; [reflexivity|].
  inversion Hne as [|? ? Ho Hr]; subst.
  destruct (spec_step_sess_settled x o Hs) as [E1 E2].
  destruct (final_s_fixed (o :: nil) (a_st x) (Forall_cons _ Ho (Forall_nil _)) Hs) as [F1 F2].
  cbn [final_s] in F1, F2.
  destruct (spec_step_sess x o) as [x' y]. destruct (spec_step (a_st x) o) as [a' y'].
  cbn [fst snd] in *. subst y' a'. rewrite (IH x' Hr) by lia. reflexivity.
Qed.

(* ------------------------------------------------------------------ *)
(* 2. the step theorem with an explicit handle                         *)

Ltac tl :=
  split; [assumption || reflexivity|];
  split; [intros _; assumption || reflexivity|intros ? ?; discriminate].
Ltac fin H :=
  split; [reflexivity|]; split; [exact H|]; split; [reflexivity|]; tl.

Section Sess.
Variable bits : N.
Local Notation R := (master_remove_spec_holds bits).

Lemma claim_live s : claim bits (mkSess s true) = Ok s.
Proof. reflexivity. Qed.

Lemma claim_dead s : claim bits (mkSess s false) = open_mut bits s.
Proof. reflexivity. Qed.

(* no live handle: [step_sess] is [step_c], plus the flag *)
Theorem step_sess_dead s o :
  step_sess bits (mkSess s false) o =
  '(s', r, log) <- step_c bits s o ;; Ok (mkSess s' (live_after false o), r, log).
Proof.
  destruct o as [k v|k|k|k v|k|k| | | | | |n| | ];
    cbn [step_sess step_c claim c_live c_st live_after needs_mut];
    try (destruct (open_mut bits s) as [s1| |]; cbn [bind]; [|reflexivity..]);
    try reflexivity.
  - destruct (insert bits s1 k v) as [[[s2 r] lg]| |]; reflexivity.
  - destruct (remove bits s1 k) as [[[s2 r] lg]| |]; reflexivity.
  - destruct (get s k) as [[r lg]| |]; reflexivity.
  - destruct (get_mut_set s1 k v) as [[[s2 r] lg]| |]; reflexivity.
  - destruct (get s1 k) as [[r lg]| |]; reflexivity.
  - destruct (contains s k) as [[r lg]| |]; reflexivity.
  - destruct (lowest s) as [r| |]; reflexivity.
Qed.

(* a live handle: the bare operations, from the invariant alone.  No size
   condition and no "settled" premise: [cap s < length (nodes s)] is allowed
   (a buffer larger than the capacity it was initialised with). *)
Theorem step_sess_live_refines s t fr term o :
  Inv bits s t fr term -> okbits bits -> o <> OOpenMut ->
  exists s' out log t' fr' term',
    step_sess bits (mkSess s true) o = Ok (mkSess s' (live_after true o), out, log) /\
    Inv bits s' t' fr' term' /\
    (abs_of s' t', out_abs out) = spec_op (abs_of s t) o /\
    cap s' = cap s /\
    (no_ext o -> length (nodes s') = length (nodes s)) /\
    (forall n, o = OExt n -> s' = ext_nodes s n).
Proof.
  intros H Hb Hno.
  destruct o as [k v|k|k|k v|k|k| | | | | |n| | ]; [..|contradiction Hno; reflexivity|];
    cbn [step_sess claim c_live c_st live_after needs_mut bind].
  - (* OInsert *)
    destruct (insert_spec bits s t fr term k v H Hb) as (Hpres & Hfullc & Habs).
    pose proof (t_find_inorder t k (inv_bst _ _ _ _ _ H)) as Hfi.
    cbn [spec_op]. unfold s_len. cbn [abs_of sents scap snrec].
    destruct (t_find t k) as [[i v0]|] eqn:Ef; cbn [option_map snd] in Hfi; rewrite <- Hfi.
    + rewrite Hpres by discriminate. cbn [bind].
      exists s, (RSlot None), (t_log t k), t, fr, term.
      fin H.
    + destruct (header_inv_spec _ _ _ _ _ H) as (_ & _ & Hif & _). rewrite <- Hif.
      destruct (is_full s) eqn:Efull.
      * rewrite Hfullc by reflexivity. cbn [bind].
        exists s, (RSlot None), (t_log t k), t, fr, term.
        fin H.
      * destruct (Habs eq_refl eq_refl)
          as (s2 & new & fr2 & term2 & Hins & H2 & _ & Hcap2 & Hlen2 & _).
        rewrite Hins. cbn [bind].
        exists s2, (RSlot (Some new)), (t_log t k), (t_insert t new k v), fr2, term2.
        split; [reflexivity|]. split; [exact H2|]. split; [|tl].
        unfold abs_of. cbn [out_abs].
        rewrite (t_insert_inorder t new k v (inv_bst _ _ _ _ _ H)), Hcap2, Hlen2. reflexivity.
  - (* ORemove *)
    pose proof (inv_bst _ _ _ _ _ H) as Hbst.
    pose proof (t_find_inorder t k Hbst) as Hfi.
    destruct (R s t fr term k H Hb) as [Habsent Hpresent].
    cbn [spec_op abs_of sents scap snrec].
    destruct (t_find t k) as [[slot v]|] eqn:Ef; cbn [option_map snd] in Hfi; rewrite <- Hfi.
    + destruct (Hpresent slot v eq_refl) as (s2 & fr2 & term2 & Hrm & H2 & _ & Hcap2 & Hlen2).
      rewrite Hrm. cbn [bind].
      exists s2, (RVal (Some v)), (t_log t k), (t_remove t k), fr2, term2.
      split; [reflexivity|]. split; [exact H2|]. split; [|tl].
      destruct (t_remove_correct t k slot v (inv_hok _ _ _ _ _ H) (inv_avl _ _ _ _ _ H) Hbst Ef)
        as (_ & _ & _ & _ & _ & Hio & _).
      unfold abs_of. cbn [out_abs]. rewrite Hio, Hcap2, Hlen2. reflexivity.
    + rewrite (Habsent eq_refl). cbn [bind].
      exists s, (RVal None), (t_log t k), t, fr, term.
      split; [reflexivity|]. split; [exact H|]. split; [|tl].
      unfold abs_of. cbn [out_abs scap sents snrec].
      rewrite sm_remove_absent by (symmetry; exact Hfi). reflexivity.
  - (* OGet *)
    rewrite (get_inv_spec _ _ _ _ _ k H). cbn [bind spec_op abs_of sents].
    exists s, (RVal (sm_find (inorder t) k)), (t_log t k), t, fr, term.
    fin H.
  - (* OGetMut *)
    destruct (get_mut_inv_spec bits s t fr term k v H)
      as (s2 & Hget & H2 & Hio & _ & _ & _ & Hcap2 & _ & _ & Hlen2).
    rewrite Hget. cbn [bind spec_op abs_of sents scap snrec].
    exists s2, (RVal (sm_find (inorder t) k)), (t_log t k), (t_update t k v), fr, term.
    split; [reflexivity|]. split; [exact H2|]. split; [|tl].
    unfold abs_of. cbn [out_abs]. rewrite Hio, Hcap2, Hlen2. reflexivity.
  - (* OGetMut0 *)
    rewrite (get_inv_spec _ _ _ _ _ k H). cbn [bind spec_op abs_of sents].
    exists s, (RVal (sm_find (inorder t) k)), (t_log t k), t, fr, term.
    fin H.
  - (* OContains *)
    rewrite (contains_inv_spec _ _ _ _ _ k H). cbn [bind spec_op abs_of sents].
    eexists s, _, _, t, fr, term. fin H.
  - (* OLowest *)
    rewrite (lowest_inv_spec _ _ _ _ _ H). cbn [bind spec_op abs_of sents].
    eexists s, _, _, t, fr, term. fin H.
  - (* OLen *)
    destruct (header_inv_spec _ _ _ _ _ H) as (Hl & _).
    cbn [spec_op]. unfold s_len. cbn [abs_of sents]. rewrite Hl.
    eexists s, _, _, t, fr, term. fin H.
  - (* OIsEmpty *)
    destruct (header_inv_spec _ _ _ _ _ H) as (_ & He & _).
    cbn [spec_op]. unfold s_len. cbn [abs_of sents]. rewrite He.
    eexists s, _, _, t, fr, term. fin H.
  - (* OIsFull *)
    destruct (header_inv_spec _ _ _ _ _ H) as (_ & _ & Hf & _).
    cbn [spec_op]. unfold s_len. cbn [abs_of sents scap]. rewrite Hf.
    eexists s, _, _, t, fr, term. fin H.
  - (* OCapacity *)
    cbn [spec_op abs_of scap]. unfold capacity.
    eexists s, _, _, t, fr, term. fin H.
  - (* OExt *)
    cbn [spec_op abs_of scap sents snrec].
    eexists (ext_nodes s n), _, _, t, fr, term. split; [reflexivity|].
    split; [apply ext_inv; exact H|]. split; [|split; [reflexivity|split; [intros []|]]].
    + unfold abs_of, ext_nodes. cbn [with_nodes cap nodes out_abs]. rewrite app_length, repeat_length.
      replace (N.of_nat (length (nodes s) + N.to_nat n)) with (N.of_nat (length (nodes s)) + n) by lia.
      reflexivity.
    + intros n0 Hn0. injection Hn0 as ->. reflexivity.
  - (* OOpenRo *)
    cbn [spec_op].
    exists s, RUnit, [], t, fr, term. fin H.
Qed.


(* the step theorem, every operation, both values of the handle flag *)
Theorem step_sess_refines s t fr term live o :
  Inv bits s t fr term -> okbits bits -> sizecond bits s ->
  (forall n, o = OExt n -> sizecond bits (ext_nodes s n)) ->
  exists s' live' out log t' fr' term',
    step_sess bits (mkSess s live) o = Ok (mkSess s' live', out, log) /\
    Inv bits s' t' fr' term' /\
    (mkSSess (abs_of s' t') live', out_abs out) = spec_step_sess (mkSSess (abs_of s t) live) o /\
    sizecond bits s'.
Proof.
  intros H Hb Hsc Hext. destruct live.
  - (* a live handle *)
    destruct o as [k v|k|k|k v|k|k| | | | | |n| | ] eqn:Eo;
      [| | | | | | | | | | | |
       (* OOpenMut: the handle is dropped and the view opened anew *)
       destruct (open_mut_inv_spec bits s t fr term H Hsc)
         as (s1 & fr1 & Hom & H1 & Hcap1 & _ & Hlen1 & _);
       exists s1, true, RUnit, [], t, fr1, term;
       cbn [step_sess c_st spec_step_sess a_st]; rewrite Hom; cbn [bind];
       rewrite <- (abs_claim s s1 t Hcap1 Hlen1);
       split; [reflexivity|]; split; [exact H1|]; split; [reflexivity|];
       apply (sizecond_mono bits s); [exact Hlen1|lia|exact Hsc]
      |]; rewrite <- Eo in *;
      (destruct (step_sess_live_refines s t fr term o H Hb)
        as (s' & out & log & t' & fr' & term' & Hstep & H' & Habs & Hcap' & Hlen' & Hex);
       [rewrite Eo; discriminate|];
       exists s', (live_after true o), out, log, t', fr', term';
       split; [exact Hstep|]; split; [exact H'|]; split;
       [rewrite spec_step_sess_live, <- Habs; reflexivity|]).
    all: try (apply (sizecond_mono bits s); [apply Hlen'; rewrite Eo; exact I|lia|exact Hsc]).
    rewrite (Hex n Eo). apply Hext. exact Eo.
  - (* no live handle: the old step theorem *)
    destruct (step_refines_final bits s t fr term o H Hb Hsc Hext)
      as (s' & out & log & t' & fr' & term' & Hstep & H' & Habs & Hsc').
    exists s', (live_after false o), out, log, t', fr', term'.
    split; [rewrite step_sess_dead, Hstep; reflexivity|]. split; [exact H'|]. split; [|exact Hsc'].
    rewrite spec_step_sess_dead, <- Habs. reflexivity.
Qed.

(* the flag that comes out is the one the spec computes *)
Lemma step_sess_flag x o x' y log :
  step_sess bits x o = Ok (x', y, log) -> c_live x' = live_after (c_live x) o.
Proof.
  destruct x as [s live]. intros Hs.
  destruct o as [k v|k|k|k v|k|k| | | | | |n| | ];
    cbn [step_sess c_st c_live live_after needs_mut] in *;
    repeat match type of Hs with
    | bind ?m _ = _ => let E := fresh "E" in destruct m as [?| |] eqn:E; cbn [bind] in Hs; try discriminate
    | (let '(_, _) := ?p in _) = _ => destruct p
    end;
    injection Hs as <- _ _; reflexivity.
Qed.

(* ------------------------------------------------------------------ *)
(* 3. histories                                                        *)

(* admissible growth, read off the spec run with a handle *)
Fixpoint growth_ok_sess (x : ssess) (ops : list op) : Prop :=
  match ops with
  | [] => True
  | o :: r => (forall n, o = OExt n -> snrec (a_st x) + n + 1 < 2 ^ bits) /\
              growth_ok_sess (fst (spec_step_sess x o)) r
  end.

Fixpoint growth_okw_sess (x : ssess) (ops : list op) : Prop :=
  match ops with
  | [] => True
  | o :: r => (forall n, o = OExt n ->
                 snrec (a_st x) + n <= scap (a_st x) \/ snrec (a_st x) + n + 1 < 2 ^ bits) /\
              growth_okw_sess (fst (spec_step_sess x o)) r
  end.

Lemma growth_ok_sess_weak ops : forall x, growth_ok_sess x ops -> growth_okw_sess x ops.
Proof.
  induction ops as [|o r IH]; intros x; cbn [growth_ok_sess growth_okw_sess]; [auto|].
  intros [H1 H2]. split; [|apply IH; exact H2]. intros n Hn. right. apply H1. exact Hn.
Qed.

Lemma growth_ok_sess_no_ext ops : forall x, Forall no_ext ops -> growth_ok_sess x ops.
Proof.
  induction ops as [|o r IH]; intros x Hf; cbn [growth_ok_sess]; [exact I|].
  inversion Hf as [|? ? Ho Hr]; subst. split; [|apply IH; exact Hr].
  intros n ->. destruct Ho.
Qed.

Lemma step_ext_cond_sess s t live o :
  (forall n, o = OExt n ->
     snrec (a_st (mkSSess (abs_of s t) live)) + n <= scap (a_st (mkSSess (abs_of s t) live)) \/
     snrec (a_st (mkSSess (abs_of s t) live)) + n + 1 < 2 ^ bits) ->
  forall n, o = OExt n -> sizecond bits (ext_nodes s n).
Proof. intros Hc n Hn. apply sizecond_ext. exact (Hc n Hn). Qed.

Theorem run_sess_refines_from ops : forall s t fr term live,
  Inv bits s t fr term -> okbits bits -> sizecond bits s ->
  growth_okw_sess (mkSSess (abs_of s t) live) ops ->
  exists outs, run_sess bits (mkSess s live) ops = map Ok outs /\
               map out_abs outs = run_s_sess (mkSSess (abs_of s t) live) ops.
Proof.
  induction ops as [|o r IH]; intros s t fr term live H Hb Hsc Hok.
  - exists []. split; reflexivity.
  - cbn [growth_okw_sess] in Hok. destruct Hok as (Hg & Hrest).
    destruct (step_sess_refines s t fr term live o H Hb Hsc (step_ext_cond_sess s t live o Hg))
      as (s' & live' & out & log & t' & fr' & term' & Hstep & H' & Habs & Hsc').
    rewrite <- Habs in Hrest. cbn [fst] in Hrest.
    destruct (IH s' t' fr' term' live' H' Hb Hsc' Hrest) as (outs & Hrc & Hrs).
    exists (out :: outs). cbn [run_sess run_s_sess map]. rewrite Hstep, <- Habs, Hrc, Hrs.
    split; reflexivity.
Qed.

(* the same, following the state and the handle *)
Theorem final_sess_refines_from ops : forall s t fr term live,
  Inv bits s t fr term -> okbits bits -> sizecond bits s ->
  growth_okw_sess (mkSSess (abs_of s t) live) ops ->
  exists s' live' t' fr' term',
    final_sess bits (mkSess s live) ops = Ok (mkSess s' live') /\
    Inv bits s' t' fr' term' /\ sizecond bits s' /\
    mkSSess (abs_of s' t') live' = final_s_sess (mkSSess (abs_of s t) live) ops.
Proof.
  induction ops as [|o r IH]; intros s t fr term live H Hb Hsc Hok.
  - exists s, live, t, fr, term. cbn [final_sess final_s_sess]. auto.
  - cbn [growth_okw_sess] in Hok. destruct Hok as (Hg & Hrest).
    destruct (step_sess_refines s t fr term live o H Hb Hsc (step_ext_cond_sess s t live o Hg))
      as (s' & live' & out & log & t' & fr' & term' & Hstep & H' & Habs & Hsc').
    rewrite <- Habs in Hrest. cbn [fst] in Hrest.
    destruct (IH s' t' fr' term' live' H' Hb Hsc' Hrest)
      as (s2 & live2 & t2 & fr2 & term2 & Hf & H2 & Hsc2 & Ha2).
    exists s2, live2, t2, fr2, term2. cbn [final_sess final_s_sess]. rewrite Hstep, <- Habs.
    cbn [bind fst]. auto.
Qed.

(* no Panic / Fuel outcome, one outcome per operation *)
Theorem run_sess_total_from s t fr term live ops :
  Inv bits s t fr term -> okbits bits -> sizecond bits s ->
  growth_okw_sess (mkSSess (abs_of s t) live) ops ->
  Forall res_ok (run_sess bits (mkSess s live) ops) /\
  length (run_sess bits (mkSess s live) ops) = length ops.
Proof.
  intros H Hb Hsc Hg.
  destruct (run_sess_refines_from ops s t fr term live H Hb Hsc Hg) as (outs & Hr & Ha).
  rewrite Hr. split; [apply Forall_map_Ok|].
  rewrite map_length, <- (map_length out_abs), Ha. apply run_s_sess_length.
Qed.

(* ---- initialised buffers: [capacity <= nrec] ---- *)

Theorem inv_init_gen capacity nrec :
  capacity <= nrec -> capacity < 2 ^ bits -> (bits <> 8 -> capacity + 1 < 2 ^ bits) ->
  Inv bits (init_c capacity nrec) E [] 1 /\
  abs_of (init_c capacity nrec) E = mkSS capacity [] nrec.
Proof.
  intros H0 H1 H2. split.
  - constructor; cbn [rep idx hok avl bst idxs]; auto.
    apply alloc_init; [exact H0|exact H1|exact H2].
  - unfold abs_of, init_c, initialize. cbn [cap nodes inorder].
    rewrite repeat_length, N2Nat.id. reflexivity.
Qed.

Lemma init_sizecond_gen capacity nrec :
  sizecond bits (init_c capacity nrec) <-> (nrec <= capacity \/ nrec + 1 < 2 ^ bits).
Proof.
  unfold sizecond, init_c, initialize. cbn [nodes cap]. rewrite repeat_length, N2Nat.id. reflexivity.
Qed.

(* general form: the record count may be anything the size condition allows
   (this includes capacity = nrec = 255 at width 8) *)
Theorem run_sess_refines_w capacity nrec keep ops :
  okbits bits -> capacity <= nrec -> capacity < 2 ^ bits -> (bits <> 8 -> capacity + 1 < 2 ^ bits) ->
  (nrec <= capacity \/ nrec + 1 < 2 ^ bits) ->
  growth_okw_sess (spec_init_sess capacity nrec keep) ops ->
  exists outs, run_sess bits (init_sess capacity nrec keep) ops = map Ok outs /\
               map out_abs outs = run_s_sess (spec_init_sess capacity nrec keep) ops.
Proof.
  intros Hb H0 H1 H2 H3 Hg. destruct (inv_init_gen capacity nrec H0 H1 H2) as [Hinv Habs].
  unfold spec_init_sess, init_sess in *. rewrite <- Habs in *.
  exact (run_sess_refines_from ops _ _ _ _ keep Hinv Hb (proj2 (init_sizecond_gen capacity nrec) H3) Hg).
Qed.

Theorem final_sess_refines_w capacity nrec keep ops :
  okbits bits -> capacity <= nrec -> capacity < 2 ^ bits -> (bits <> 8 -> capacity + 1 < 2 ^ bits) ->
  (nrec <= capacity \/ nrec + 1 < 2 ^ bits) ->
  growth_okw_sess (spec_init_sess capacity nrec keep) ops ->
  exists s live t fr term,
    final_sess bits (init_sess capacity nrec keep) ops = Ok (mkSess s live) /\
    Inv bits s t fr term /\ sizecond bits s /\
    mkSSess (abs_of s t) live = final_s_sess (spec_init_sess capacity nrec keep) ops.
Proof.
  intros Hb H0 H1 H2 H3 Hg. destruct (inv_init_gen capacity nrec H0 H1 H2) as [Hinv Habs].
  unfold spec_init_sess, init_sess in *. rewrite <- Habs in *.
  exact (final_sess_refines_from ops _ _ _ _ keep Hinv Hb (proj2 (init_sizecond_gen capacity nrec) H3) Hg).
Qed.

(* the form asked for: [capacity <= nrec], [nrec + 1 < 2 ^ bits] *)
Theorem run_sess_refines capacity nrec keep ops :
  okbits bits -> capacity <= nrec -> nrec + 1 < 2 ^ bits ->
  growth_okw_sess (spec_init_sess capacity nrec keep) ops ->
  exists outs, run_sess bits (init_sess capacity nrec keep) ops = map Ok outs /\
               map out_abs outs = run_s_sess (spec_init_sess capacity nrec keep) ops.
Proof.
  intros Hb H0 H1 Hg. apply run_sess_refines_w; auto; try lia.
Qed.

Theorem final_sess_refines capacity nrec keep ops :
  okbits bits -> capacity <= nrec -> nrec + 1 < 2 ^ bits ->
  growth_okw_sess (spec_init_sess capacity nrec keep) ops ->
  exists s live t fr term,
    final_sess bits (init_sess capacity nrec keep) ops = Ok (mkSess s live) /\
    Inv bits s t fr term /\ sizecond bits s /\
    mkSSess (abs_of s t) live = final_s_sess (spec_init_sess capacity nrec keep) ops.
Proof.
  intros Hb H0 H1 Hg. apply final_sess_refines_w; auto; try lia.
Qed.

Theorem run_sess_total capacity nrec keep ops :
  okbits bits -> capacity <= nrec -> nrec + 1 < 2 ^ bits ->
  growth_okw_sess (spec_init_sess capacity nrec keep) ops ->
  Forall res_ok (run_sess bits (init_sess capacity nrec keep) ops) /\
  length (run_sess bits (init_sess capacity nrec keep) ops) = length ops.
Proof.
  intros Hb H0 H1 Hg.
  destruct (run_sess_refines capacity nrec keep ops Hb H0 H1 Hg) as (outs & Hr & Ha).
  rewrite Hr. split; [apply Forall_map_Ok|].
  rewrite map_length, <- (map_length out_abs), Ha. apply run_s_sess_length.
Qed.

(* histories on a buffer of fixed size *)
Corollary run_sess_refines_fixed capacity nrec keep ops :
  okbits bits -> capacity <= nrec -> nrec + 1 < 2 ^ bits -> Forall no_ext ops ->
  exists outs, run_sess bits (init_sess capacity nrec keep) ops = map Ok outs /\
               map out_abs outs = run_s_sess (spec_init_sess capacity nrec keep) ops.
Proof.
  intros Hb H0 H1 Hf. apply run_sess_refines; auto.
  apply growth_ok_sess_weak, growth_ok_sess_no_ext. exact Hf.
Qed.

Corollary run_sess_total_fixed capacity nrec keep ops :
  okbits bits -> capacity <= nrec -> nrec + 1 < 2 ^ bits -> Forall no_ext ops ->
  Forall res_ok (run_sess bits (init_sess capacity nrec keep) ops) /\
  length (run_sess bits (init_sess capacity nrec keep) ops) = length ops.
Proof.
  intros Hb H0 H1 Hf. apply run_sess_total; auto.
  apply growth_ok_sess_weak, growth_ok_sess_no_ext. exact Hf.
Qed.

(* ------------------------------------------------------------------ *)
(* 4. a long-lived handle                                              *)

(* (a) refused operations and queries hand back the very same state; no
   "settled" premise: the buffer may be larger than the capacity *)
Theorem sess_refused_same_state s t fr term o x' y log :
  Inv bits s t fr term -> okbits bits ->
  step_sess bits (mkSess s true) o = Ok (x', y, log) ->
  quiet o y -> o <> OOpenMut -> c_st x' = s.
Proof.
  intros H Hb Hstep Hq Hno.
  destruct o as [k v|k|k|k v|k|k| | | | | |n| | ];
    cbn [step_sess claim c_live c_st bind] in Hstep; cbn [quiet] in Hq.
  - destruct (insert bits s k v) as [[[s2 r] lg]| |] eqn:Ei; cbn [bind] in Hstep; try discriminate.
    injection Hstep as <- <- _. destruct r as [i|]; [contradiction|]. cbn [c_st].
    exact (insert_refused_same bits s t fr term k v s2 lg H Hb Ei).
  - destruct (remove bits s k) as [[[s2 r] lg]| |] eqn:Er; cbn [bind] in Hstep; try discriminate.
    injection Hstep as <- <- _. destruct r as [i|]; [contradiction|]. cbn [c_st].
    exact (remove_absent_same_final bits s t fr term k s2 lg H Hb Er).
  - destruct (get s k) as [[r lg]| |]; cbn [bind] in Hstep; try discriminate.
    injection Hstep as <- _ _. reflexivity.
  - destruct (get_mut_set s k v) as [[[s2 r] lg]| |] eqn:Eg; cbn [bind] in Hstep; try discriminate.
    injection Hstep as <- <- _. destruct r as [i|]; [contradiction|]. cbn [c_st].
    exact (get_mut_absent_same bits s t fr term k v s2 lg H Eg).
  - destruct (get s k) as [[r lg]| |]; cbn [bind] in Hstep; try discriminate.
    injection Hstep as <- _ _. reflexivity.
  - destruct (contains s k) as [[r lg]| |]; cbn [bind] in Hstep; try discriminate.
    injection Hstep as <- _ _. reflexivity.
  - destruct (lowest s) as [r| |]; cbn [bind] in Hstep; try discriminate.
    injection Hstep as <- _ _. reflexivity.
  - injection Hstep as <- _ _. reflexivity.
  - injection Hstep as <- _ _. reflexivity.
  - injection Hstep as <- _ _. reflexivity.
  - injection Hstep as <- _ _. reflexivity.
  - destruct Hq.
  - contradiction Hno. reflexivity.
  - injection Hstep as <- _ _. reflexivity.
Qed.

(* byte level *)
Theorem sess_refused_same_bytes wb lay s t fr term o x' y log :
  Inv bits s t fr term -> okbits bits ->
  step_sess bits (mkSess s true) o = Ok (x', y, log) ->
  quiet o y -> o <> OOpenMut -> encode wb lay (c_st x') = encode wb lay s.
Proof.
  intros H Hb Hstep Hq Hno. apply same_bytes.
  exact (sess_refused_same_state s t fr term o x' y log H Hb Hstep Hq Hno).
Qed.

(* the refusals, read off the spec: a present key, or a full tree (the
   length has reached the capacity WORD, whatever the buffer could hold) *)
Theorem sess_insert_refused_same s t fr term k v :
  Inv bits s t fr term -> okbits bits ->
  sm_find (inorder t) k <> None \/ cap s <= N.of_nat (length (inorder t)) ->
  step_sess bits (mkSess s true) (OInsert k v) = Ok (mkSess s true, RSlot None, t_log t k).
Proof.
  intros H Hb Hc. cbn [step_sess claim c_live c_st bind].
  destruct (insert_spec bits s t fr term k v H Hb) as (Hpres & Hfullc & _).
  pose proof (t_find_inorder t k (inv_bst _ _ _ _ _ H)) as Hfi.
  destruct (header_inv_spec _ _ _ _ _ H) as (_ & _ & Hif & _).
  destruct (t_find t k) as [[i v0]|] eqn:Ef.
  - rewrite Hpres by discriminate. reflexivity.
  - cbn [option_map] in Hfi. destruct Hc as [Hc|Hc]; [congruence|].
    rewrite Hfullc; [reflexivity|reflexivity|]. rewrite Hif. apply N.leb_le. exact Hc.
Qed.

Theorem sess_remove_absent_same s t fr term k :
  Inv bits s t fr term -> okbits bits -> sm_find (inorder t) k = None ->
  step_sess bits (mkSess s true) (ORemove k) = Ok (mkSess s true, RVal None, t_log t k).
Proof.
  intros H Hb Hc. cbn [step_sess claim c_live c_st bind].
  pose proof (t_find_inorder t k (inv_bst _ _ _ _ _ H)) as Hfi. rewrite Hc in Hfi.
  destruct (t_find t k) as [[i v0]|] eqn:Ef; [discriminate|].
  destruct (R s t fr term k H Hb) as [Habsent _]. rewrite (Habsent Ef). reflexivity.
Qed.

(* (b) while the handle is live the capacity word and the record count do
   not change: no spare record is adopted inside insert / remove / get_mut *)
Theorem sess_capacity_stable s t fr term o x' y log :
  Inv bits s t fr term -> okbits bits ->
  step_sess bits (mkSess s true) o = Ok (x', y, log) -> o <> OOpenMut ->
  cap (c_st x') = cap s /\ (no_ext o -> length (nodes (c_st x')) = length (nodes s)).
Proof.
  intros H Hb Hstep Hno.
  destruct (step_sess_live_refines s t fr term o H Hb Hno)
    as (s' & out & log' & t' & fr' & term' & Hstep' & _ & _ & Hcap & Hlen & _).
  rewrite Hstep in Hstep'. injection Hstep' as -> _ _. cbn [c_st]. auto.
Qed.

(* the operations that keep the handle *)
Definition keeps_handle (o : op) : Prop :=
  match o with OExt _ | OOpenMut | OOpenRo => False | _ => True end.

Theorem sess_capacity_stable_run ops : forall s t fr term,
  Inv bits s t fr term -> okbits bits -> Forall keeps_handle ops ->
  exists s' t' fr' term',
    final_sess bits (mkSess s true) ops = Ok (mkSess s' true) /\
    Inv bits s' t' fr' term' /\
    cap s' = cap s /\ length (nodes s') = length (nodes s) /\
    Forall res_ok (run_sess bits (mkSess s true) ops) /\
    length (run_sess bits (mkSess s true) ops) = length ops.
Proof.
  induction ops as [|o r IH]; intros s t fr term H Hb Hk.
  - exists s, t, fr, term. cbn [final_sess run_sess length]. auto 10.
  - inversion Hk as [|? ? Ho Hr]; subst.
    destruct (step_sess_live_refines s t fr term o H Hb)
      as (s1 & out & log & t1 & fr1 & term1 & Hstep & H1 & _ & Hcap1 & Hlen1 & _).
    { intros ->. destruct Ho. }
    assert (Hla : live_after true o = true) by (destruct o; cbn [keeps_handle] in Ho; try contradiction; reflexivity).
    assert (Hne : no_ext o) by (destruct o; cbn [keeps_handle] in Ho; try contradiction; exact I).
    rewrite Hla in Hstep.
    destruct (IH s1 t1 fr1 term1 H1 Hb Hr) as (s2 & t2 & fr2 & term2 & Hf & H2 & Hcap2 & Hlen2 & Hok & Hl).
    exists s2, t2, fr2, term2. cbn [final_sess run_sess]. rewrite Hstep. cbn [bind length].
    split; [exact Hf|]. split; [exact H2|]. split; [lia|]. split; [rewrite Hlen2; apply Hlen1; exact Hne|].
    split; [constructor; [exists out; reflexivity|exact Hok]|]. rewrite Hl. reflexivity.
Qed.

(* ... in every state reached by a session on an initialised buffer *)
Theorem sess_refused_same_reachable capacity nrec keep ops x o x' y log :
  okbits bits -> capacity <= nrec -> nrec + 1 < 2 ^ bits ->
  growth_okw_sess (spec_init_sess capacity nrec keep) ops ->
  final_sess bits (init_sess capacity nrec keep) ops = Ok x -> c_live x = true ->
  step_sess bits x o = Ok (x', y, log) -> quiet o y -> o <> OOpenMut ->
  c_st x' = c_st x /\ cap (c_st x') = cap (c_st x).
Proof.
  intros Hb H0 H1 Hg Hf Hl Hstep Hq Hno.
  destruct (final_sess_refines capacity nrec keep ops Hb H0 H1 Hg)
    as (s & live & t & fr & term & Hf' & H & _ & _).
  rewrite Hf in Hf'. injection Hf' as ->. cbn [c_live] in Hl. subst live. cbn [c_st].
  rewrite (sess_refused_same_state s t fr term o x' y log H Hb Hstep Hq Hno). auto.
Qed.

End Sess.

(* ------------------------------------------------------------------ *)
(* the two widths                                                      *)

Theorem run_sess_refines_u8 capacity nrec keep ops :
  capacity <= nrec -> nrec <= 254 -> growth_okw_sess 8 (spec_init_sess capacity nrec keep) ops ->
  exists outs, run_sess 8 (init_sess capacity nrec keep) ops = map Ok outs /\
               map out_abs outs = run_s_sess (spec_init_sess capacity nrec keep) ops.
Proof.
  intros H0 H1 Hg. apply run_sess_refines; auto; [left; reflexivity|]. change (2 ^ 8) with 256. lia.
Qed.

Theorem run_sess_refines_u32 capacity nrec keep ops :
  capacity <= nrec -> nrec + 1 < 2 ^ 32 -> growth_okw_sess 32 (spec_init_sess capacity nrec keep) ops ->
  exists outs, run_sess 32 (init_sess capacity nrec keep) ops = map Ok outs /\
               map out_abs outs = run_s_sess (spec_init_sess capacity nrec keep) ops.
Proof. intros H0 H1 Hg. apply run_sess_refines; auto. right. reflexivity. Qed.

Theorem run_sess_total_u8 capacity nrec keep ops :
  capacity <= nrec -> nrec <= 254 -> growth_okw_sess 8 (spec_init_sess capacity nrec keep) ops ->
  Forall res_ok (run_sess 8 (init_sess capacity nrec keep) ops) /\
  length (run_sess 8 (init_sess capacity nrec keep) ops) = length ops.
Proof.
  intros H0 H1 Hg. apply run_sess_total; auto; [left; reflexivity|]. change (2 ^ 8) with 256. lia.
Qed.

Theorem run_sess_total_u32 capacity nrec keep ops :
  capacity <= nrec -> nrec + 1 < 2 ^ 32 -> growth_okw_sess 32 (spec_init_sess capacity nrec keep) ops ->
  Forall res_ok (run_sess 32 (init_sess capacity nrec keep) ops) /\
  length (run_sess 32 (init_sess capacity nrec keep) ops) = length ops.
Proof. intros H0 H1 Hg. apply run_sess_total; auto. right. reflexivity. Qed.

Theorem final_sess_refines_u8 capacity nrec keep ops :
  capacity <= nrec -> nrec <= 254 -> growth_okw_sess 8 (spec_init_sess capacity nrec keep) ops ->
  exists s live t fr term,
    final_sess 8 (init_sess capacity nrec keep) ops = Ok (mkSess s live) /\
    Inv 8 s t fr term /\ sizecond 8 s /\
    mkSSess (abs_of s t) live = final_s_sess (spec_init_sess capacity nrec keep) ops.
Proof.
  intros H0 H1 Hg. apply final_sess_refines; auto; [left; reflexivity|]. change (2 ^ 8) with 256. lia.
Qed.

Theorem final_sess_refines_u32 capacity nrec keep ops :
  capacity <= nrec -> nrec + 1 < 2 ^ 32 -> growth_okw_sess 32 (spec_init_sess capacity nrec keep) ops ->
  exists s live t fr term,
    final_sess 32 (init_sess capacity nrec keep) ops = Ok (mkSess s live) /\
    Inv 32 s t fr term /\ sizecond 32 s /\
    mkSSess (abs_of s t) live = final_s_sess (spec_init_sess capacity nrec keep) ops.
Proof. intros H0 H1 Hg. apply final_sess_refines; auto. right. reflexivity. Qed.

(* the u8 tree over all 255 records (capacity = nrec = 255), any handle flag *)
Theorem run_sess_refines_u8_255 keep ops :
  Forall no_ext ops ->
  exists outs, run_sess 8 (init_sess 255 255 keep) ops = map Ok outs /\
               map out_abs outs = run_s_sess (spec_init_sess 255 255 keep) ops.
Proof.
  intros Hf. apply run_sess_refines_w; [left; reflexivity|lia|reflexivity|congruence|left; lia|].
  apply growth_ok_sess_weak, growth_ok_sess_no_ext. exact Hf.
Qed.

(* ------------------------------------------------------------------ *)
(* non-vacuity                                                         *)

(* capacity 2 over a buffer of 4 records, the initialising handle kept: the
   third insert is refused as full; after [OOpenMut] the capacity is 4 and
   the insert succeeds *)
Definition sess_ops : list op :=
  [OInsert 1 10; OInsert 2 20; OInsert 3 30; OCapacity; OOpenMut; OInsert 3 30; OCapacity; OLen]%Z.

Example sess_keep_concrete :
  run_sess 32 (init_sess 2 4 true) sess_ops =
  map Ok [RSlot (Some 1); RSlot (Some 2); RSlot None; RNum 2; RUnit; RSlot (Some 3); RNum 4; RNum 3].
Proof. vm_compute. reflexivity. Qed.

Example sess_keep_spec :
  run_s_sess (spec_init_sess 2 4 true) sess_ops =
  map out_abs [RSlot (Some 1); RSlot (Some 2); RSlot None; RNum 2; RUnit; RSlot (Some 3); RNum 4; RNum 3].
Proof. vm_compute. reflexivity. Qed.

Example sess_keep_agrees :
  exists outs, run_sess 32 (init_sess 2 4 true) sess_ops = map Ok outs /\
               map out_abs outs = run_s_sess (spec_init_sess 2 4 true) sess_ops.
Proof.
  exists [RSlot (Some 1); RSlot (Some 2); RSlot None; RNum 2; RUnit; RSlot (Some 3); RNum 4; RNum 3].
  split; vm_compute; reflexivity.
Qed.

(* the same through the theorem *)
Example sess_keep_by_theorem :
  exists outs, run_sess 32 (init_sess 2 4 true) sess_ops = map Ok outs /\
               map out_abs outs = run_s_sess (spec_init_sess 2 4 true) sess_ops.
Proof.
  apply run_sess_refines_u32; [lia|reflexivity|].
  apply growth_ok_sess_weak, growth_ok_sess_no_ext. repeat constructor.
Qed.

(* the same operations without the handle (the view is re-opened by the
   first insert): the spare records are adopted at once and the third insert
   succeeds, so [run_sess] with a kept handle is NOT [run_c] *)
Example sess_differs_from_reopen :
  run_sess 32 (init_sess 2 4 false) sess_ops =
  map Ok [RSlot (Some 1); RSlot (Some 2); RSlot (Some 3); RNum 4; RUnit; RSlot None; RNum 4; RNum 3] /\
  run_c 32 (init_c 2 4) sess_ops =
  map Ok [RSlot (Some 1); RSlot (Some 2); RSlot (Some 3); RNum 4; RUnit; RSlot None; RNum 4; RNum 3].
Proof. split; vm_compute; reflexivity. Qed.

(* refusal with a live handle on a buffer larger than the capacity: the
   state after the refused insert is the state before it *)
Example sess_full_refusal_same_state :
  (x <- final_sess 32 (init_sess 2 4 true) [OInsert 1 10; OInsert 2 20]%Z ;;
   '(x', y, _) <- step_sess 32 x (OInsert 3 30)%Z ;;
   Ok (y, c_st x, c_st x', length (nodes (c_st x)), cap (c_st x))) =
  (x <- final_sess 32 (init_sess 2 4 true) [OInsert 1 10; OInsert 2 20]%Z ;;
   Ok (RSlot None, c_st x, c_st x, 4%nat, 2)).
Proof. vm_compute. reflexivity. Qed.

(* u8 *)
Example sess_keep_u8 :
  run_sess 8 (init_sess 2 4 true) sess_ops =
  map Ok [RSlot (Some 1); RSlot (Some 2); RSlot None; RNum 2; RUnit; RSlot (Some 3); RNum 4; RNum 3].
Proof. vm_compute. reflexivity. Qed.

Print Assumptions spec_step_factor.
Print Assumptions spec_step_sess_eq.
Print Assumptions spec_step_sess_dead.
Print Assumptions spec_step_sess_live.
Print Assumptions spec_step_sess_settled.
Print Assumptions run_s_sess_fixed.
Print Assumptions step_sess_dead.
Print Assumptions step_sess_live_refines.
Print Assumptions step_sess_refines.
Print Assumptions run_sess_refines_from.
Print Assumptions final_sess_refines_from.
Print Assumptions run_sess_total_from.
Print Assumptions inv_init_gen.
Print Assumptions run_sess_refines_w.
Print Assumptions final_sess_refines_w.
Print Assumptions run_sess_refines.
Print Assumptions final_sess_refines.
Print Assumptions run_sess_total.
Print Assumptions run_sess_refines_fixed.
Print Assumptions run_sess_total_fixed.
Print Assumptions sess_refused_same_state.
Print Assumptions sess_refused_same_bytes.
Print Assumptions sess_insert_refused_same.
Print Assumptions sess_remove_absent_same.
Print Assumptions sess_capacity_stable.
Print Assumptions sess_capacity_stable_run.
Print Assumptions sess_refused_same_reachable.
Print Assumptions run_sess_refines_u8.
Print Assumptions run_sess_refines_u32.
Print Assumptions run_sess_total_u8.
Print Assumptions run_sess_total_u32.
Print Assumptions final_sess_refines_u8.
Print Assumptions final_sess_refines_u32.
Print Assumptions run_sess_refines_u8_255.
Print Assumptions sess_keep_agrees.
Print Assumptions sess_keep_by_theorem.
