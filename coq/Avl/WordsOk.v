(* A purely syntactic invariant of the AVL states of layer C, independent of
   trees: every header word and every index/height register of every record
   is less than 2^bits, i.e. fits an index word.  It holds initially and is
   preserved by every operation (every value the code stores in a word is 0,
   an existing word, a slot index just read from a word, or the result of a
   checked addition / subtraction / truncation).  Together with the master
   invariant it yields [hdr_fits] (the bump cursor and the terminator of the
   free chain fit an index word), the premise of the theorems about the byte
   format in Avl/DocFacts.v. *)
From Coq Require Import List NArith ZArith Bool Lia ZifyBool.
From Stevia Require Import Base.Res Base.Bytes Avl.Impl Avl.Tree Avl.Rep Avl.Spec Avl.TreeInv.
From Stevia Require Import Avl.Alloc Avl.Inv Avl.LinkInsert Avl.LinkSteps.
From Stevia Require Import Avl.Format Avl.FormatFacts Avl.Balance Avl.DocFacts.
Import ListNotations.
Open Scope N_scope.

Arguments N.add : simpl never.
Arguments N.sub : simpl never.
Arguments N.mul : simpl never.
Arguments N.div : simpl never.
Arguments N.pow : simpl never.
Arguments N.modulo : simpl never.
Arguments N.eqb : simpl never.
Arguments N.ltb : simpl never.
Arguments N.leb : simpl never.
Arguments N.max : simpl never.
Arguments Z.add : simpl never.
Arguments Z.sub : simpl never.
Arguments Z.ltb : simpl never.
Arguments Z.gtb : simpl never.
Arguments Z.eqb : simpl never.
Arguments N.of_nat : simpl never.
Arguments N.to_nat : simpl never.

(* inversion of [x <- m ;; f = Ok b] with names chosen by the caller *)
Tactic Notation "binv" hyp(H) ident(a) ident(Ha) :=
  apply bind_ok in H; destruct H as (a & Ha & H).

Lemma Forall_set_nth {A} (P : A -> Prop) (l : list A) : forall n x,
  Forall P l -> P x -> Forall P (set_nth l n x).
Proof.
  induction l as [|a l IH]; intros [|n] x Hl Hx; cbn [set_nth]; auto;
    inversion Hl as [|? ? Ha Hl']; subst; constructor; auto.
Qed.

Lemma pop_last_app {A} (l l' : list A) x : pop_last l = Some (l', x) -> l = l' ++ [x].
Proof.
  unfold pop_last. destruct (rev l) as [|y r] eqn:E; [discriminate|].
  intros [= <- <-]. rewrite <- (rev_involutive l), E. reflexivity.
Qed.

Section W.
Variable bits : N.
Local Notation W := (2 ^ bits).

Definition node_w (n : node) : Prop := nl n < W /\ nr n < W /\ nh n < W.

Definition words_ok (s : st) : Prop :=
  root s < W /\ size s < W /\ cap s < W /\ flh s < W /\ seq s < W /\
  Forall (fun n => nl n < W /\ nr n < W /\ nh n < W) (nodes s).

Definition nodes_w (ns : list node) : Prop := Forall node_w ns.

(* the child component of a path element fits a word *)
Definition child_w (a : anc) : Prop := snd a < W.

Lemma Wpos : 0 < W.
Proof. assert (W <> 0) by (apply N.pow_nonzero; discriminate). lia. Qed.

Lemma words_ok_nodes s : words_ok s -> nodes_w (nodes s).
Proof. intros (_ & _ & _ & _ & _ & H). exact H. Qed.

Lemma words_ok_with_nodes s ns : words_ok s -> nodes_w ns -> words_ok (with_nodes s ns).
Proof. intros (H1 & H2 & H3 & H4 & H5 & _) Hn. unfold words_ok, with_nodes. cbn [root size cap flh seq nodes]. auto 10. Qed.

Lemma words_ok_with_root s x : words_ok s -> x < W -> words_ok (with_root s x).
Proof. intros (H1 & H2 & H3 & H4 & H5 & H6) Hx. unfold words_ok, with_root. cbn [root size cap flh seq nodes]. auto 10. Qed.

Lemma words_ok_with_size s x : words_ok s -> x < W -> words_ok (with_size s x).
Proof. intros (H1 & H2 & H3 & H4 & H5 & H6) Hx. unfold words_ok, with_size. cbn [root size cap flh seq nodes]. auto 10. Qed.

Lemma words_ok_with_cap s x : words_ok s -> x < W -> words_ok (with_cap s x).
Proof. intros (H1 & H2 & H3 & H4 & H5 & H6) Hx. unfold words_ok, with_cap. cbn [root size cap flh seq nodes]. auto 10. Qed.

Lemma words_ok_with_flh s x : words_ok s -> x < W -> words_ok (with_flh s x).
Proof. intros (H1 & H2 & H3 & H4 & H5 & H6) Hx. unfold words_ok, with_flh. cbn [root size cap flh seq nodes]. auto 10. Qed.

Lemma words_ok_with_seq s x : words_ok s -> x < W -> words_ok (with_seq s x).
Proof. intros (H1 & H2 & H3 & H4 & H5 & H6) Hx. unfold words_ok, with_seq. cbn [root size cap flh seq nodes]. auto 10. Qed.

(* ---------------------------------------------------------------- *)
(* primitives                                                        *)

Lemma getn_w ns i n : nodes_w ns -> getn ns i = Ok n -> node_w n.
Proof.
  intros Hns. unfold getn. destruct (i =? 0); [discriminate|].
  destruct (nth_error ns (N.to_nat (i - 1))) as [x|] eqn:E; [|discriminate].
  intros [= <-]. apply nth_error_In in E. unfold nodes_w in Hns. rewrite Forall_forall in Hns. auto.
Qed.

Lemma setn_w ns i x ns' : nodes_w ns -> node_w x -> setn ns i x = Ok ns' -> nodes_w ns'.
Proof.
  intros Hns Hx. unfold setn. destruct (i =? 0); [discriminate|].
  destruct (N.to_nat (i - 1) <? length ns)%nat; [|discriminate].
  intros [= <-]. apply Forall_set_nth; assumption.
Qed.

Lemma cadd_w a b c : cadd bits a b = Ok c -> c < W.
Proof.
  unfold cadd, wmax. destruct (N.ltb_spec (a + b) W) as [Hlt|_]; [|discriminate].
  intros [= <-]. exact Hlt.
Qed.

Lemma csub_w a b c : a < W -> csub a b = Ok c -> c < W.
Proof.
  intros Ha. unfold csub. destruct (N.leb_spec b a) as [Hle|_]; [|discriminate].
  intros [= <-]. lia.
Qed.

Lemma trunc_w a : trunc bits a < W.
Proof. unfold trunc, wmax. apply N.mod_lt. pose proof Wpos. lia. Qed.

Lemma seq_succ_w a c : seq_succ bits a = Ok c -> c < W.
Proof.
  unfold seq_succ. destruct (bits =? 8).
  - intros [= <-]. unfold wmax. apply N.mod_lt. pose proof Wpos. lia.
  - apply cadd_w.
Qed.

Lemma hreg_w ns c h : nodes_w ns -> hreg ns c = Ok h -> h < W.
Proof.
  intros Hns. unfold hreg. destruct (c =? 0); [intros [= <-]; apply Wpos|].
  intros H. binv H x Ex. injection H as <-. apply (getn_w _ _ _ Hns Ex).
Qed.

Lemma set_l_w n x : node_w n -> x < W -> node_w (set_l n x).
Proof. intros (H1 & H2 & H3) Hx. unfold node_w, set_l. cbn [nl nr nh]. auto. Qed.
Lemma set_r_w n x : node_w n -> x < W -> node_w (set_r n x).
Proof. intros (H1 & H2 & H3) Hx. unfold node_w, set_r. cbn [nl nr nh]. auto. Qed.
Lemma set_h_w n x : node_w n -> x < W -> node_w (set_h n x).
Proof. intros (H1 & H2 & H3) Hx. unfold node_w, set_h. cbn [nl nr nh]. auto. Qed.
Lemma set_v_w n x : node_w n -> node_w (set_v n x).
Proof. intros (H1 & H2 & H3). unfold node_w, set_v. cbn [nl nr nh]. auto. Qed.

Lemma update_height_w ns i ns' : nodes_w ns -> update_height bits ns i = Ok ns' -> nodes_w ns'.
Proof.
  intros Hns H. unfold update_height in H. cbv zeta in H.
  binv H n En. binv H h Eh.
  apply (setn_w _ _ _ _ Hns) in H; [exact H|].
  apply set_h_w; [apply (getn_w _ _ _ Hns En)|].
  destruct ((nl n =? 0) && (nr n =? 0)); [injection Eh as <-; apply Wpos|].
  binv Eh lh Elh. binv Eh rh Erh. apply (cadd_w _ _ _ Eh).
Qed.

Lemma update_child_w ns p d c ns' :
  nodes_w ns -> c < W -> update_child bits ns p d c = Ok ns' -> nodes_w ns'.
Proof.
  intros Hns Hc H. unfold update_child in H.
  binv H n En. binv H ns1 E1.
  apply (update_height_w ns1 p); [|exact H].
  apply (setn_w _ _ _ _ Hns) in E1; [exact E1|].
  pose proof (getn_w _ _ _ Hns En) as Hn.
  destruct d; [apply set_l_w|apply set_r_w]; assumption.
Qed.

Lemma left_rotate_w ns index ns' r :
  nodes_w ns -> index < W -> left_rotate bits ns index = Ok (ns', r) -> nodes_w ns' /\ r < W.
Proof.
  intros Hns Hi H. unfold left_rotate in H. cbv zeta in H.
  binv H n En. binv H rn Ern. binv H ns1 E1. binv H ns2 E2. injection H as <- <-.
  destruct (getn_w _ _ _ Hns En) as (Hl & Hr & Hh).
  destruct (getn_w _ _ _ Hns Ern) as (Hl2 & Hr2 & Hh2).
  pose proof (update_child_w _ _ _ _ _ Hns Hl2 E1) as Hns1.
  split; [|exact Hr]. apply (update_child_w _ _ _ _ _ Hns1 Hi E2).
Qed.

Lemma right_rotate_w ns index ns' r :
  nodes_w ns -> index < W -> right_rotate bits ns index = Ok (ns', r) -> nodes_w ns' /\ r < W.
Proof.
  intros Hns Hi H. unfold right_rotate in H. cbv zeta in H.
  binv H n En. binv H ln Eln. binv H ns1 E1. binv H ns2 E2. injection H as <- <-.
  destruct (getn_w _ _ _ Hns En) as (Hl & Hr & Hh).
  destruct (getn_w _ _ _ Hns Eln) as (Hl2 & Hr2 & Hh2).
  pose proof (update_child_w _ _ _ _ _ Hns Hr2 E1) as Hns1.
  split; [|exact Hl]. apply (update_child_w _ _ _ _ _ Hns1 Hi E2).
Qed.

(* ---------------------------------------------------------------- *)
(* rebalancing                                                       *)

Lemma rebalance_step_w s p b child s' :
  words_ok s -> child < W -> rebalance_step bits s (p, b, child) = Ok s' -> words_ok s'.
Proof.
  intros Hs Hc H. pose proof (words_ok_nodes s Hs) as Hns.
  unfold rebalance_step in H. cbv beta iota zeta in H.
  binv H cn Ecn. binv H bf Ebf. binv H pr Epr. destruct pr as [ns1 index]. cbv beta iota in H.
  destruct (getn_w _ _ _ Hns Ecn) as (Hl & Hr & Hh).
  assert (Hmid : nodes_w ns1 /\ forall i, index = Some i -> i < W).
  { destruct (1 <? bf)%Z.
    - binv Epr ln Eln. binv Epr lbf Elbf. binv Epr ns2 E2. binv Epr pr2 E3.
      destruct pr2 as [nsb idx]. cbv beta iota in Epr. injection Epr as <- <-.
      assert (Hns2 : nodes_w ns2).
      { destruct (lbf <? 0)%Z; [|injection E2 as <-; exact Hns].
        binv E2 pr3 E4. destruct pr3 as [nsa idx2]. cbv beta iota in E2.
        destruct (left_rotate_w _ _ _ _ Hns Hl E4) as (Hnsa & Hidx2).
        apply (update_child_w _ _ _ _ _ Hnsa Hidx2 E2). }
      destruct (right_rotate_w _ _ _ _ Hns2 Hc E3) as (Hnsb & Hidx).
      split; [exact Hnsb|]. intros i [= <-]. exact Hidx.
    - destruct (bf <? -1)%Z.
      + binv Epr rn Ern. binv Epr rbf Erbf. binv Epr ns2 E2. binv Epr pr2 E3.
        destruct pr2 as [nsb idx]. cbv beta iota in Epr. injection Epr as <- <-.
        assert (Hns2 : nodes_w ns2).
        { destruct (0 <? rbf)%Z; [|injection E2 as <-; exact Hns].
          binv E2 pr3 E4. destruct pr3 as [nsa idx2]. cbv beta iota in E2.
          destruct (right_rotate_w _ _ _ _ Hns Hr E4) as (Hnsa & Hidx2).
          apply (update_child_w _ _ _ _ _ Hnsa Hidx2 E2). }
        destruct (left_rotate_w _ _ _ _ Hns2 Hc E3) as (Hnsb & Hidx).
        split; [exact Hnsb|]. intros i [= <-]. exact Hidx.
      + binv Epr ns2 E2. injection Epr as <- <-.
        split; [apply (update_height_w _ _ _ Hns E2)|discriminate]. }
  destruct Hmid as (Hns1 & Hidx).
  destruct index as [index|].
  - specialize (Hidx index eq_refl). destruct p as [p|].
    + binv H d Ed. binv H ns2 E2. injection H as <-.
      apply words_ok_with_nodes; [exact Hs|]. apply (update_child_w _ _ _ _ _ Hns1 Hidx E2).
    + binv H ns2 E2. injection H as <-.
      apply words_ok_with_root; [|exact Hidx].
      apply words_ok_with_nodes; [exact Hs|]. apply (update_height_w _ _ _ Hns1 E2).
  - injection H as <-. apply words_ok_with_nodes; assumption.
Qed.

Lemma rebalance_list_w rpath : forall s s',
  words_ok s -> Forall child_w rpath -> rebalance_list bits s rpath = Ok s' -> words_ok s'.
Proof.
  induction rpath as [|a rest IH]; intros s s' Hs Hp H; cbn [rebalance_list] in H.
  - injection H as <-. exact Hs.
  - binv H s1 E1. inversion Hp as [|? ? Ha Hrest]; subst.
    destruct a as [[p b] child]. unfold child_w in Ha. cbn [snd] in Ha.
    apply (IH s1 s'); [|exact Hrest|exact H].
    apply (rebalance_step_w s p b child); assumption.
Qed.

Lemma rebalance_w s path s' :
  words_ok s -> Forall child_w path -> rebalance bits s path = Ok s' -> words_ok s'.
Proof.
  intros Hs Hp H. unfold rebalance in H. apply (rebalance_list_w (rev path) s s'); [exact Hs| |exact H].
  apply Forall_rev. exact Hp.
Qed.

(* ---------------------------------------------------------------- *)
(* allocator                                                         *)

Lemma add_w s key value s' i :
  words_ok s -> add bits s key value = Ok (s', i) -> words_ok s' /\ i < W.
Proof.
  intros Hs H. pose proof Hs as (H1 & H2 & H3 & H4 & H5 & H6).
  unfold add in H. cbv zeta in H.
  binv H s1 E1. binv H n En. binv H ns Ens. binv H sz Esz. injection H as <- <-.
  assert (Hs1 : words_ok s1).
  { destruct (flh s =? seq s).
    - binv E1 sm1 Esm. destruct (sm1 =? cap s); [discriminate|].
      binv E1 sq Esq. injection E1 as <-. pose proof (seq_succ_w _ _ Esq) as Hsq.
      apply words_ok_with_flh; [|exact Hsq]. apply words_ok_with_seq; assumption.
    - binv E1 n0 En0. injection E1 as <-.
      destruct (getn_w _ _ _ (words_ok_nodes s Hs) En0) as (_ & _ & Hh).
      apply words_ok_with_flh; assumption. }
  split; [|exact H4].
  apply words_ok_with_size; [|apply (cadd_w _ _ _ Esz)].
  apply words_ok_with_nodes; [exact Hs1|].
  apply (setn_w _ _ _ _ (words_ok_nodes s1 Hs1)) in Ens; [exact Ens|].
  destruct (getn_w _ _ _ (words_ok_nodes s1 Hs1) En) as (Hl & Hr & _).
  unfold node_w. cbn [nl nr nh]. pose proof Wpos. auto.
Qed.

Lemma remove_node_w s index s' v :
  words_ok s -> index < W -> remove_node s index = Ok (s', v) -> words_ok s'.
Proof.
  intros Hs Hi H. pose proof Hs as (H1 & H2 & H3 & H4 & H5 & H6).
  unfold remove_node in H. cbv zeta in H.
  destruct (index =? 0); [injection H as <- _; exact Hs|].
  binv H n En. binv H ns Ens. binv H sz Esz. injection H as <- _.
  apply words_ok_with_size; [|apply (csub_w _ _ _ H2 Esz)].
  apply words_ok_with_flh; [|exact Hi].
  apply words_ok_with_nodes; [exact Hs|].
  apply (setn_w _ _ _ _ (words_ok_nodes s Hs)) in Ens; [exact Ens|].
  unfold node_w. cbn [nl nr nh]. pose proof Wpos. auto.
Qed.

Lemma thread_loop_w cnt : forall i ns fl ns' fl',
  nodes_w ns -> fl < W -> thread_loop bits cnt i ns fl = Ok (ns', fl') -> nodes_w ns' /\ fl' < W.
Proof.
  induction cnt as [|c IH]; intros i ns fl ns' fl' Hns Hfl H; cbn [thread_loop] in H.
  - injection H as <- <-. auto.
  - binv H index Ei. binv H n En. binv H ns1 E1.
    pose proof (cadd_w _ _ _ Ei) as Hidx.
    apply (IH (i + 1) ns1 index); [|exact Hidx|exact H].
    apply (setn_w _ _ _ _ Hns) in E1; [exact E1|].
    apply set_h_w; [apply (getn_w _ _ _ Hns En)|exact Hfl].
Qed.

Lemma open_mut_w s s' : words_ok s -> open_mut bits s = Ok s' -> words_ok s'.
Proof.
  intros Hs H. pose proof Hs as (H1 & H2 & H3 & H4 & H5 & H6).
  unfold open_mut in H. cbv zeta in H.
  destruct (cap s <? N.of_nat (length (nodes s))); [|injection H as <-; exact Hs].
  pose proof (trunc_w (N.of_nat (length (nodes s)))) as Ht.
  destruct (negb (seq s =? flh s)); [|injection H as <-; apply words_ok_with_cap; assumption].
  binv H start Est. binv H pr Etl. destruct pr as [ns fl]. cbv beta iota in H.
  binv H sq Esq. injection H as <-.
  unfold with_cap in Etl. cbn [nodes flh] in Etl.
  destruct (thread_loop_w _ _ _ _ _ _ H6 H4 Etl) as (Hns & Hfl).
  pose proof (cadd_w _ _ _ Esq) as Hsq.
  unfold words_ok, with_cap. cbn [root size cap flh seq nodes]. auto 10.
Qed.

(* ---------------------------------------------------------------- *)
(* insert                                                            *)

Lemma insert_loop_w fuel : forall s key value rn path log s' r path' log',
  words_ok s -> Forall child_w path ->
  insert_loop bits fuel s key value rn path log = Ok (s', r, path', log') ->
  words_ok s' /\ Forall child_w path'.
Proof.
  induction fuel as [|f IH]; intros s key value rn path log s' r path' log' Hs Hp H;
    cbn [insert_loop] in H; [discriminate|].
  cbv zeta in H. binv H n En.
  destruct (getn_w _ _ _ (words_ok_nodes s Hs) En) as (Hl & Hr & _).
  destruct (key <? nk n)%Z.
  - destruct (nl n =? 0).
    + destruct (is_full s); [injection H as <- _ <- _; auto|].
      binv H pr Ea. destruct pr as [s1 new]. cbv beta iota in H.
      binv H ns Euc. injection H as <- _ <- _.
      destruct (add_w _ _ _ _ _ Hs Ea) as (Hs1 & Hnew).
      split; [|exact Hp]. apply words_ok_with_nodes; [exact Hs1|].
      apply (update_child_w _ _ _ _ _ (words_ok_nodes s1 Hs1) Hnew Euc).
    + apply (IH _ _ _ _ _ _ _ _ _ _ Hs) in H; [exact H|].
      apply Forall_app. split; [exact Hp|]. constructor; [exact Hl|constructor].
  - destruct (key >? nk n)%Z.
    + destruct (nr n =? 0).
      * destruct (is_full s); [injection H as <- _ <- _; auto|].
        binv H pr Ea. destruct pr as [s1 new]. cbv beta iota in H.
        binv H ns Euc. injection H as <- _ <- _.
        destruct (add_w _ _ _ _ _ Hs Ea) as (Hs1 & Hnew).
        split; [|exact Hp]. apply words_ok_with_nodes; [exact Hs1|].
        apply (update_child_w _ _ _ _ _ (words_ok_nodes s1 Hs1) Hnew Euc).
      * apply (IH _ _ _ _ _ _ _ _ _ _ Hs) in H; [exact H|].
        apply Forall_app. split; [exact Hp|]. constructor; [exact Hr|constructor].
    + injection H as <- _ <- _. auto.
Qed.

Lemma insert_w s key value s' r log :
  words_ok s -> insert bits s key value = Ok (s', r, log) -> words_ok s'.
Proof.
  intros Hs H. pose proof Hs as (H1 & _).
  unfold insert in H. cbv zeta in H.
  destruct (root s =? 0).
  - destruct (is_full s); [injection H as <- _ _; exact Hs|].
    binv H pr Ea. destruct pr as [s1 new]. cbv beta iota in H. injection H as <- _ _.
    destruct (add_w _ _ _ _ _ Hs Ea) as (Hs1 & Hnew).
    apply words_ok_with_root; assumption.
  - binv H q Eil. destruct q as [[[s1 r1] path] lg]. cbv beta iota in H.
    assert (Hp0 : Forall child_w [(@None N, @None dir, root s)]) by (constructor; [exact H1|constructor]).
    destruct (insert_loop_w _ _ _ _ _ _ _ _ _ _ _ Hs Hp0 Eil) as (Hs1 & Hp).
    destruct r1 as [new|]; [|injection H as <- _ _; exact Hs1].
    binv H s2 Erb. injection H as <- _ _.
    apply (rebalance_w _ _ _ Hs1 Hp Erb).
Qed.

(* ---------------------------------------------------------------- *)
(* remove                                                            *)

Lemma remove_descent_w fuel ns : forall key ni path log ni' path' log',
  nodes_w ns -> ni < W -> Forall child_w path ->
  remove_descent fuel ns key ni path log = Ok (ni', path', log') ->
  ni' < W /\ Forall child_w path'.
Proof.
  induction fuel as [|f IH]; intros key ni path log ni' path' log' Hns Hi Hp H;
    cbn [remove_descent] in H; [discriminate|].
  cbv zeta in H.
  destruct (ni =? 0); [injection H as <- <- _; split; [apply Wpos|exact Hp]|].
  binv H n En. destruct (getn_w _ _ _ Hns En) as (Hl & Hr & _).
  destruct (key <? nk n)%Z.
  - apply (IH _ _ _ _ _ _ _ Hns Hl) in H; [exact H|].
    apply Forall_app. split; [exact Hp|]. constructor; [exact Hl|constructor].
  - destruct (key >? nk n)%Z.
    + apply (IH _ _ _ _ _ _ _ Hns Hr) in H; [exact H|].
      apply Forall_app. split; [exact Hp|]. constructor; [exact Hr|constructor].
    + injection H as <- <- _. auto.
Qed.

Lemma leftmost_loop_w fuel ns : forall lm lp ip lm' lp' ip',
  nodes_w ns -> lm < W -> Forall child_w ip ->
  leftmost_loop fuel ns lm lp ip = Ok (lm', lp', ip') ->
  lm' < W /\ Forall child_w ip'.
Proof.
  induction fuel as [|f IH]; intros lm lp ip lm' lp' ip' Hns Hlm Hp H;
    cbn [leftmost_loop] in H; [discriminate|].
  cbv zeta in H. binv H n En. destruct (getn_w _ _ _ Hns En) as (Hl & _ & _).
  destruct (nl n =? 0); [injection H as <- _ <-; auto|].
  apply (IH _ _ _ _ _ _ Hns Hl) in H; [exact H|].
  apply Forall_app. split; [exact Hp|]. constructor; [exact Hl|constructor].
Qed.

Lemma pop_last_w (l l' : list anc) x :
  Forall child_w l -> pop_last l = Some (l', x) -> Forall child_w l' /\ child_w x.
Proof.
  intros Hl H. apply pop_last_app in H. subst l. apply Forall_app in Hl.
  destruct Hl as (Hl' & Hx). split; [exact Hl'|]. inversion Hx; assumption.
Qed.

Lemma remove_w s key s' v log :
  words_ok s -> remove bits s key = Ok (s', v, log) -> words_ok s'.
Proof.
  intros Hs H. pose proof Hs as (H1 & _). pose proof (words_ok_nodes s Hs) as Hns.
  pose proof Wpos as HW.
  unfold remove in H. cbv zeta in H.
  destruct (root s =? 0); [injection H as <- _ _; exact Hs|].
  binv H q Ed. destruct q as [[ni path] lg]. cbv beta iota in H.
  destruct (ni =? 0); [injection H as <- _ _; exact Hs|].
  binv H n En. binv H q Emid. destruct q as [[ns path2] repl]. cbv beta iota in H.
  binv H s3 Erb. binv H q Ern. destruct q as [s4 v']. cbv beta iota in H. injection H as <- _ _.
  assert (Hp0 : Forall child_w [(@None N, @None dir, root s)]) by (constructor; [exact H1|constructor]).
  destruct (remove_descent_w _ _ _ _ _ _ _ _ _ Hns H1 Hp0 Ed) as (Hni & Hpath).
  destruct (getn_w _ _ _ Hns En) as (Hl & Hr & _).
  assert (Hmid : nodes_w ns /\ Forall child_w path2 /\ repl < W).
  { destruct (negb (nl n =? 0) && negb (nr n =? 0)).
    - binv Emid q Elm. destruct q as [[lm lp] ip]. cbv beta iota in Emid.
      binv Emid ns1 E1. binv Emid ns2 E2. binv Emid ns3 E3.
      destruct (leftmost_loop_w _ _ _ _ _ _ _ _ Hns Hr (Forall_nil _) Elm) as (Hlm & Hip).
      assert (Hns1 : nodes_w ns1).
      { destruct (negb (lp =? 0)); [|injection E1 as <-; exact Hns].
        binv E1 lmn Elmn. destruct (getn_w _ _ _ Hns Elmn) as (_ & Hlr & _).
        apply (update_child_w _ _ _ _ _ Hns Hlr E1). }
      pose proof (update_child_w _ _ _ _ _ Hns1 Hl E2) as Hns2.
      assert (Hns3 : nodes_w ns3).
      { destruct (negb (nr n =? lm)); [|injection E3 as <-; exact Hns2].
        apply (update_child_w _ _ _ _ _ Hns2 Hr E3). }
      destruct (pop_last path) as [[path0 [[parent branch] c0]]|] eqn:Epl; [|discriminate].
      destruct (pop_last_w _ _ _ Hpath Epl) as (Hpath0 & _).
      binv Emid ns4 E4. injection Emid as <- <- <-.
      split; [|split; [|exact Hlm]].
      + destruct parent as [p|]; [|injection E4 as <-; exact Hns3].
        binv E4 d Ed2. apply (update_child_w _ _ _ _ _ Hns3 Hlm E4).
      + apply Forall_app. split.
        * assert (Hpa : Forall child_w (path0 ++ [(parent, branch, lm)])).
          { apply Forall_app. split; [exact Hpath0|]. constructor; [exact Hlm|constructor]. }
          destruct (negb (nr n =? lm)); [|exact Hpa].
          apply Forall_app. split; [exact Hpa|]. constructor; [exact Hr|constructor].
        * destruct (pop_last ip) as [[ip0 x0]|] eqn:Eip; [|exact Hip].
          apply (pop_last_w _ _ _ Hip Eip).
    - set (child := if (nl n =? 0) && (nr n =? 0) then 0 else if negb (nl n =? 0) then nl n else nr n) in *.
      assert (Hchild : child < W).
      { unfold child. destruct ((nl n =? 0) && (nr n =? 0)); [exact HW|].
        destruct (negb (nl n =? 0)); assumption. }
      destruct (pop_last path) as [[path0 [[parent branch] c0]]|] eqn:Epl; [|discriminate].
      destruct (pop_last_w _ _ _ Hpath Epl) as (Hpath0 & _).
      destruct parent as [p|].
      + binv Emid d Ed2. binv Emid ns1 E1. injection Emid as <- <- <-.
        split; [apply (update_child_w _ _ _ _ _ Hns Hchild E1)|]. split; [|exact Hchild].
        destruct (negb (child =? 0)); [|exact Hpath0].
        apply Forall_app. split; [exact Hpath0|]. constructor; [exact Hchild|constructor].
      + injection Emid as <- <- <-. auto. }
  destruct Hmid as (Hnsm & Hpath2 & Hrepl).
  assert (Hs2 : words_ok (if ni =? root (with_nodes s ns) then with_root (with_nodes s ns) repl
                          else with_nodes s ns)).
  { destruct (ni =? root (with_nodes s ns)).
    - apply words_ok_with_root; [|exact Hrepl]. apply words_ok_with_nodes; assumption.
    - apply words_ok_with_nodes; assumption. }
  pose proof (rebalance_w _ _ _ Hs2 Hpath2 Erb) as Hs3.
  apply (remove_node_w _ _ _ _ Hs3 Hni Ern).
Qed.

(* ---------------------------------------------------------------- *)
(* get_mut, ext, steps                                               *)

Lemma get_mut_set_w s key v' s' r log :
  words_ok s -> get_mut_set s key v' = Ok (s', r, log) -> words_ok s'.
Proof.
  intros Hs H. pose proof (words_ok_nodes s Hs) as Hns.
  unfold get_mut_set in H. binv H q Ef. destruct q as [fr lg]. cbv beta iota in H.
  destruct fr as [i|]; [|injection H as <- _ _; exact Hs].
  binv H n En. binv H ns Ens. injection H as <- _ _.
  apply words_ok_with_nodes; [exact Hs|].
  apply (setn_w _ _ _ _ Hns) in Ens; [exact Ens|].
  apply set_v_w. apply (getn_w _ _ _ Hns En).
Qed.

Lemma node0_w : node_w node0.
Proof. unfold node_w, node0. cbn [nl nr nh]. pose proof Wpos. auto. Qed.

Lemma ext_nodes_w s n : words_ok s -> words_ok (ext_nodes s n).
Proof.
  intros Hs. unfold ext_nodes. apply words_ok_with_nodes; [exact Hs|].
  apply Forall_app. split; [apply (words_ok_nodes s Hs)|].
  apply Forall_forall. intros x Hx. apply repeat_spec in Hx. subst x. apply node0_w.
Qed.

(* (a) *)
Theorem words_ok_init capacity nrec : 1 <= bits -> capacity < W -> words_ok (init_c capacity nrec).
Proof.
  intros Hb Hc. assert (H1 : 1 < W).
  { assert (2 ^ 1 <= W) by (apply N.pow_le_mono_r; lia). change (2 ^ 1) with 2 in *. lia. }
  pose proof Wpos. unfold words_ok, init_c, initialize. cbn [root size cap flh seq nodes].
  repeat (split; [assumption|]).
  apply Forall_forall. intros x Hx. apply repeat_spec in Hx. subst x. apply node0_w.
Qed.

(* (b) *)
Theorem step_c_words_ok s o s' out log :
  step_c bits s o = Ok (s', out, log) -> words_ok s -> words_ok s'.
Proof.
  intros H Hs. destruct o as [k v|k|k|k v|k|k| | | | | |n| |]; cbn [step_c] in H.
  - binv H s1 Eo. binv H q Ei. destruct q as [[s2 r] lg]. cbv beta iota in H. injection H as <- _ _.
    apply (insert_w _ _ _ _ _ _ (open_mut_w _ _ Hs Eo) Ei).
  - binv H s1 Eo. binv H q Er. destruct q as [[s2 r] lg]. cbv beta iota in H. injection H as <- _ _.
    apply (remove_w _ _ _ _ _ (open_mut_w _ _ Hs Eo) Er).
  - binv H q Eg. destruct q as [r lg]. cbv beta iota in H. injection H as <- _ _. exact Hs.
  - binv H s1 Eo. binv H q Eg. destruct q as [[s2 r] lg]. cbv beta iota in H. injection H as <- _ _.
    apply (get_mut_set_w _ _ _ _ _ _ (open_mut_w _ _ Hs Eo) Eg).
  - binv H s1 Eo. binv H q Eg. destruct q as [r lg]. cbv beta iota in H. injection H as <- _ _.
    apply (open_mut_w _ _ Hs Eo).
  - binv H q Eg. destruct q as [r lg]. cbv beta iota in H. injection H as <- _ _. exact Hs.
  - binv H r Eg. injection H as <- _ _. exact Hs.
  - injection H as <- _ _. exact Hs.
  - injection H as <- _ _. exact Hs.
  - injection H as <- _ _. exact Hs.
  - injection H as <- _ _. exact Hs.
  - injection H as <- _ _. apply ext_nodes_w. exact Hs.
  - binv H s1 Eo. injection H as <- _ _. apply (open_mut_w _ _ Hs Eo).
  - injection H as <- _ _. exact Hs.
Qed.

(* (c) *)
Inductive reach_c (capacity nrec : N) : st -> Prop :=
| rc_init : reach_c capacity nrec (init_c capacity nrec)
| rc_step s o s' out log :
    reach_c capacity nrec s -> step_c bits s o = Ok (s', out, log) -> reach_c capacity nrec s'.

Theorem reach_c_words_ok capacity nrec s :
  1 <= bits -> capacity < W -> reach_c capacity nrec s -> words_ok s.
Proof.
  intros Hb Hc. induction 1 as [|s o s' out log _ IH Hstep].
  - apply words_ok_init; assumption.
  - apply (step_c_words_ok s o s' out log Hstep IH).
Qed.

Lemma final_c_words_ok ops : forall s s',
  words_ok s -> final_c bits s ops = Ok s' -> words_ok s'.
Proof.
  induction ops as [|o r IH]; intros s s' Hs H; cbn [final_c] in H.
  - injection H as <-. exact Hs.
  - binv H q Es. destruct q as [[s1 x] lg]. cbv beta iota in H.
    apply (IH s1 s'); [|exact H]. apply (step_c_words_ok s o s1 x lg Es Hs).
Qed.

Theorem run_words_ok capacity nrec ops s :
  1 <= bits -> capacity < W -> final_c bits (init_c capacity nrec) ops = Ok s -> words_ok s.
Proof.
  intros Hb Hc H. apply (final_c_words_ok ops (init_c capacity nrec) s); [|exact H].
  apply words_ok_init; assumption.
Qed.

Lemma final_c_reach_c capacity nrec ops : forall s s',
  reach_c capacity nrec s -> final_c bits s ops = Ok s' -> reach_c capacity nrec s'.
Proof.
  induction ops as [|o r IH]; intros s s' Hs H; cbn [final_c] in H.
  - injection H as <-. exact Hs.
  - binv H q Es. destruct q as [[s1 x] lg]. cbv beta iota in H.
    apply (IH s1 s'); [|exact H]. apply (rc_step capacity nrec s o s1 x lg Hs Es).
Qed.

End W.

(* ------------------------------------------------------------------ *)
(* (c') the reachable states of Avl/Balance.v                          *)

Lemma okbits_ge1 bits : okbits bits -> 1 <= bits.
Proof. intros [-> | ->]; lia. Qed.

Theorem reach_words_ok bits s : okbits bits -> reach bits s -> words_ok bits s.
Proof.
  intros Hb. induction 1 as [capacity H1 H2|s o s' out log _ IH Hs _].
  - apply words_ok_init; [apply okbits_ge1; exact Hb|exact H1].
  - apply (step_c_words_ok bits s o s' out log Hs IH).
Qed.

Lemma reach_reach_c bits s : reach bits s -> exists capacity, reach_c bits capacity capacity s.
Proof.
  induction 1 as [capacity H1 H2|s o s' out log _ IH Hs _].
  - exists capacity. apply rc_init.
  - destruct IH as (capacity & IH). exists capacity. apply (rc_step bits capacity capacity s o s' out log IH Hs).
Qed.

(* ------------------------------------------------------------------ *)
(* (d) the bump cursor and the terminator of the free chain are words  *)

Lemma fchain_term_w bits ns fr : forall h term,
  nodes_w bits ns -> h < 2 ^ bits -> fchain ns h fr term -> term < 2 ^ bits.
Proof.
  induction fr as [|x fr IH]; intros h term Hns Hh; cbn [fchain].
  - intros <-. exact Hh.
  - intros (_ & n & Hn & Hc). apply (IH (nh n) term Hns); [|exact Hc].
    destruct (getn_w bits _ _ _ Hns Hn) as (_ & _ & Hnh). exact Hnh.
Qed.

Theorem inv_words_term bits s t fr term :
  Inv bits s t fr term -> words_ok bits s -> seq s < 2 ^ bits /\ term < 2 ^ bits.
Proof.
  intros H Hw. pose proof Hw as (_ & _ & _ & Hf & Hs & Hn). split; [exact Hs|].
  apply (fchain_term_w bits (nodes s) fr (flh s) term Hn Hf).
  exact (ai_chain _ _ _ _ _ (inv_alloc _ _ _ _ _ H)).
Qed.

Theorem hdr_fits_words wbytes s t fr term :
  Inv (bits_of wbytes) s t fr term -> words_ok (bits_of wbytes) s -> hdr_fits wbytes s term.
Proof. intros H Hw. exact (inv_words_term (bits_of wbytes) s t fr term H Hw). Qed.

(* ------------------------------------------------------------------ *)
(* (e) the theorems of Avl/DocFacts.v with [words_ok] for [hdr_fits]   *)

(* the conclusion of [avl_doc_statement] *)
Definition avl_doc_concl (wbytes : nat) (lay : layout) (s : st) (t : itree) (fr : list N) : Prop :=
  exists d, decode_doc wbytes lay (encode wbytes lay s) = Some d /\
    d_hdr d = [root s; size s; cap s; flh s; seq s] /\
    d_tree d = dt_of t /\
    d_inorder (d_tree d) = triples t /\
    map tr_kv (d_inorder (d_tree d)) = inorder t /\
    (forall key, get s key = Ok (sm_find (map tr_kv (d_inorder (d_tree d))) key, t_log t key)) /\
    d_free d = fr /\ N.of_nat (length fr) = Alloc.lseq (bits_of wbytes) s - 1 - size s /\
    (forall i, In i (d_never d) <-> Alloc.lseq (bits_of wbytes) s <= i /\ 1 <= i <= N.of_nat (length (nodes s))) /\
    d_wf d = true /\ d_bst d = true /\ d_bal d = true /\
    NoDup (idxs t ++ fr ++ d_never d) /\
    (forall i, In i (idxs t ++ fr ++ d_never d) <-> 1 <= i <= N.of_nat (length (nodes s))) /\
    N.of_nat (length (encode wbytes lay s)) = data_len wbytes lay (N.of_nat (length (nodes s))).

Section DocW.
Variable wbytes : nat.
Variable lay : layout.
Hypothesis Hw : wbytes = 1%nat \/ wbytes = 4%nat.
Hypothesis Hk : 0 < ksz lay.
Hypothesis Hv : 0 < vsz lay.
Local Notation bits := (bits_of wbytes).

Theorem inv_st_ok_w s t fr term :
  Inv bits s t fr term -> kv_fits lay t -> words_ok bits s -> st_ok wbytes lay s.
Proof.
  intros H Hkv Hwo. apply (inv_st_ok wbytes lay Hw Hk Hv s t fr term H Hkv).
  apply (hdr_fits_words wbytes s t fr term H Hwo).
Qed.

Theorem avl_doc_w s t fr term :
  Inv bits s t fr term -> kv_fits lay t -> words_ok bits s -> avl_doc_concl wbytes lay s t fr.
Proof.
  intros H Hkv Hwo.
  exact (avl_doc wbytes lay Hw Hk Hv s t fr term H Hkv (hdr_fits_words wbytes s t fr term H Hwo)).
Qed.

Theorem inv_header_words_w s t fr term :
  Inv bits s t fr term -> kv_fits lay t -> words_ok bits s ->
  word wbytes (encode wbytes lay s) 0 = root s /\ word wbytes (encode wbytes lay s) 1 = size s /\
  word wbytes (encode wbytes lay s) 2 = cap s /\ word wbytes (encode wbytes lay s) 3 = flh s /\
  word wbytes (encode wbytes lay s) 4 = seq s.
Proof.
  intros H Hkv Hwo.
  exact (inv_header_words wbytes lay Hw Hk Hv s t fr term H Hkv (hdr_fits_words wbytes s t fr term H Hwo)).
Qed.

Theorem inv_entry_bytes_w s t fr term slot k v :
  Inv bits s t fr term -> In (slot, k, v) (triples t) ->
  exists n, rec_at s slot = Some n /\ nk n = k /\ nv n = v /\
    sub (encode wbytes lay s) (rec_off wbytes lay slot) (rec_len wbytes lay) = enc_node wbytes lay n /\
    (kv_fits lay t -> words_ok bits s ->
     dec_node wbytes lay (sub (encode wbytes lay s) (rec_off wbytes lay slot) (rec_len wbytes lay)) = n).
Proof.
  intros H Hin.
  destruct (inv_entry_bytes wbytes lay Hw Hk Hv s t fr term slot k v H Hin) as (n & H1 & H2 & H3 & H4 & H5).
  exists n. repeat (split; [assumption|]). intros Hkv Hwo.
  apply (H5 Hkv). apply (hdr_fits_words wbytes s t fr term H Hwo).
Qed.

Theorem inv_decode_encode_w s t fr term :
  Inv bits s t fr term -> kv_fits lay t -> words_ok bits s ->
  decode wbytes lay (encode wbytes lay s) = Some s.
Proof.
  intros H Hkv Hwo.
  exact (inv_decode_encode wbytes lay Hw Hk Hv s t fr term H Hkv (hdr_fits_words wbytes s t fr term H Hwo)).
Qed.

Theorem inv_reopen_mut_same_w s t fr term :
  Inv bits s t fr term -> kv_fits lay t -> words_ok bits s ->
  N.of_nat (length (nodes s)) <= cap s ->
  exists s0, decode wbytes lay (encode wbytes lay s) = Some s0 /\
    open_mut bits s0 = Ok s0 /\ encode wbytes lay s0 = encode wbytes lay s.
Proof.
  intros H Hkv Hwo.
  exact (inv_reopen_mut_same wbytes lay Hw Hk Hv s t fr term H Hkv (hdr_fits_words wbytes s t fr term H Hwo)).
Qed.

Theorem inv_reopen_mut_w s t fr term :
  Inv bits s t fr term -> kv_fits lay t -> words_ok bits s -> sizecond bits s ->
  exists s0 s' fr',
    decode wbytes lay (encode wbytes lay s) = Some s0 /\ open_mut bits s0 = Ok s' /\
    Inv bits s' t fr' term /\ cap s' = N.of_nat (length (nodes s)) /\
    length (nodes s') = length (nodes s) /\
    (N.of_nat (length (nodes s)) <= cap s -> s' = s /\ fr' = fr).
Proof.
  intros H Hkv Hwo.
  exact (inv_reopen_mut wbytes lay Hw Hk Hv s t fr term H Hkv (hdr_fits_words wbytes s t fr term H Hwo)).
Qed.

Theorem reopen_continues_w s ops1 s1 t fr term ops2 :
  final_c bits s ops1 = Ok s1 ->
  Inv bits s1 t fr term -> kv_fits lay t -> words_ok bits s1 ->
  exists s1', decode wbytes lay (encode wbytes lay s1) = Some s1' /\
    run_c bits s (ops1 ++ ops2) = run_c bits s ops1 ++ run_c bits s1' ops2 /\
    final_c bits s (ops1 ++ ops2) = final_c bits s1' ops2.
Proof.
  intros Hf H Hkv Hwo.
  exact (reopen_continues wbytes lay Hw Hk Hv s ops1 s1 t fr term ops2 Hf H Hkv
           (hdr_fits_words wbytes s1 t fr term H Hwo)).
Qed.

End DocW.

Print Assumptions words_ok_init.
Print Assumptions step_c_words_ok.
Print Assumptions reach_c_words_ok.
Print Assumptions run_words_ok.
Print Assumptions reach_words_ok.
Print Assumptions inv_words_term.
Print Assumptions hdr_fits_words.
Print Assumptions inv_st_ok_w.
Print Assumptions avl_doc_w.
Print Assumptions inv_header_words_w.
Print Assumptions inv_entry_bytes_w.
Print Assumptions inv_decode_encode_w.
Print Assumptions inv_reopen_mut_same_w.
Print Assumptions inv_reopen_mut_w.
Print Assumptions reopen_continues_w.
