(* Handle sessions, continued (Avl/Session.v, Avl/SessionFacts.v): the
   theorem families that were stated for [step_c] / [run_c] / [final_c] only,
   with an explicit handle.

   1. C07 for a LIVE handle, also on a tree whose buffer is larger than its
      capacity word: exactly [cap s - size s] further entries fit through the
      live handle (NOT [nrec s - size s]: the spare records count only after
      a re-open); fresh slots, released slots, the reachable form.
   2. the end-to-end bytes theorem for sessions: [words_ok] along
      [step_sess], every stored entry comes from the operations, the
      independent reader on the bytes of the final state of a session.
   3. dropping the handle: from a settled state the handle flag is
      invisible; with spare records pending the two runs differ exactly by
      the claim at the first mutating operation. *)
From Coq Require Import List NArith ZArith Bool Lia ZifyBool Permutation Sorted.
From Stevia Require Import Base.Res Base.ResMore Base.Bytes Avl.Impl Avl.Tree Avl.Rep Avl.Spec Avl.Format Avl.Session.
From Stevia Require Import Avl.TreeInv Avl.SmapFacts Avl.TreeOps Avl.TreeProps Avl.LinkFind Avl.Alloc Avl.Inv.
From Stevia Require Import Avl.LinkInsert Avl.LinkSteps Avl.SmapMore Avl.Master Avl.Clauses Avl.Capacity Avl.Quiet.
From Stevia Require Import Avl.FinalMaster Avl.SessionFacts.
From Stevia Require Import Hash.FormatFacts Avl.FormatFacts Avl.DocFacts Avl.WordsOk Avl.EndToEnd.
Import ListNotations.
Open Scope N_scope.

Arguments N.add : simpl never.
Arguments N.sub : simpl never.
Arguments N.mul : simpl never.
Arguments N.pow : simpl never.
Arguments N.modulo : simpl never.
Arguments N.eqb : simpl never.
Arguments N.ltb : simpl never.
Arguments N.leb : simpl never.
Arguments N.max : simpl never.
Arguments Z.add : simpl never.
Arguments Z.sub : simpl never.
Arguments Z.ltb : simpl never.
Arguments Z.gtb : simpl never.
Arguments Z.eqb : simpl never.
Arguments N.of_nat : simpl never.
Arguments N.to_nat : simpl never.

(* ------------------------------------------------------------------ *)
(* 0. histories in two parts                                           *)

Lemma NoDup_app_l {A} (l l' : list A) : NoDup (l ++ l') -> NoDup l.
Proof.
  induction l as [|a l IH]; cbn [app]; [constructor|].
  intros Hn. inversion Hn as [|? ? Ha Hl]; subst. constructor; [|apply IH; exact Hl].
  intros Hin. apply Ha, in_or_app. left. exact Hin.
Qed.

Section App.
Variable bits : N.

Lemma final_sess_app ops1 : forall x x1 ops2,
  final_sess bits x ops1 = Ok x1 -> final_sess bits x (ops1 ++ ops2) = final_sess bits x1 ops2.
Proof.
  induction ops1 as [|o r IH]; intros x x1 ops2; cbn [final_sess app]; [intros [= <-]; reflexivity|].
  destruct (step_sess bits x o) as [[[x' y] lg]|p|]; cbn [bind]; [|discriminate|discriminate].
  apply IH.
Qed.

Lemma run_sess_app ops1 : forall x x1 ops2,
  final_sess bits x ops1 = Ok x1 ->
  run_sess bits x (ops1 ++ ops2) = run_sess bits x ops1 ++ run_sess bits x1 ops2.
Proof.
  induction ops1 as [|o r IH]; intros x x1 ops2; cbn [final_sess run_sess app]; [intros [= <-]; reflexivity|].
  destruct (step_sess bits x o) as [[[x' y] lg]|p|]; cbn [bind]; [|discriminate|discriminate].
  intros Hf. rewrite (IH x' x1 ops2 Hf). reflexivity.
Qed.

Lemma final_s_sess_app ops1 : forall x ops2,
  final_s_sess x (ops1 ++ ops2) = final_s_sess (final_s_sess x ops1) ops2.
Proof. induction ops1 as [|o r IH]; intros x ops2; cbn [final_s_sess app]; [reflexivity|apply IH]. Qed.

Lemma run_s_sess_app ops1 : forall x ops2,
  run_s_sess x (ops1 ++ ops2) = run_s_sess x ops1 ++ run_s_sess (final_s_sess x ops1) ops2.
Proof.
  induction ops1 as [|o r IH]; intros x ops2; cbn [final_s_sess run_s_sess app]; [reflexivity|].
  destruct (spec_step_sess x o) as [x' y]. cbn [fst app]. rewrite IH. reflexivity.
Qed.

Lemma growth_okw_sess_app ops1 : forall x ops2,
  growth_okw_sess bits x (ops1 ++ ops2) <->
  growth_okw_sess bits x ops1 /\ growth_okw_sess bits (final_s_sess x ops1) ops2.
Proof.
  induction ops1 as [|o r IH]; intros x ops2; cbn [app growth_okw_sess final_s_sess]; [tauto|].
  rewrite IH. tauto.
Qed.

End App.

(* ------------------------------------------------------------------ *)
(* 1. C07 with a live handle                                           *)

Section Cap.
Variable bits : N.
Local Notation R := (master_remove_spec_holds bits).

(* insert the entries one after the other through the session *)
Fixpoint insert_all_sess (x : sess) (kvs : list (Z * Z)) : res (sess * list out) :=
  match kvs with
  | [] => Ok (x, [])
  | kv :: r =>
    '(x1, y, _) <- step_sess bits x (OInsert (fst kv) (snd kv)) ;;
    '(x2, ys) <- insert_all_sess x1 r ;;
    Ok (x2, y :: ys)
  end.

Lemma insert_all_sess_fold x kvs :
  insert_all_sess x kvs =
  '(x', rys) <-
    fold_left (fun acc kv => '(x0, rys) <- acc ;;
                             '(x1, y, _) <- step_sess bits x0 (OInsert (fst kv) (snd kv)) ;;
                             Ok (x1, y :: rys))
              kvs (Ok (x, [])) ;;
  Ok (x', rev rys).
Proof.
  assert (G : forall kvs x acc,
    ('(x', rys) <-
      fold_left (fun acc kv => '(x0, rys) <- acc ;;
                               '(x1, y, _) <- step_sess bits x0 (OInsert (fst kv) (snd kv)) ;;
                               Ok (x1, y :: rys))
                kvs (Ok (x, acc)) ;;
     Ok (x', rev rys)) =
    ('(x', ys) <- insert_all_sess x kvs ;; Ok (x', rev acc ++ ys))).
  { clear x kvs. induction kvs as [|kv r IH]; intros x acc; cbn [fold_left insert_all_sess bind].
    - rewrite app_nil_r. reflexivity.
    - destruct (step_sess bits x (OInsert (fst kv) (snd kv))) as [[[x1 y] lg]| |] eqn:Ei; cbn [bind].
      + rewrite IH. cbn [rev]. destruct (insert_all_sess x1 r) as [[x2 ys]| |]; cbn [bind]; [|reflexivity..].
        rewrite <- app_assoc. reflexivity.
      + clear IH Ei. induction r as [|kv' r IHr]; cbn [fold_left bind]; [reflexivity|exact IHr].
      + clear IH Ei. induction r as [|kv' r IHr]; cbn [fold_left bind]; [reflexivity|exact IHr]. }
  rewrite G. cbn [rev app]. destruct (insert_all_sess x kvs) as [[x2 ys]| |]; reflexivity.
Qed.

(* the session fold is the history [ins_ops kvs] *)
Lemma insert_all_sess_run kvs : forall x x' ys,
  insert_all_sess x kvs = Ok (x', ys) ->
  run_sess bits x (ins_ops kvs) = map Ok ys /\ final_sess bits x (ins_ops kvs) = Ok x'.
Proof.
  induction kvs as [|[k v] r IH]; intros x x' ys; cbn [insert_all_sess ins_ops map run_sess final_sess fst snd].
  - intros [= <- <-]. split; reflexivity.
  - change (ins_op (k, v)) with (OInsert k v).
    destruct (step_sess bits x (OInsert k v)) as [[[x1 y] lg]| |]; cbn [bind]; try discriminate.
    destruct (insert_all_sess x1 r) as [[x2 ys2]| |] eqn:E; cbn [bind]; try discriminate.
    intros [= <- <-]. destruct (IH x1 x2 ys2 E) as [H1 H2]. fold (ins_ops r).
    rewrite H1, H2. split; reflexivity.
Qed.

(* with a live handle the session fold is the bare fold [insert_all]: no
   re-open, no claim, whatever the size of the buffer *)
Lemma insert_all_sess_live kvs : forall s,
  insert_all_sess (mkSess s true) kvs =
  '(s', slots) <- insert_all bits s kvs ;; Ok (mkSess s' true, map RSlot slots).
Proof.
  induction kvs as [|[k v] r IH]; intros s; cbn [insert_all_sess insert_all bind map fst snd]; [reflexivity|].
  cbn [step_sess claim c_live c_st bind].
  destruct (insert bits s k v) as [[[s1 slot] lg]| |]; cbn [bind]; [|reflexivity..].
  rewrite IH. destruct (insert_all bits s1 r) as [[s2 slots]| |]; reflexivity.
Qed.

Lemma map_RSlot_Some slots : map RSlot (map Some slots) = map (fun i => RSlot (Some i)) slots.
Proof. rewrite map_map. reflexivity. Qed.

(* any number of distinct absent keys up to [cap - size] go in through the
   live handle; the capacity word and the record count stay as they are.
   No premise relates [cap s] and [length (nodes s)]. *)
Theorem insert_all_sess_spec kvs s t fr term :
  Inv bits s t fr term -> okbits bits ->
  NoDup (map fst kvs) -> (forall k, In k (map fst kvs) -> sm_find (inorder t) k = None) ->
  N.of_nat (length kvs) <= cap s - size s ->
  exists s' slots t' fr' term',
    insert_all_sess (mkSess s true) kvs = Ok (mkSess s' true, map (fun i => RSlot (Some i)) slots) /\
    run_sess bits (mkSess s true) (ins_ops kvs) = map Ok (map (fun i => RSlot (Some i)) slots) /\
    final_sess bits (mkSess s true) (ins_ops kvs) = Ok (mkSess s' true) /\
    length slots = length kvs /\
    Inv bits s' t' fr' term' /\ cap s' = cap s /\ length (nodes s') = length (nodes s) /\
    size s' = size s + N.of_nat (length kvs) /\
    (forall k, sm_find (inorder t') k =
               match sm_find (inorder t) k with Some v => Some v | None => sm_find kvs k end) /\
    Permutation (idxs t') (slots ++ idxs t).
Proof.
  intros H Hb Hnd Habs Hlen.
  destruct (insert_all_spec bits kvs s t fr term H Hb Hnd Habs Hlen)
    as (s' & slots & t' & fr' & term' & Hall & Hls & H' & Hcap' & Hlen' & Hsize' & Hfind' & Hperm' & _).
  exists s', slots, t', fr', term'.
  assert (Hs : insert_all_sess (mkSess s true) kvs = Ok (mkSess s' true, map (fun i => RSlot (Some i)) slots)).
  { rewrite insert_all_sess_live, Hall. cbn [bind]. rewrite map_RSlot_Some. reflexivity. }
  destruct (insert_all_sess_run kvs _ _ _ Hs) as [Hr Hf].
  auto 12.
Qed.

(* every prefix: the handle stays live, the capacity word never changes *)
Theorem insert_prefix_sess kvs1 kvs2 s t fr term :
  Inv bits s t fr term -> okbits bits ->
  NoDup (map fst (kvs1 ++ kvs2)) ->
  (forall k, In k (map fst (kvs1 ++ kvs2)) -> sm_find (inorder t) k = None) ->
  N.of_nat (length (kvs1 ++ kvs2)) <= cap s - size s ->
  exists s1 t1 fr1 term1,
    final_sess bits (mkSess s true) (ins_ops kvs1) = Ok (mkSess s1 true) /\
    Inv bits s1 t1 fr1 term1 /\ cap s1 = cap s /\ length (nodes s1) = length (nodes s) /\
    size s1 = size s + N.of_nat (length kvs1) /\
    (kvs2 <> [] -> is_full s1 = false).
Proof.
  intros H Hb Hnd Habs Hlen. rewrite map_app in Hnd, Habs. rewrite app_length in Hlen.
  destruct (insert_all_sess_spec kvs1 s t fr term H Hb)
    as (s1 & slots & t1 & fr1 & term1 & _ & _ & Hf & _ & H1 & Hcap1 & Hlen1 & Hsize1 & _).
  - exact (NoDup_app_l _ _ Hnd).
  - intros k Hk. apply Habs, in_or_app. left. exact Hk.
  - lia.
  - exists s1, t1, fr1, term1. repeat (split; [assumption|]).
    intros Hne. destruct kvs2 as [|kv r]; [contradiction Hne; reflexivity|].
    cbn [length] in Hlen. unfold is_full. lia.
Qed.

(* membership of the new contents *)
Lemma sm_find_kvs_in kvs k v : NoDup (map fst kvs) -> In (k, v) kvs -> sm_find kvs k = Some v.
Proof.
  induction kvs as [|[k1 v1] r IH]; [intros _ []|].
  cbn [map fst]. intros Hnd Hin. inversion Hnd as [|? ? Hk1 Hnd']; subst. cbn [sm_find].
  destruct Hin as [[= -> ->]|Hin]; [rewrite Z.eqb_refl; reflexivity|].
  destruct (Z.eqb_spec k k1) as [->|_]; [|auto].
  exfalso. apply Hk1. apply in_map_iff. exists (k1, v). auto.
Qed.

(* C07, live handle: exactly [cap s - size s] further entries fit *)
Theorem fill_exact_sess s t fr term kvs :
  Inv bits s t fr term -> okbits bits ->
  NoDup (map fst kvs) -> (forall k, In k (map fst kvs) -> sm_find (inorder t) k = None) ->
  N.of_nat (length kvs) = cap s - size s ->
  exists s' slots t' fr' term',
    insert_all_sess (mkSess s true) kvs = Ok (mkSess s' true, map (fun i => RSlot (Some i)) slots) /\
    (* as a history: no Panic / Fuel, every insertion is handed a slot, the handle stays live *)
    run_sess bits (mkSess s true) (ins_ops kvs) = map Ok (map (fun i => RSlot (Some i)) slots) /\
    final_sess bits (mkSess s true) (ins_ops kvs) = Ok (mkSess s' true) /\
    length slots = length kvs /\
    Inv bits s' t' fr' term' /\
    (* the capacity word and the record count are those of the start *)
    cap s' = cap s /\ length (nodes s') = length (nodes s) /\
    size s' = cap s /\ is_full s' = true /\
    (* the contents: every earlier entry with its value, and the new ones *)
    (forall k, sm_find (inorder t') k =
               match sm_find (inorder t) k with Some v => Some v | None => sm_find kvs k end) /\
    (forall k v, sm_find (inorder t) k = Some v -> sm_find (inorder t') k = Some v) /\
    (forall k v, In (k, v) kvs -> sm_find (inorder t') k = Some v) /\
    (* the slots handed out are distinct and none of them was live *)
    NoDup (slots ++ idxs t) /\ Permutation (idxs t') (slots ++ idxs t) /\
    (* the next one is refused whatever the key, the session is left as it is *)
    (forall k v, step_sess bits (mkSess s' true) (OInsert k v) = Ok (mkSess s' true, RSlot None, t_log t' k)) /\
    (forall k v, run_sess bits (mkSess s true) (ins_ops kvs ++ [OInsert k v]) =
                 map Ok (map (fun i => RSlot (Some i)) slots ++ [RSlot None]) /\
                 final_sess bits (mkSess s true) (ins_ops kvs ++ [OInsert k v]) = Ok (mkSess s' true)).
Proof.
  intros H Hb Hnd Habs Hlen.
  destruct (is_full_iff bits s t fr term H) as [_ Hle].
  destruct (insert_all_sess_spec kvs s t fr term H Hb Hnd Habs)
    as (s' & slots & t' & fr' & term' & Hs & Hr & Hf & Hls & H' & Hcap' & Hlen' & Hsize' & Hfind' & Hperm'); [lia|].
  assert (Hfull : is_full s' = true) by (unfold is_full; lia).
  assert (Hstep : forall k v, step_sess bits (mkSess s' true) (OInsert k v) = Ok (mkSess s' true, RSlot None, t_log t' k)).
  { intros k v. cbn [step_sess claim c_live c_st bind].
    rewrite (full_refuses bits s' t' fr' term' k v H' Hb Hfull). reflexivity. }
  exists s', slots, t', fr', term'.
  split; [exact Hs|]. split; [exact Hr|]. split; [exact Hf|]. split; [exact Hls|]. split; [exact H'|].
  split; [exact Hcap'|]. split; [exact Hlen'|]. split; [lia|]. split; [exact Hfull|].
  split; [exact Hfind'|]. split; [|split; [|split; [|split; [|split]]]].
  - intros k v Hk. rewrite Hfind', Hk. reflexivity.
  - intros k v Hin. rewrite Hfind', (Habs k); [apply sm_find_kvs_in; assumption|].
    apply in_map_iff. exists (k, v). auto.
  - eapply Permutation_NoDup; [exact Hperm'|]. exact (inv_nodup _ _ _ _ _ H').
  - exact Hperm'.
  - exact Hstep.
  - intros k v. rewrite (run_sess_app bits _ _ _ [OInsert k v] Hf), (final_sess_app bits _ _ _ [OInsert k v] Hf), Hr.
    cbn [run_sess final_sess]. rewrite Hstep. cbn [bind]. rewrite map_app. split; reflexivity.
Qed.

(* the same, counted in entries: a tree with [n] entries and capacity word
   [c] takes exactly [c - n] more through the live handle *)
Corollary fill_exact_sess_entries s t fr term kvs n :
  Inv bits s t fr term -> okbits bits -> n = N.of_nat (length (inorder t)) ->
  NoDup (map fst kvs) -> (forall k, In k (map fst kvs) -> sm_find (inorder t) k = None) ->
  N.of_nat (length kvs) = cap s - n ->
  exists s' slots t' fr' term',
    run_sess bits (mkSess s true) (ins_ops kvs) = map Ok (map (fun i => RSlot (Some i)) slots) /\
    final_sess bits (mkSess s true) (ins_ops kvs) = Ok (mkSess s' true) /\
    length slots = length kvs /\ Inv bits s' t' fr' term' /\
    cap s' = cap s /\ length (nodes s') = length (nodes s) /\
    N.of_nat (length (inorder t')) = cap s /\ is_full s' = true /\
    (forall k v, step_sess bits (mkSess s' true) (OInsert k v) = Ok (mkSess s' true, RSlot None, t_log t' k)).
Proof.
  intros H Hb -> Hnd Habs Hlen. rewrite <- (inv_size bits _ _ _ _ H) in Hlen.
  destruct (fill_exact_sess s t fr term kvs H Hb Hnd Habs Hlen)
    as (s' & slots & t' & fr' & term' & _ & Hr & Hf & Hls & H' & Hcap' & Hlen' & Hsize' & Hfull' & _ & _ & _ & _ & _ & Hstep & _).
  exists s', slots, t', fr', term'. rewrite <- (inv_size bits _ _ _ _ H'). auto 10.
Qed.

(* the view opened anew, whatever the handle flag *)
Theorem open_mut_sess_spec s t fr term live :
  Inv bits s t fr term -> sizecond bits s ->
  exists s1 fr1,
    step_sess bits (mkSess s live) OOpenMut = Ok (mkSess s1 true, RUnit, []) /\
    Inv bits s1 t fr1 term /\ cap s1 = N.max (cap s) (nrec s) /\
    length (nodes s1) = length (nodes s) /\ size s1 = size s /\ settled s1 /\
    (settled s -> s1 = s /\ fr1 = fr).
Proof.
  intros H Hsc.
  destruct (open_mut_inv_spec bits s t fr term H Hsc) as (s1 & fr1 & Hom & H1 & Hcap1 & Hcap2 & Hlen1 & Hsame).
  exists s1, fr1. cbn [step_sess c_st]. rewrite Hom. cbn [bind].
  split; [reflexivity|]. split; [exact H1|]. split; [exact Hcap1|]. split; [exact Hlen1|].
  split; [rewrite (inv_size bits _ _ _ _ H), (inv_size bits _ _ _ _ H1); reflexivity|].
  split; [unfold settled, nrec; rewrite Hlen1; lia|]. exact Hsame.
Qed.

(* a buffer larger than the capacity word: the spare records are NOT
   available to the live handle.  After the [cap s - size s] insertions the
   tree is full although [nrec s - cap s] records have never been used; they
   become available when the view is opened anew ([OOpenMut]), and then
   exactly that many more entries fit. *)
Theorem fill_exact_sess_spare s t fr term kvs kvs2 :
  Inv bits s t fr term -> okbits bits -> sizecond bits s -> cap s < nrec s ->
  NoDup (map fst (kvs ++ kvs2)) ->
  (forall k, In k (map fst (kvs ++ kvs2)) -> sm_find (inorder t) k = None) ->
  N.of_nat (length kvs) = cap s - size s ->
  N.of_nat (length kvs2) = nrec s - cap s ->
  exists s' slots t' fr' term' s1 fr1 s2 slots2 t2 fr2 term2,
    (* the live handle: exactly [cap s - size s] go in *)
    run_sess bits (mkSess s true) (ins_ops kvs) = map Ok (map (fun i => RSlot (Some i)) slots) /\
    final_sess bits (mkSess s true) (ins_ops kvs) = Ok (mkSess s' true) /\
    length slots = length kvs /\ Inv bits s' t' fr' term' /\
    cap s' = cap s /\ nrec s' = nrec s /\ size s' = cap s /\ size s' < nrec s' /\ is_full s' = true /\
    (forall k v, step_sess bits (mkSess s' true) (OInsert k v) = Ok (mkSess s' true, RSlot None, t_log t' k)) /\
    (* the view opened anew: the spare records are adopted *)
    step_sess bits (mkSess s' true) OOpenMut = Ok (mkSess s1 true, RUnit, []) /\
    Inv bits s1 t' fr1 term' /\ cap s1 = nrec s /\ is_full s1 = false /\
    (* and exactly [nrec s - cap s] more go in *)
    run_sess bits (mkSess s1 true) (ins_ops kvs2) = map Ok (map (fun i => RSlot (Some i)) slots2) /\
    final_sess bits (mkSess s1 true) (ins_ops kvs2) = Ok (mkSess s2 true) /\
    length slots2 = length kvs2 /\ Inv bits s2 t2 fr2 term2 /\
    cap s2 = nrec s /\ size s2 = nrec s /\ is_full s2 = true /\
    (forall k v, step_sess bits (mkSess s2 true) (OInsert k v) = Ok (mkSess s2 true, RSlot None, t_log t2 k)) /\
    (* as one history *)
    run_sess bits (mkSess s true) (ins_ops kvs ++ OOpenMut :: ins_ops kvs2) =
      map Ok (map (fun i => RSlot (Some i)) slots ++ RUnit :: map (fun i => RSlot (Some i)) slots2).
Proof.
  intros H Hb Hsc Hlt Hnd Habs Hl1 Hl2. rewrite map_app in Hnd, Habs.
  assert (Hnd1 : NoDup (map fst kvs)) by exact (NoDup_app_l _ _ Hnd).
  assert (Hnd2 : NoDup (map fst kvs2)).
  { clear - Hnd. induction (map fst kvs) as [|a l IH]; cbn [app] in Hnd; [exact Hnd|].
    inversion Hnd; subst. auto. }
  assert (Hdisj : forall k, In k (map fst kvs) -> In k (map fst kvs2) -> False).
  { clear - Hnd. induction (map fst kvs) as [|a l IH]; cbn [app] in Hnd; [intros k []|].
    inversion Hnd as [|? ? Ha Hl]; subst. intros k [<-|Hk] Hk2; [apply Ha, in_or_app; right; exact Hk2|eauto]. }
  destruct (fill_exact_sess s t fr term kvs H Hb Hnd1) as
    (s' & slots & t' & fr' & term' & _ & Hr & Hf & Hls & H' & Hcap' & Hlen' & Hsize' & Hfull' & Hfind' & _ & _ & _ & _ & Hstep & _).
  { intros k Hk. apply Habs, in_or_app. left. exact Hk. }
  { exact Hl1. }
  assert (Hn' : nrec s' = nrec s) by (unfold nrec; rewrite Hlen'; reflexivity).
  assert (Hsc' : sizecond bits s') by (apply (sizecond_mono bits s); [exact Hlen'|lia|exact Hsc]).
  destruct (open_mut_sess_spec s' t' fr' term' true H' Hsc')
    as (s1 & fr1 & Hom & H1 & Hcap1 & Hlen1 & Hsize1 & Hst1 & _).
  assert (Hc1 : cap s1 = nrec s) by lia.
  destruct (fill_exact_sess s1 t' fr1 term' kvs2 H1 Hb Hnd2) as
    (s2 & slots2 & t2 & fr2 & term2 & _ & Hr2 & Hf2 & Hls2 & H2 & Hcap2 & Hlen2 & Hsize2 & Hfull2 & _ & _ & _ & _ & _ & Hstep2 & _).
  { intros k Hk. rewrite Hfind', (Habs k) by (apply in_or_app; right; exact Hk).
    apply sm_find_notin. intros Hin. exact (Hdisj k Hin Hk). }
  { lia. }
  exists s', slots, t', fr', term', s1, fr1, s2, slots2, t2, fr2, term2.
  split; [exact Hr|]. split; [exact Hf|]. split; [exact Hls|]. split; [exact H'|]. split; [exact Hcap'|].
  split; [exact Hn'|]. split; [exact Hsize'|]. split; [lia|]. split; [exact Hfull'|]. split; [exact Hstep|].
  split; [exact Hom|]. split; [exact H1|]. split; [exact Hc1|]. split; [unfold is_full; lia|].
  split; [exact Hr2|]. split; [exact Hf2|]. split; [exact Hls2|]. split; [exact H2|].
  split; [lia|]. split; [lia|]. split; [exact Hfull2|]. split; [exact Hstep2|].
  rewrite (run_sess_app bits _ _ _ _ Hf), Hr. cbn [run_sess]. rewrite Hom, Hr2, map_app. reflexivity.
Qed.

(* every live slot lies within the capacity WORD: a spare record (an index
   above [cap s]) is never in use, however large the buffer *)
Lemma live_slots_within_cap s t fr term i :
  Inv bits s t fr term -> In i (idxs t) -> 1 <= i /\ i <= cap s /\ i <= nrec s.
Proof.
  intros H Hi. pose proof (inv_alloc _ _ _ _ _ H) as Ha.
  destruct (ai_range _ _ _ _ _ Ha i (in_or_app _ _ _ (or_introl Hi))) as [H1 H2].
  pose proof (ai_lseq2 _ _ _ _ _ Ha). pose proof (ai_caplen _ _ _ _ _ Ha). unfold nrec. lia.
Qed.

(* no storage is handed out twice, live handle: the slot of a successful
   insertion is not the slot of any live entry; it is the head of the free
   list, or the cursor when the free list is empty; it lies within the
   capacity word (never a spare record); the handle stays live and the
   capacity word is unchanged *)
Theorem insert_fresh_slot_sess s t fr term k v x' new log :
  Inv bits s t fr term -> okbits bits ->
  step_sess bits (mkSess s true) (OInsert k v) = Ok (x', RSlot (Some new), log) ->
  c_live x' = true /\ cap (c_st x') = cap s /\ length (nodes (c_st x')) = length (nodes s) /\
  ~ In new (idxs t) /\
  (forall k0 slot v0, t_find t k0 = Some (slot, v0) -> slot <> new) /\
  ((exists fr', fr = new :: fr') \/ (fr = [] /\ new = lseq bits s)) /\
  1 <= new /\ new <= cap s /\
  exists fr' term', Inv bits (c_st x') (t_insert t new k v) fr' term'.
Proof.
  intros H Hb Hstep. cbn [step_sess claim c_live c_st bind] in Hstep.
  destruct (insert bits s k v) as [[[s2 r] lg]| |] eqn:Ei; cbn [bind] in Hstep; try discriminate.
  injection Hstep as <- -> _. cbn [c_live c_st].
  destruct (insert_fresh_slot bits s t fr term k v s2 new lg H Hb Ei) as (Hnew & Hfind & Hcase).
  destruct (insert_spec bits s t fr term k v H Hb) as (Hp & Hfc & Hins).
  destruct (t_find t k) as [x|] eqn:Ef; [rewrite Hp in Ei by discriminate; discriminate|].
  destruct (is_full s) eqn:Efull; [rewrite Hfc in Ei by reflexivity; discriminate|].
  destruct (Hins eq_refl eq_refl) as (s1 & new1 & fr1 & term1 & Hi1 & H1 & _ & Hcap1 & Hlen1 & _).
  rewrite Hi1 in Ei. injection Ei as -> -> _.
  pose proof (inv_bst _ _ _ _ _ H) as Hbst.
  destruct (t_insert_correct t new k v (inv_hok _ _ _ _ _ H) (inv_avl _ _ _ _ _ H) Hbst
              (proj1 (t_find_none_iff t k Hbst) Ef)) as (_ & _ & _ & _ & _ & _ & Hperm & _).
  assert (Hin : In new (idxs (t_insert t new k v))).
  { apply (Permutation_in _ (Permutation_sym Hperm)). left. reflexivity. }
  destruct (live_slots_within_cap s2 _ _ _ new H1 Hin) as (Hn1 & Hn2 & _).
  split; [reflexivity|]. split; [exact Hcap1|]. split; [exact Hlen1|]. split; [exact Hnew|].
  split; [exact Hfind|]. split; [exact Hcase|]. split; [exact Hn1|]. split; [lia|].
  exists fr1, term1. exact H1.
Qed.

(* whatever the handle flag (the dead handle re-opens first) *)
Theorem insert_fresh_slot_sess_any s t fr term live k v x' new log :
  Inv bits s t fr term -> okbits bits -> sizecond bits s ->
  step_sess bits (mkSess s live) (OInsert k v) = Ok (x', RSlot (Some new), log) ->
  c_live x' = true /\ ~ In new (idxs t) /\
  (forall k0 slot v0, t_find t k0 = Some (slot, v0) -> slot <> new) /\
  1 <= new /\ new <= cap (c_st x') /\
  exists fr' term', Inv bits (c_st x') (t_insert t new k v) fr' term'.
Proof.
  intros H Hb Hsc Hstep. destruct live.
  - destruct (insert_fresh_slot_sess s t fr term k v x' new log H Hb Hstep)
      as (Hl & Hcap & _ & Hn & Hf & _ & H1 & H2 & Hi).
    rewrite Hcap. auto 10.
  - destruct (open_mut_inv_spec bits s t fr term H Hsc) as (s1 & fr1 & Hom & H1 & _).
    assert (Hstep1 : step_sess bits (mkSess s1 true) (OInsert k v) = Ok (x', RSlot (Some new), log)).
    { rewrite <- Hstep. cbn [step_sess claim c_live c_st]. rewrite Hom. reflexivity. }
    destruct (insert_fresh_slot_sess s1 t fr1 term k v x' new log H1 Hb Hstep1)
      as (Hl & Hcap & _ & Hn & Hf & _ & Hn1 & Hn2 & Hi).
    rewrite Hcap. auto 10.
Qed.

(* storage released by a removal is reusable, live handle: the slot of the
   removed entry is no longer live, and the next successful insertion
   through the same handle is handed exactly that slot *)
Theorem released_slot_reused_sess s t fr term k slot v :
  Inv bits s t fr term -> okbits bits -> t_find t k = Some (slot, v) ->
  exists s' term',
    step_sess bits (mkSess s true) (ORemove k) = Ok (mkSess s' true, RVal (Some v), t_log t k) /\
    Inv bits s' (t_remove t k) (slot :: fr) term' /\
    In slot (idxs t) /\ ~ In slot (idxs (t_remove t k)) /\
    cap s' = cap s /\ size s' + 1 = size s /\ is_full s' = false /\
    forall k2 v2, t_find (t_remove t k) k2 = None ->
      exists s2 term2,
        step_sess bits (mkSess s' true) (OInsert k2 v2) =
          Ok (mkSess s2 true, RSlot (Some slot), t_log (t_remove t k) k2) /\
        Inv bits s2 (t_insert (t_remove t k) slot k2 v2) fr term2.
Proof.
  intros H Hb Hf.
  destruct (released_slot_reused_final bits s t fr term k slot v H Hb Hf)
    as (s' & term' & Hrm & H' & Hin & Hnin & Hcap' & Hsize' & Hnf & Hnext).
  exists s', term'. cbn [step_sess claim c_live c_st bind]. rewrite Hrm. cbn [bind].
  split; [reflexivity|]. split; [exact H'|]. split; [exact Hin|]. split; [exact Hnin|].
  split; [exact Hcap'|]. split; [exact Hsize'|]. split; [exact Hnf|].
  intros k2 v2 Hk2. destruct (Hnext k2 v2 Hk2) as (s2 & term2 & Hi & H2).
  exists s2, term2. rewrite Hi. cbn [bind]. split; [reflexivity|exact H2].
Qed.

(* C07 whatever the handle flag: with no live handle the first insertion
   re-opens the view, so the spare records count: the effective capacity is
   [cap s] with a live handle and [max (cap s) (nrec s)] without *)
Definition eff_cap (s : st) (live : bool) : N := if live then cap s else N.max (cap s) (nrec s).

Theorem fill_exact_sess_any s t fr term live kvs :
  Inv bits s t fr term -> okbits bits -> sizecond bits s ->
  NoDup (map fst kvs) -> (forall k, In k (map fst kvs) -> sm_find (inorder t) k = None) ->
  N.of_nat (length kvs) = eff_cap s live - size s ->
  exists x' slots t' fr' term',
    run_sess bits (mkSess s live) (ins_ops kvs) = map Ok (map (fun i => RSlot (Some i)) slots) /\
    final_sess bits (mkSess s live) (ins_ops kvs) = Ok x' /\
    length slots = length kvs /\
    Inv bits (c_st x') t' fr' term' /\ sizecond bits (c_st x') /\
    (kvs <> [] -> c_live x' = true) /\
    cap (c_st x') = (if kvs then cap s else eff_cap s live) /\
    length (nodes (c_st x')) = length (nodes s) /\
    size (c_st x') = eff_cap s live /\
    (forall k, sm_find (inorder t') k =
               match sm_find (inorder t) k with Some v => Some v | None => sm_find kvs k end) /\
    NoDup (slots ++ idxs t) /\ Permutation (idxs t') (slots ++ idxs t) /\
    (* the next one is refused *)
    (forall k v, exists x'', step_sess bits x' (OInsert k v) = Ok (x'', RSlot None, t_log t' k) /\
                             size (c_st x'') = size (c_st x') /\ (c_live x' = true -> x'' = x')).
Proof.
  intros H Hb Hsc Hnd Habs Hlen. destruct live.
  - (* live *)
    unfold eff_cap in *.
    destruct (fill_exact_sess s t fr term kvs H Hb Hnd Habs Hlen)
      as (s' & slots & t' & fr' & term' & _ & Hr & Hf & Hls & H' & Hcap' & Hlen' & Hsize' & Hfull' & Hfind' & _ & _ & Hnds & Hperm & Hstep & _).
    exists (mkSess s' true), slots, t', fr', term'. cbn [c_st c_live].
    split; [exact Hr|]. split; [exact Hf|]. split; [exact Hls|]. split; [exact H'|].
    split; [apply (sizecond_mono bits s); [exact Hlen'|lia|exact Hsc]|]. split; [reflexivity|].
    split; [destruct kvs; exact Hcap'|]. split; [exact Hlen'|]. split; [exact Hsize'|].
    split; [exact Hfind'|]. split; [exact Hnds|]. split; [exact Hperm|].
    intros k v. exists (mkSess s' true). rewrite Hstep. auto.
  - (* no live handle *)
    unfold eff_cap in *.
    destruct (open_mut_inv_spec bits s t fr term H Hsc) as (s1 & fr1 & Hom & H1 & Hcap1 & _ & Hlen1 & Hsame).
    pose proof (inv_size bits _ _ _ _ H) as Hsz. pose proof (inv_size bits _ _ _ _ H1) as Hsz1.
    assert (Hsc1 : sizecond bits s1) by (apply (sizecond_mono bits s); [exact Hlen1|lia|exact Hsc]).
    destruct kvs as [|[k0 v0] r].
    + (* nothing to insert: the tree is full and settled *)
      cbn [length] in Hlen. destruct (is_full_iff bits s t fr term H) as [_ Hle].
      pose proof (ai_caplen _ _ _ _ _ (inv_alloc _ _ _ _ _ H)) as Hcl. unfold nrec in *.
      assert (Hst : N.of_nat (length (nodes s)) <= cap s) by lia.
      destruct (Hsame Hst) as [-> ->].
      assert (Hfull : is_full s = true) by (unfold is_full; lia).
      exists (mkSess s false), [], t, fr, term. cbn [ins_ops map run_sess final_sess length app c_st c_live sm_find].
      split; [reflexivity|]. split; [reflexivity|]. split; [reflexivity|]. split; [exact H|]. split; [exact Hsc|].
      split; [intros Hne; contradiction Hne; reflexivity|]. split; [reflexivity|]. split; [reflexivity|].
      split; [lia|]. split; [intros k; destruct (sm_find (inorder t) k); reflexivity|].
      split; [exact (inv_nodup _ _ _ _ _ H)|]. split; [reflexivity|].
      intros k v. exists (mkSess s true). cbn [step_sess claim c_live c_st]. rewrite Hom. cbn [bind].
      rewrite (full_refuses bits s t fr term k v H Hb Hfull). cbn [bind c_st].
      split; [reflexivity|]. split; [reflexivity|discriminate].
    + (* the first insertion re-opens: then the live case on the re-opened state *)
      assert (Hrun : forall ops, run_sess bits (mkSess s false) (OInsert k0 v0 :: ops) =
                                 run_sess bits (mkSess s1 true) (OInsert k0 v0 :: ops) /\
                                 final_sess bits (mkSess s false) (OInsert k0 v0 :: ops) =
                                 final_sess bits (mkSess s1 true) (OInsert k0 v0 :: ops)).
      { intros ops. cbn [run_sess final_sess step_sess claim c_live c_st]. rewrite Hom. split; reflexivity. }
      destruct (fill_exact_sess s1 t fr1 term ((k0, v0) :: r) H1 Hb Hnd Habs)
        as (s' & slots & t' & fr' & term' & _ & Hr & Hf & Hls & H' & Hcap' & Hlen' & Hsize' & Hfull' & Hfind' & _ & _ & Hnds & Hperm & Hstep & _).
      { unfold nrec in *. lia. }
      exists (mkSess s' true), slots, t', fr', term'. cbn [c_st c_live].
      cbn [ins_ops map] in *. change (ins_op (k0, v0)) with (OInsert k0 v0) in *.
      destruct (Hrun (map ins_op r)) as [-> ->].
      split; [exact Hr|]. split; [exact Hf|]. split; [exact Hls|]. split; [exact H'|].
      split; [apply (sizecond_mono bits s1); [exact Hlen'|lia|exact Hsc1]|]. split; [reflexivity|].
      split; [unfold nrec; lia|]. split; [lia|]. split; [unfold nrec; lia|].
      split; [exact Hfind'|]. split; [exact Hnds|]. split; [exact Hperm|].
      intros k v. exists (mkSess s' true). rewrite Hstep. auto.
Qed.

(* ---- in every state reached by a session on an initialised buffer ---- *)

(* the state a session history ends in *)
Lemma final_sess_state capacity nr keep ops x :
  okbits bits -> capacity <= nr -> capacity < 2 ^ bits -> (bits <> 8 -> capacity + 1 < 2 ^ bits) ->
  (nr <= capacity \/ nr + 1 < 2 ^ bits) ->
  growth_okw_sess bits (spec_init_sess capacity nr keep) ops ->
  final_sess bits (init_sess capacity nr keep) ops = Ok x ->
  exists t fr term,
    Inv bits (c_st x) t fr term /\ sizecond bits (c_st x) /\
    mkSSess (abs_of (c_st x) t) (c_live x) = final_s_sess (spec_init_sess capacity nr keep) ops.
Proof.
  intros Hb H0 H1 H2 H3 Hg Hf.
  destruct (final_sess_refines_w bits capacity nr keep ops Hb H0 H1 H2 H3 Hg)
    as (s & live & t & fr & term & Hf' & H & Hsc & Habs).
  rewrite Hf in Hf'. injection Hf' as ->. exists t, fr, term. cbn [c_st c_live]. auto.
Qed.

(* C07 at a live handle, reachable form.  The capacity word of the state is
   the [scap] of the spec session state; with [capacity < nr] and the
   initialising handle kept it is still [capacity] as long as no view has
   been opened anew. *)
Theorem fill_exact_sess_reachable capacity nr keep ops s :
  okbits bits -> capacity <= nr -> capacity < 2 ^ bits -> (bits <> 8 -> capacity + 1 < 2 ^ bits) ->
  (nr <= capacity \/ nr + 1 < 2 ^ bits) ->
  growth_okw_sess bits (spec_init_sess capacity nr keep) ops ->
  final_sess bits (init_sess capacity nr keep) ops = Ok (mkSess s true) ->
  exists t fr term,
    Inv bits s t fr term /\ sizecond bits s /\
    mkSSess (abs_of s t) true = final_s_sess (spec_init_sess capacity nr keep) ops /\
    cap s = scap (a_st (final_s_sess (spec_init_sess capacity nr keep) ops)) /\
    size s = s_len (a_st (final_s_sess (spec_init_sess capacity nr keep) ops)) /\
    (forall k, get s k = Ok (sm_find (inorder t) k, t_log t k)) /\
    (is_full s = true <-> size s = cap s) /\ size s <= cap s /\
    forall kvs,
      NoDup (map fst kvs) -> (forall k, In k (map fst kvs) -> sm_find (inorder t) k = None) ->
      N.of_nat (length kvs) = cap s - size s ->
      exists s' slots t' fr' term',
        run_sess bits (mkSess s true) (ins_ops kvs) = map Ok (map (fun i => RSlot (Some i)) slots) /\
        final_sess bits (mkSess s true) (ins_ops kvs) = Ok (mkSess s' true) /\
        final_sess bits (init_sess capacity nr keep) (ops ++ ins_ops kvs) = Ok (mkSess s' true) /\
        length slots = length kvs /\ Inv bits s' t' fr' term' /\
        cap s' = cap s /\ length (nodes s') = length (nodes s) /\ size s' = cap s /\ is_full s' = true /\
        (forall k v, sm_find (inorder t) k = Some v -> sm_find (inorder t') k = Some v) /\
        (forall k v, In (k, v) kvs -> sm_find (inorder t') k = Some v) /\
        NoDup (slots ++ idxs t) /\
        (forall k v, step_sess bits (mkSess s' true) (OInsert k v) = Ok (mkSess s' true, RSlot None, t_log t' k)).
Proof.
  intros Hb H0 H1 H2 H3 Hg Hf.
  destruct (final_sess_state capacity nr keep ops _ Hb H0 H1 H2 H3 Hg Hf) as (t & fr & term & H & Hsc & Habs).
  cbn [c_st c_live] in *. exists t, fr, term.
  split; [exact H|]. split; [exact Hsc|]. split; [exact Habs|].
  split; [rewrite <- Habs; reflexivity|].
  split; [rewrite <- Habs; unfold s_len; cbn [a_st abs_of sents]; exact (inv_size bits _ _ _ _ H)|].
  split; [intros k; apply (get_inv_spec bits _ _ _ _ k H)|].
  destruct (is_full_iff bits s t fr term H) as [Hiff Hle]. split; [exact Hiff|]. split; [exact Hle|].
  intros kvs Hnd Ha Hlen.
  destruct (fill_exact_sess s t fr term kvs H Hb Hnd Ha Hlen)
    as (s' & slots & t' & fr' & term' & _ & Hr & Hf' & Hls & H' & Hcap' & Hlen' & Hsize' & Hfull' & _ & Hold & Hnew & Hnds & _ & Hstep & _).
  exists s', slots, t', fr', term'.
  split; [exact Hr|]. split; [exact Hf'|]. split; [rewrite (final_sess_app bits _ _ _ _ Hf); exact Hf'|].
  auto 12.
Qed.

(* whatever the handle flag at the end of the history *)
Theorem fill_exact_sess_any_reachable capacity nr keep ops s live :
  okbits bits -> capacity <= nr -> capacity < 2 ^ bits -> (bits <> 8 -> capacity + 1 < 2 ^ bits) ->
  (nr <= capacity \/ nr + 1 < 2 ^ bits) ->
  growth_okw_sess bits (spec_init_sess capacity nr keep) ops ->
  final_sess bits (init_sess capacity nr keep) ops = Ok (mkSess s live) ->
  exists t fr term,
    Inv bits s t fr term /\ sizecond bits s /\
    mkSSess (abs_of s t) live = final_s_sess (spec_init_sess capacity nr keep) ops /\
    forall kvs,
      NoDup (map fst kvs) -> (forall k, In k (map fst kvs) -> sm_find (inorder t) k = None) ->
      N.of_nat (length kvs) = eff_cap s live - size s ->
      exists x' slots t' fr' term',
        run_sess bits (mkSess s live) (ins_ops kvs) = map Ok (map (fun i => RSlot (Some i)) slots) /\
        final_sess bits (mkSess s live) (ins_ops kvs) = Ok x' /\
        length slots = length kvs /\
        Inv bits (c_st x') t' fr' term' /\
        size (c_st x') = eff_cap s live /\
        NoDup (slots ++ idxs t) /\
        (forall k v, exists x'', step_sess bits x' (OInsert k v) = Ok (x'', RSlot None, t_log t' k) /\
                                 size (c_st x'') = size (c_st x')).
Proof.
  intros Hb H0 H1 H2 H3 Hg Hf.
  destruct (final_sess_state capacity nr keep ops _ Hb H0 H1 H2 H3 Hg Hf) as (t & fr & term & H & Hsc & Habs).
  cbn [c_st c_live] in *. exists t, fr, term.
  split; [exact H|]. split; [exact Hsc|]. split; [exact Habs|].
  intros kvs Hnd Ha Hlen.
  destruct (fill_exact_sess_any s t fr term live kvs H Hb Hsc Hnd Ha Hlen)
    as (x' & slots & t' & fr' & term' & Hr & Hf' & Hls & H' & _ & _ & _ & _ & Hsize' & _ & Hnds & _ & Hstep).
  exists x', slots, t', fr', term'.
  split; [exact Hr|]. split; [exact Hf'|]. split; [exact Hls|]. split; [exact H'|]. split; [exact Hsize'|].
  split; [exact Hnds|]. intros k v. destruct (Hstep k v) as (x'' & E1 & E2 & _). exists x''. auto.
Qed.

(* the case the task is about: a tree initialised with [capacity] over a
   buffer of [nr > capacity] records, the initialising handle kept, and any
   history that keeps the handle: exactly [capacity - size] more fit *)
Theorem fill_exact_sess_keep capacity nr ops :
  okbits bits -> capacity <= nr -> capacity < 2 ^ bits -> (bits <> 8 -> capacity + 1 < 2 ^ bits) ->
  Forall keeps_handle ops ->
  exists s t fr term,
    final_sess bits (init_sess capacity nr true) ops = Ok (mkSess s true) /\
    Inv bits s t fr term /\ cap s = capacity /\ nrec s = nr /\ size s <= capacity /\
    forall kvs,
      NoDup (map fst kvs) -> (forall k, In k (map fst kvs) -> sm_find (inorder t) k = None) ->
      N.of_nat (length kvs) = capacity - size s ->
      exists s' slots t' fr' term',
        run_sess bits (mkSess s true) (ins_ops kvs) = map Ok (map (fun i => RSlot (Some i)) slots) /\
        final_sess bits (init_sess capacity nr true) (ops ++ ins_ops kvs) = Ok (mkSess s' true) /\
        length slots = length kvs /\ Inv bits s' t' fr' term' /\
        cap s' = capacity /\ nrec s' = nr /\ size s' = capacity /\ is_full s' = true /\
        (forall k v, step_sess bits (mkSess s' true) (OInsert k v) = Ok (mkSess s' true, RSlot None, t_log t' k)).
Proof.
  intros Hb H0 H1 H2 Hk. destruct (inv_init_gen bits capacity nr H0 H1 H2) as [Hinv _].
  destruct (sess_capacity_stable_run bits ops _ _ _ _ Hinv Hb Hk)
    as (s & t & fr & term & Hf & H & Hcap & Hlen & _).
  assert (Hc0 : cap (init_c capacity nr) = capacity) by reflexivity.
  assert (Hn0 : nrec (init_c capacity nr) = nr).
  { unfold nrec, init_c, initialize. cbn [nodes]. rewrite repeat_length. lia. }
  exists s, t, fr, term. unfold init_sess.
  split; [exact Hf|]. split; [exact H|]. split; [lia|]. split; [unfold nrec in *; rewrite Hlen; exact Hn0|].
  destruct (is_full_iff bits s t fr term H) as [_ Hle]. split; [lia|].
  intros kvs Hnd Ha Hl.
  destruct (fill_exact_sess s t fr term kvs H Hb Hnd Ha)
    as (s' & slots & t' & fr' & term' & _ & Hr & Hf' & Hls & H' & Hcap' & Hlen' & Hsize' & Hfull' & _ & _ & _ & _ & _ & Hstep & _); [lia|].
  exists s', slots, t', fr', term'.
  split; [exact Hr|]. split; [rewrite (final_sess_app bits _ _ _ _ Hf); exact Hf'|]. split; [exact Hls|].
  split; [exact H'|]. split; [lia|]. split; [unfold nrec in *; rewrite Hlen', Hlen; exact Hn0|].
  split; [lia|]. split; [exact Hfull'|]. exact Hstep.
Qed.
End Cap.

(* ------------------------------------------------------------------ *)
(* 2. the end-to-end bytes theorem for sessions                        *)

(* 2a. the word invariant along a session *)
Section WordsSess.
Variable bits : N.

Lemma claim_w x s1 : claim bits x = Ok s1 -> words_ok bits (c_st x) -> words_ok bits s1.
Proof.
  destruct x as [s live]. unfold claim. cbn [c_live c_st]. destruct live.
  - intros [= <-] Hs. exact Hs.
  - intros Ho Hs. exact (open_mut_w bits s s1 Hs Ho).
Qed.

Theorem step_sess_words_ok x o x' out log :
  step_sess bits x o = Ok (x', out, log) -> words_ok bits (c_st x) -> words_ok bits (c_st x').
Proof.
  intros H Hs. destruct o as [k v|k|k|k v|k|k| | | | | |n| |]; cbn [step_sess] in H.
  - binv H s1 Eo. binv H q Ei. destruct q as [[s2 r] lg]. cbv beta iota in H. injection H as <- _ _.
    cbn [c_st]. apply (insert_w bits _ _ _ _ _ _ (claim_w _ _ Eo Hs) Ei).
  - binv H s1 Eo. binv H q Er. destruct q as [[s2 r] lg]. cbv beta iota in H. injection H as <- _ _.
    cbn [c_st]. apply (remove_w bits _ _ _ _ _ (claim_w _ _ Eo Hs) Er).
  - binv H q Eg. destruct q as [r lg]. cbv beta iota in H. injection H as <- _ _. exact Hs.
  - binv H s1 Eo. binv H q Eg. destruct q as [[s2 r] lg]. cbv beta iota in H. injection H as <- _ _.
    cbn [c_st]. apply (get_mut_set_w bits _ _ _ _ _ _ (claim_w _ _ Eo Hs) Eg).
  - binv H s1 Eo. binv H q Eg. destruct q as [r lg]. cbv beta iota in H. injection H as <- _ _.
    cbn [c_st]. apply (claim_w _ _ Eo Hs).
  - binv H q Eg. destruct q as [r lg]. cbv beta iota in H. injection H as <- _ _. exact Hs.
  - binv H r Eg. injection H as <- _ _. exact Hs.
  - injection H as <- _ _. exact Hs.
  - injection H as <- _ _. exact Hs.
  - injection H as <- _ _. exact Hs.
  - injection H as <- _ _. exact Hs.
  - injection H as <- _ _. cbn [c_st]. apply ext_nodes_w. exact Hs.
  - binv H s1 Eo. injection H as <- _ _. cbn [c_st]. apply (open_mut_w bits _ _ Hs Eo).
  - injection H as <- _ _. exact Hs.
Qed.

Lemma final_sess_words_ok ops : forall x x',
  words_ok bits (c_st x) -> final_sess bits x ops = Ok x' -> words_ok bits (c_st x').
Proof.
  induction ops as [|o r IH]; intros x x' Hs H; cbn [final_sess] in H.
  - injection H as <-. exact Hs.
  - binv H q Es. destruct q as [[x1 y] lg]. cbv beta iota in H.
    apply (IH x1 x'); [|exact H]. apply (step_sess_words_ok x o x1 y lg Es Hs).
Qed.

Theorem run_sess_words_ok capacity nr keep ops x :
  1 <= bits -> capacity < 2 ^ bits ->
  final_sess bits (init_sess capacity nr keep) ops = Ok x -> words_ok bits (c_st x).
Proof.
  intros Hb Hc H. apply (final_sess_words_ok ops (init_sess capacity nr keep) x); [|exact H].
  unfold init_sess. cbn [c_st]. apply words_ok_init; assumption.
Qed.
End WordsSess.

(* 2b. every stored entry was an argument of an earlier operation *)

Lemma spec_op_ents a o k v :
  In (k, v) (sents (fst (spec_op a o))) ->
  In (k, v) (sents a) \/ o = OInsert k v \/ (o = OGetMut k v /\ exists v0, In (k, v0) (sents a)).
Proof.
  destruct o as [k0 v0|k0|k0|k0 v0|k0|k0| | | | | |n| |]; cbn [spec_op];
    try (cbn [fst sents s_claim]; intros Hx; left; exact Hx).
  - (* OInsert *)
    destruct (sm_find (sents a) k0); [cbn [fst sents]; intros Hx; left; exact Hx|].
    match goal with |- context [if ?c then _ else _] => destruct c end;
      cbn [fst sents]; [intros Hx; left; exact Hx|].
    intros Hx. destruct (sm_insert_in _ _ _ _ _ Hx) as [Hin|He]; [left; exact Hin|].
    right. left. injection He as -> ->. reflexivity.
  - (* ORemove *)
    cbn [fst sents]. intros Hx. left. apply (sm_remove_in _ _ _ Hx).
  - (* OGetMut *)
    cbn [fst sents]. intros Hx.
    destruct (sm_update_in _ _ _ _ _ Hx) as [Hin|(-> & -> & v1 & Hin)]; [left; exact Hin|].
    right. right. split; [reflexivity|]. exists v1. exact Hin.
Qed.

Lemma spec_step_sess_ents x o k v :
  In (k, v) (sents (a_st (fst (spec_step_sess x o)))) ->
  In (k, v) (sents (a_st x)) \/ o = OInsert k v \/ (o = OGetMut k v /\ exists v0, In (k, v0) (sents (a_st x))).
Proof.
  rewrite spec_step_sess_eq. cbv zeta. cbn [fst a_st]. intros Hx.
  apply spec_op_ents in Hx.
  destruct (needs_mut o && negb (a_live x)); cbn [s_claim sents] in Hx; exact Hx.
Qed.

Lemma spec_step_sess_key x o k :
  (exists v, In (k, v) (sents (a_st (fst (spec_step_sess x o))))) ->
  (exists v, In (k, v) (sents (a_st x))) \/ exists v, o = OInsert k v.
Proof.
  intros (v & Hx). destruct (spec_step_sess_ents x o k v Hx) as [Hin|[He|(_ & v0 & Hin)]].
  - left. exists v. exact Hin.
  - right. exists v. exact He.
  - left. exists v0. exact Hin.
Qed.

Lemma final_s_sess_key ops : forall x k,
  (exists v, In (k, v) (sents (a_st (final_s_sess x ops)))) ->
  (exists v, In (k, v) (sents (a_st x))) \/ exists v, In (OInsert k v) ops.
Proof.
  induction ops as [|o r IH]; intros x k; cbn [final_s_sess]; [intros Hx; left; exact Hx|].
  intros Hx. destruct (IH _ _ Hx) as [H1|(v & H1)].
  - destruct (spec_step_sess_key x o k H1) as [H2|(v & ->)]; [left; exact H2|].
    right. exists v. left. reflexivity.
  - right. exists v. right. exact H1.
Qed.

Lemma final_s_sess_ents ops : forall x k v,
  In (k, v) (sents (a_st (final_s_sess x ops))) ->
  In (k, v) (sents (a_st x)) \/ In (OInsert k v) ops \/
  (In (OGetMut k v) ops /\ ((exists v0, In (k, v0) (sents (a_st x))) \/ exists v0, In (OInsert k v0) ops)).
Proof.
  induction ops as [|o r IH]; intros x k v; cbn [final_s_sess]; [intros Hx; left; exact Hx|].
  intros Hx. destruct (IH _ _ _ Hx) as [H1|[H1|(H1 & H2)]].
  - destruct (spec_step_sess_ents x o k v H1) as [H3|[->|(-> & H3)]].
    + left. exact H3.
    + right. left. left. reflexivity.
    + right. right. split; [left; reflexivity|]. left. exact H3.
  - right. left. right. exact H1.
  - right. right. split; [right; exact H1|].
    destruct H2 as [H2|(v0 & H2)].
    + destruct (spec_step_sess_key x o k H2) as [H3|(v0 & ->)]; [left; exact H3|].
      right. exists v0. left. reflexivity.
    + right. exists v0. right. exact H2.
Qed.

Theorem spec_kv_from_ops_sess capacity nr keep ops k v :
  In (k, v) (sents (a_st (final_s_sess (spec_init_sess capacity nr keep) ops))) ->
  In (OInsert k v) ops \/ (In (OGetMut k v) ops /\ exists v0, In (OInsert k v0) ops).
Proof.
  intros Hx. destruct (final_s_sess_ents ops _ _ _ Hx) as [[]|[H1|(H1 & [( v0 & [])|H2])]].
  - left. exact H1.
  - right. split; assumption.
Qed.

Theorem kv_fits_from_ops_sess lay capacity nr keep ops s t live :
  mkSSess (abs_of s t) live = final_s_sess (spec_init_sess capacity nr keep) ops ->
  ops_fit lay ops -> kv_fits lay t.
Proof.
  intros Habs Hfit slot k v Hin. unfold ops_fit in Hfit. rewrite Forall_forall in Hfit.
  assert (Hx : In (k, v) (sents (a_st (final_s_sess (spec_init_sess capacity nr keep) ops)))).
  { rewrite <- Habs. cbn [a_st abs_of sents]. rewrite inorder_triples. apply in_map_iff.
    exists (slot, k, v). split; [reflexivity|exact Hin]. }
  destruct (spec_kv_from_ops_sess capacity nr keep ops k v Hx) as [H1|(H1 & v0 & H2)].
  - exact (Hfit _ H1).
  - split; [exact (proj1 (Hfit _ H2))|exact (proj2 (Hfit _ H1))].
Qed.

(* 2c. the headline statements *)
Section E2ESess.
Variable wbytes : nat.
Variable lay : layout.
Hypothesis Hw : wbytes = 1%nat \/ wbytes = 4%nat.
Hypothesis Hk : 0 < ksz lay.
Hypothesis Hv : 0 < vsz lay.
Local Notation bits := (bits_of wbytes).

(* what a session history from the initialised buffer gives *)
Lemma session_state capacity nr keep ops :
  capacity <= nr -> capacity < 2 ^ bits -> (bits <> 8 -> capacity + 1 < 2 ^ bits) ->
  (nr <= capacity \/ nr + 1 < 2 ^ bits) ->
  growth_okw_sess bits (spec_init_sess capacity nr keep) ops -> ops_fit lay ops ->
  exists s live t fr term,
    final_sess bits (init_sess capacity nr keep) ops = Ok (mkSess s live) /\ Inv bits s t fr term /\
    sizecond bits s /\
    mkSSess (abs_of s t) live = final_s_sess (spec_init_sess capacity nr keep) ops /\
    words_ok bits s /\ kv_fits lay t.
Proof.
  intros H0 H1 H2 H3 Hg Hfit. pose proof (okbits_w wbytes Hw) as Hb.
  destruct (final_sess_refines_w bits capacity nr keep ops Hb H0 H1 H2 H3 Hg)
    as (s & live & t & fr & term & Hf & Hinv & Hsc & Habs).
  exists s, live, t, fr, term. split; [exact Hf|]. split; [exact Hinv|]. split; [exact Hsc|].
  split; [exact Habs|]. split.
  - apply (run_sess_words_ok bits capacity nr keep ops _ (okbits_ge1 bits Hb) H1 Hf).
  - apply (kv_fits_from_ops_sess lay capacity nr keep ops s t live Habs Hfit).
Qed.

(* After every admissible session history whose arguments fit the layout
   (the handle kept or dropped and re-opened anywhere, the buffer possibly
   larger than the capacity): every call returned normally and answered as
   the reference map WITH A HANDLE does; the bytes of the final state
   decode; the independent reader accepts them and reads, in key order,
   exactly the contents of the final spec session state; the header words
   are the spec's length and capacity; the live, recycled and never-used
   slots partition the records of the buffer. *)
Theorem session_bytes_doc capacity nr keep ops :
  capacity <= nr -> capacity < 2 ^ bits -> (bits <> 8 -> capacity + 1 < 2 ^ bits) ->
  (nr <= capacity \/ nr + 1 < 2 ^ bits) ->
  growth_okw_sess bits (spec_init_sess capacity nr keep) ops -> ops_fit lay ops ->
  exists s live outs d,
    final_sess bits (init_sess capacity nr keep) ops = Ok (mkSess s live) /\
    run_sess bits (init_sess capacity nr keep) ops = map Ok outs /\
    map out_abs outs = run_s_sess (spec_init_sess capacity nr keep) ops /\
    live = a_live (final_s_sess (spec_init_sess capacity nr keep) ops) /\
    decode wbytes lay (encode wbytes lay s) = Some s /\
    decode_doc wbytes lay (encode wbytes lay s) = Some d /\
    d_wf d = true /\ d_bst d = true /\ d_bal d = true /\
    map (fun x => (snd (fst x), snd x)) (d_inorder (d_tree d)) =
      sents (a_st (final_s_sess (spec_init_sess capacity nr keep) ops)) /\
    (* the header: length and capacity are the spec's *)
    d_hdr d = [root s; s_len (a_st (final_s_sess (spec_init_sess capacity nr keep) ops));
               scap (a_st (final_s_sess (spec_init_sess capacity nr keep) ops)); flh s; seq s] /\
    word wbytes (encode wbytes lay s) 1 = s_len (a_st (final_s_sess (spec_init_sess capacity nr keep) ops)) /\
    word wbytes (encode wbytes lay s) 2 = scap (a_st (final_s_sess (spec_init_sess capacity nr keep) ops)) /\
    (* live, recycled and never-used slots partition the records *)
    NoDup (map tr_slot (d_inorder (d_tree d)) ++ d_free d ++ d_never d) /\
    (forall i, In i (map tr_slot (d_inorder (d_tree d)) ++ d_free d ++ d_never d) <->
               1 <= i <= snrec (a_st (final_s_sess (spec_init_sess capacity nr keep) ops))) /\
    (* every live slot lies within the capacity word *)
    (forall i, In i (map tr_slot (d_inorder (d_tree d))) ->
               i <= scap (a_st (final_s_sess (spec_init_sess capacity nr keep) ops))) /\
    N.of_nat (length (encode wbytes lay s)) =
      data_len wbytes lay (snrec (a_st (final_s_sess (spec_init_sess capacity nr keep) ops))).
Proof.
  intros H0 H1 H2 H3 Hg Hfit. pose proof (okbits_w wbytes Hw) as Hb.
  destruct (session_state capacity nr keep ops H0 H1 H2 H3 Hg Hfit)
    as (s & live & t & fr & term & Hf & Hinv & Hsc & Habs & Hwo & Hkv).
  destruct (run_sess_refines_w bits capacity nr keep ops Hb H0 H1 H2 H3 Hg) as (outs & Hrun & Hout).
  destruct (avl_doc_w wbytes lay Hw Hk Hv s t fr term Hinv Hkv Hwo)
    as (d & Hd & Hhdr & _ & Htr & Hio & _ & Hfree & _ & _ & Wf & Wb & Wa & Hnd & Hpart & Hlen).
  destruct (inv_header_words_w wbytes lay Hw Hk Hv s t fr term Hinv Hkv Hwo) as (_ & Hw1 & Hw2 & _).
  pose proof (inv_size bits _ _ _ _ Hinv) as Hsz.
  exists s, live, outs, d. split; [exact Hf|]. split; [exact Hrun|]. split; [exact Hout|].
  rewrite <- Habs. cbn [a_st a_live abs_of sents snrec scap]. unfold s_len. cbn [sents].
  split; [reflexivity|].
  split; [apply (inv_decode_encode_w wbytes lay Hw Hk Hv s t fr term Hinv Hkv Hwo)|].
  split; [exact Hd|]. split; [exact Wf|]. split; [exact Wb|]. split; [exact Wa|].
  split; [exact Hio|]. split; [rewrite Hhdr, Hsz; reflexivity|].
  split; [rewrite Hw1; exact Hsz|]. split; [exact Hw2|].
  rewrite Htr, <- idxs_triples, Hfree.
  split; [exact Hnd|]. split; [exact Hpart|]. split; [|exact Hlen].
  intros i Hi. destruct (live_slots_within_cap bits s t fr term i Hinv Hi) as (_ & Hc & _). exact Hc.
Qed.

(* with the premises of [run_sess_refines] *)
Corollary session_bytes_doc_simple capacity nr keep ops :
  capacity <= nr -> nr + 1 < 2 ^ bits ->
  growth_okw_sess bits (spec_init_sess capacity nr keep) ops -> ops_fit lay ops ->
  exists s live outs d,
    final_sess bits (init_sess capacity nr keep) ops = Ok (mkSess s live) /\
    run_sess bits (init_sess capacity nr keep) ops = map Ok outs /\
    map out_abs outs = run_s_sess (spec_init_sess capacity nr keep) ops /\
    live = a_live (final_s_sess (spec_init_sess capacity nr keep) ops) /\
    decode wbytes lay (encode wbytes lay s) = Some s /\
    decode_doc wbytes lay (encode wbytes lay s) = Some d /\
    d_wf d = true /\ d_bst d = true /\ d_bal d = true /\
    map (fun x => (snd (fst x), snd x)) (d_inorder (d_tree d)) =
      sents (a_st (final_s_sess (spec_init_sess capacity nr keep) ops)) /\
    (* the header: length and capacity are the spec's *)
    d_hdr d = [root s; s_len (a_st (final_s_sess (spec_init_sess capacity nr keep) ops));
               scap (a_st (final_s_sess (spec_init_sess capacity nr keep) ops)); flh s; seq s] /\
    word wbytes (encode wbytes lay s) 1 = s_len (a_st (final_s_sess (spec_init_sess capacity nr keep) ops)) /\
    word wbytes (encode wbytes lay s) 2 = scap (a_st (final_s_sess (spec_init_sess capacity nr keep) ops)) /\
    (* live, recycled and never-used slots partition the records *)
    NoDup (map tr_slot (d_inorder (d_tree d)) ++ d_free d ++ d_never d) /\
    (forall i, In i (map tr_slot (d_inorder (d_tree d)) ++ d_free d ++ d_never d) <->
               1 <= i <= snrec (a_st (final_s_sess (spec_init_sess capacity nr keep) ops))) /\
    (* every live slot lies within the capacity word *)
    (forall i, In i (map tr_slot (d_inorder (d_tree d))) ->
               i <= scap (a_st (final_s_sess (spec_init_sess capacity nr keep) ops))) /\
    N.of_nat (length (encode wbytes lay s)) =
      data_len wbytes lay (snrec (a_st (final_s_sess (spec_init_sess capacity nr keep) ops))).
Proof.
  intros H0 H1 Hg Hfit. apply session_bytes_doc; auto; try lia.
Qed.

(* Drop and re-open anywhere: run the first part, encode, decode the bytes,
   and continue on the decoded state.  A decoded state has no live handle,
   so the continuation is the session [mkSess _ false]; the interrupted run
   is the uninterrupted session history with [OOpenRo] (drop the handle) at
   that point: same answers, same final state and bytes. *)
Theorem session_history_reopen capacity nr keep ops1 ops2 :
  capacity <= nr -> capacity < 2 ^ bits -> (bits <> 8 -> capacity + 1 < 2 ^ bits) ->
  (nr <= capacity \/ nr + 1 < 2 ^ bits) ->
  growth_okw_sess bits (spec_init_sess capacity nr keep) (ops1 ++ OOpenRo :: ops2) ->
  ops_fit lay (ops1 ++ ops2) ->
  exists s1 live1 s1' xf outs,
    final_sess bits (init_sess capacity nr keep) ops1 = Ok (mkSess s1 live1) /\
    decode wbytes lay (encode wbytes lay s1) = Some s1' /\ s1' = s1 /\
    final_sess bits (mkSess s1' false) ops2 = Ok xf /\
    final_sess bits (init_sess capacity nr keep) (ops1 ++ OOpenRo :: ops2) = Ok xf /\
    run_sess bits (init_sess capacity nr keep) (ops1 ++ OOpenRo :: ops2) = map Ok outs /\
    run_sess bits (init_sess capacity nr keep) ops1 ++ Ok RUnit :: run_sess bits (mkSess s1' false) ops2 =
      map Ok outs /\
    map out_abs outs = run_s_sess (spec_init_sess capacity nr keep) (ops1 ++ OOpenRo :: ops2).
Proof.
  intros H0 H1 H2 H3 Hg Hfit. pose proof (okbits_w wbytes Hw) as Hb.
  pose proof (proj1 (proj1 (growth_okw_sess_app bits ops1 _ (OOpenRo :: ops2)) Hg)) as Hg1.
  pose proof (proj1 (proj1 (ops_fit_app lay ops1 ops2) Hfit)) as Hfit1.
  destruct (session_state capacity nr keep ops1 H0 H1 H2 H3 Hg1 Hfit1)
    as (s1 & live1 & t1 & fr1 & term1 & Hf1 & Hinv1 & _ & _ & Hwo1 & Hkv1).
  destruct (final_sess_refines_w bits capacity nr keep (ops1 ++ OOpenRo :: ops2) Hb H0 H1 H2 H3 Hg)
    as (sf & livef & t & fr & term & Hf & _).
  destruct (run_sess_refines_w bits capacity nr keep (ops1 ++ OOpenRo :: ops2) Hb H0 H1 H2 H3 Hg)
    as (outs & Hrun & Hout).
  exists s1, live1, s1, (mkSess sf livef), outs. split; [exact Hf1|].
  split; [apply (inv_decode_encode_w wbytes lay Hw Hk Hv s1 t1 fr1 term1 Hinv1 Hkv1 Hwo1)|].
  split; [reflexivity|].
  pose proof (final_sess_app bits ops1 _ _ (OOpenRo :: ops2) Hf1) as Ea.
  pose proof (run_sess_app bits ops1 _ _ (OOpenRo :: ops2) Hf1) as Eb.
  cbn [final_sess run_sess step_sess c_st bind] in Ea, Eb.
  split; [rewrite <- Ea; exact Hf|]. split; [exact Hf|]. split; [exact Hrun|].
  split; [rewrite <- Eb; exact Hrun|exact Hout].
Qed.

End E2ESess.

(* ------------------------------------------------------------------ *)
(* 3. dropping the handle                                              *)

Definition res_sim {A} (P : A -> A -> Prop) (a b : res A) : Prop :=
  match a, b with
  | Ok x, Ok y => P x y
  | Panic p, Panic q => p = q
  | Fuel, Fuel => True
  | _, _ => False
  end.

(* the queries: neither the state nor the handle is touched *)
Definition query_op (o : op) : Prop :=
  match o with
  | OGet _ | OContains _ | OLowest | OLen | OIsEmpty | OIsFull | OCapacity => True
  | _ => False
  end.

Section Reopen.
Variable bits : N.

(* two sessions on the same state; the handle flags may differ only when
   nothing is pending *)
Definition sess_sim (x y : sess) : Prop :=
  c_st x = c_st y /\ (c_live x = c_live y \/ settled (c_st x)).

Lemma sess_sim_refl x : sess_sim x x.
Proof. split; [reflexivity|left; reflexivity]. Qed.

Definition step_sim (a b : sess * out * list Z) : Prop :=
  sess_sim (fst (fst a)) (fst (fst b)) /\ snd (fst a) = snd (fst b) /\ snd a = snd b.

(* one step: same answer, same log, same outcome, related sessions *)
Lemma step_sess_sim x y o :
  sess_sim x y -> res_sim step_sim (step_sess bits x o) (step_sess bits y o).
Proof.
  destruct x as [s lx], y as [s' ly]. intros [Hs Hl]. cbn [c_st c_live] in Hs, Hl. subst s'.
  assert (Hrefl : forall z, res_sim step_sim (step_sess bits z o) (step_sess bits z o)).
  { intros z. destruct (step_sess bits z o) as [[[z' r] lg]|p|]; cbn [res_sim]; auto.
    split; [apply sess_sim_refl|split; reflexivity]. }
  destruct Hl as [->|Hst]; [apply Hrefl|].
  destruct lx, ly; try apply Hrefl.
  all: pose proof (open_mut_same bits s Hst) as Hom.
  all: destruct o as [k v|k|k|k v|k|k| | | | | |n| |]; cbn [step_sess claim c_live c_st]; rewrite ?Hom; cbn [bind].
  all: try match goal with
       | |- context [bind ?m _] => destruct m as [[[? ?] ?]| |] || destruct m as [[? ?]| |] || destruct m as [?| |]
       end; cbn [bind res_sim]; auto.
  all: unfold step_sim, sess_sim; cbn [fst snd c_st c_live]; auto 6.
Qed.

Lemma run_sess_sim ops : forall x y,
  sess_sim x y ->
  run_sess bits x ops = run_sess bits y ops /\
  res_sim sess_sim (final_sess bits x ops) (final_sess bits y ops).
Proof.
  induction ops as [|o r IH]; intros x y Hxy; cbn [run_sess final_sess]; [split; [reflexivity|exact Hxy]|].
  pose proof (step_sess_sim x y o Hxy) as Hs.
  destruct (step_sess bits x o) as [[[x' rx] lx]|p|], (step_sess bits y o) as [[[y' ry] ly]|q|];
    cbn [res_sim] in Hs; try contradiction; cbn [bind res_sim].
  - destruct Hs as (Hs & Hr & _). cbn [fst snd] in Hs, Hr. subst ry.
    destruct (IH x' y' Hs) as [E1 E2]. rewrite E1. split; [reflexivity|exact E2].
  - subst q. split; reflexivity.
  - split; [reflexivity|exact I].
Qed.

(* (a) the settled case: from a state with nothing pending, continuing
   with the handle dropped gives the same outcomes (answers, or the same
   Panic / Fuel) and the same final state as continuing with the live
   handle.  No invariant is needed: it is a fact about the code. *)
Theorem session_reopen_settled s ops :
  settled s ->
  run_sess bits (mkSess s false) ops = run_sess bits (mkSess s true) ops /\
  (x <- final_sess bits (mkSess s false) ops ;; Ok (c_st x)) =
  (x <- final_sess bits (mkSess s true) ops ;; Ok (c_st x)).
Proof.
  intros Hst.
  destruct (run_sess_sim ops (mkSess s false) (mkSess s true)) as [E1 E2].
  { split; [reflexivity|right; exact Hst]. }
  split; [exact E1|].
  destruct (final_sess bits (mkSess s false) ops) as [x| |], (final_sess bits (mkSess s true) ops) as [y| |];
    cbn [res_sim] in E2; try contradiction; cbn [bind]; [|subst; reflexivity|reflexivity].
  destruct E2 as [-> _]. reflexivity.
Qed.

(* ... dropped at any point of a history: [OOpenRo] inserted where the state
   is settled changes nothing but its own answer *)
Theorem session_drop_anywhere x0 ops1 ops2 x1 :
  final_sess bits x0 ops1 = Ok x1 -> settled (c_st x1) ->
  run_sess bits x0 (ops1 ++ OOpenRo :: ops2) =
    run_sess bits x0 ops1 ++ Ok RUnit :: run_sess bits x1 ops2 /\
  run_sess bits x0 (ops1 ++ ops2) = run_sess bits x0 ops1 ++ run_sess bits x1 ops2 /\
  (x <- final_sess bits x0 (ops1 ++ OOpenRo :: ops2) ;; Ok (c_st x)) =
  (x <- final_sess bits x0 (ops1 ++ ops2) ;; Ok (c_st x)).
Proof.
  intros Hf Hst.
  destruct (run_sess_sim ops2 (mkSess (c_st x1) false) x1) as [E1 E2].
  { split; [reflexivity|right; exact Hst]. }
  rewrite (run_sess_app bits _ _ _ _ Hf), (run_sess_app bits _ _ _ _ Hf).
  rewrite (final_sess_app bits _ _ _ _ Hf), (final_sess_app bits _ _ _ _ Hf).
  cbn [run_sess final_sess step_sess bind]. rewrite E1.
  split; [reflexivity|]. split; [reflexivity|].
  destruct (final_sess bits (mkSess (c_st x1) false) ops2) as [x| |], (final_sess bits x1 ops2) as [y| |];
    cbn [res_sim] in E2; try contradiction; cbn [bind]; [|subst; reflexivity|reflexivity].
  destruct E2 as [-> _]. reflexivity.
Qed.

(* (b) spare records pending.  Queries do not see the handle at all ... *)
Lemma query_step s live o :
  query_op o ->
  step_sess bits (mkSess s live) o =
  '(x, y, lg) <- step_sess bits (mkSess s true) o ;; Ok (mkSess s live, y, lg).
Proof.
  destruct o as [k v|k|k|k v|k|k| | | | | |n| |]; cbn [query_op]; try contradiction; intros _;
    cbn [step_sess c_st bind]; try reflexivity.
  - destruct (get s k) as [[r lg]| |]; reflexivity.
  - destruct (contains s k) as [[r lg]| |]; reflexivity.
  - destruct (lowest s) as [r| |]; reflexivity.
Qed.

Lemma query_step_state s live o x y lg :
  query_op o -> step_sess bits (mkSess s live) o = Ok (x, y, lg) -> x = mkSess s live.
Proof.
  intros Hq. rewrite (query_step s live o Hq).
  destruct (step_sess bits (mkSess s true) o) as [[[x' y'] lg']| |]; cbn [bind]; try discriminate.
  intros [= <- _ _]. reflexivity.
Qed.

Lemma query_run ro : forall s live,
  Forall query_op ro ->
  run_sess bits (mkSess s live) ro = run_sess bits (mkSess s true) ro /\
  final_sess bits (mkSess s live) ro = (x <- final_sess bits (mkSess s true) ro ;; Ok (mkSess s live)).
Proof.
  induction ro as [|o r IH]; intros s live Hq; cbn [run_sess final_sess bind].
  - split; reflexivity.
  - inversion Hq as [|? ? Ho Hr]; subst.
    rewrite (query_step s live o Ho).
    destruct (step_sess bits (mkSess s true) o) as [[[x' y'] lg']| |] eqn:E; cbn [bind];
      [|split; reflexivity..].
    pose proof (query_step_state s true o x' y' lg' Ho E) as ->.
    destruct (IH s live Hr) as [E1 E2]. split; [rewrite E1; reflexivity|exact E2].
Qed.

(* ... and the first operation that needs the mutable view opens it: with
   no live handle that is [from_bytes_mut] first, then the operation through
   the fresh handle *)
Theorem session_reopen_first_mut s o :
  needs_mut o = true ->
  step_sess bits (mkSess s false) o = (s1 <- open_mut bits s ;; step_sess bits (mkSess s1 true) o).
Proof.
  destruct o as [k v|k|k|k v|k|k| | | | | |n| |]; cbn [needs_mut]; try discriminate; intros _;
    cbn [step_sess claim c_live c_st]; destruct (open_mut bits s) as [s1| |]; reflexivity.
Qed.

Theorem spec_reopen_first_mut a o :
  needs_mut o = true ->
  spec_step_sess (mkSSess a false) o = spec_step_sess (mkSSess (s_claim a) true) o.
Proof.
  destruct o; cbn [needs_mut]; try discriminate; intros _; reflexivity.
Qed.

(* the two continuations of a history, handle kept / handle dropped, with
   spare records pending: the same answers to the queries up to the first
   operation that needs the mutable view; from there on the dropped-handle
   run is the kept-handle run from the CLAIMED state ([s_claim] on the
   abstract side), the kept-handle run goes on from the state as it is *)
Theorem session_reopen_pending s t fr term ro o rest :
  Inv bits s t fr term -> okbits bits -> sizecond bits s ->
  Forall query_op ro -> needs_mut o = true ->
  exists s1 fr1,
    open_mut bits s = Ok s1 /\ Inv bits s1 t fr1 term /\
    abs_of s1 t = s_claim (abs_of s t) /\ (settled s -> s1 = s) /\
    run_sess bits (mkSess s false) (ro ++ o :: rest) =
      run_sess bits (mkSess s true) ro ++ run_sess bits (mkSess s1 true) (o :: rest) /\
    run_sess bits (mkSess s true) (ro ++ o :: rest) =
      run_sess bits (mkSess s true) ro ++ run_sess bits (mkSess s true) (o :: rest) /\
    final_sess bits (mkSess s false) (ro ++ o :: rest) = final_sess bits (mkSess s1 true) (o :: rest) /\
    final_sess bits (mkSess s true) (ro ++ o :: rest) = final_sess bits (mkSess s true) (o :: rest).
Proof.
  intros H Hb Hsc Hq Hn.
  destruct (open_mut_inv_spec bits s t fr term H Hsc) as (s1 & fr1 & Hom & H1 & Hcap1 & _ & Hlen1 & Hsame).
  exists s1, fr1. split; [exact Hom|]. split; [exact H1|].
  split; [exact (abs_claim s s1 t Hcap1 Hlen1)|]. split; [intros Hst; exact (proj1 (Hsame Hst))|].
  assert (Hk : Forall keeps_handle ro).
  { eapply Forall_impl; [|exact Hq]. intros a; destruct a; cbn [query_op keeps_handle]; auto. }
  destruct (sess_capacity_stable_run bits ro s t fr term H Hb Hk) as (s' & _ & _ & _ & Hf & _).
  pose proof (proj2 (query_run ro s true Hq)) as Es. rewrite Hf in Es. cbn [bind] in Es.
  injection Es as ->.
  assert (Hfd : final_sess bits (mkSess s false) ro = Ok (mkSess s false)).
  { rewrite (proj2 (query_run ro s false Hq)), Hf. reflexivity. }
  rewrite (run_sess_app bits _ _ _ _ Hfd), (run_sess_app bits _ _ _ _ Hf).
  rewrite (final_sess_app bits _ _ _ _ Hfd), (final_sess_app bits _ _ _ _ Hf).
  rewrite (proj1 (query_run ro s false Hq)).
  cbn [run_sess final_sess]. rewrite (session_reopen_first_mut s o Hn), Hom. cbn [bind].
  auto.
Qed.
End Reopen.

(* (c) with bytes in between: the history interrupted where nothing is
   pending (drop the handle, decode the bytes, go on with a fresh handle on
   the decoded state) answers exactly as the uninterrupted history
   [ops1 ++ ops2] and ends in the same state, hence the same bytes *)
Section E2EReopen.
Variable wbytes : nat.
Variable lay : layout.
Hypothesis Hw : wbytes = 1%nat \/ wbytes = 4%nat.
Hypothesis Hk : 0 < ksz lay.
Hypothesis Hv : 0 < vsz lay.
Local Notation bits := (bits_of wbytes).

Theorem session_history_reopen_settled capacity nr keep ops1 ops2 :
  capacity <= nr -> capacity < 2 ^ bits -> (bits <> 8 -> capacity + 1 < 2 ^ bits) ->
  (nr <= capacity \/ nr + 1 < 2 ^ bits) ->
  growth_okw_sess bits (spec_init_sess capacity nr keep) (ops1 ++ OOpenRo :: ops2) ->
  ops_fit lay (ops1 ++ ops2) ->
  snrec (a_st (final_s_sess (spec_init_sess capacity nr keep) ops1)) <=
    scap (a_st (final_s_sess (spec_init_sess capacity nr keep) ops1)) ->
  exists s1 live1 s1' sf lf lf' outs,
    final_sess bits (init_sess capacity nr keep) ops1 = Ok (mkSess s1 live1) /\
    decode wbytes lay (encode wbytes lay s1) = Some s1' /\
    final_sess bits (mkSess s1' false) ops2 = Ok (mkSess sf lf') /\
    final_sess bits (init_sess capacity nr keep) (ops1 ++ ops2) = Ok (mkSess sf lf) /\
    run_sess bits (init_sess capacity nr keep) (ops1 ++ ops2) = map Ok outs /\
    run_sess bits (init_sess capacity nr keep) ops1 ++ run_sess bits (mkSess s1' false) ops2 = map Ok outs.
Proof.
  intros H0 H1 H2 H3 Hg Hfit Hset. pose proof (okbits_w wbytes Hw) as Hb.
  pose proof (proj1 (proj1 (growth_okw_sess_app bits ops1 _ (OOpenRo :: ops2)) Hg)) as Hg1.
  pose proof (proj1 (proj1 (ops_fit_app lay ops1 ops2) Hfit)) as Hfit1.
  destruct (session_state wbytes lay Hw capacity nr keep ops1 H0 H1 H2 H3 Hg1 Hfit1)
    as (s1 & live1 & t1 & fr1 & term1 & Hf1 & Hinv1 & _ & Habs1 & Hwo1 & Hkv1).
  assert (Hst : settled s1).
  { rewrite <- Habs1 in Hset. cbn [a_st abs_of snrec scap] in Hset. exact Hset. }
  destruct (run_sess_refines_w bits capacity nr keep (ops1 ++ OOpenRo :: ops2) Hb H0 H1 H2 H3 Hg)
    as (outs' & Hrun & _).
  destruct (final_sess_refines_w bits capacity nr keep (ops1 ++ OOpenRo :: ops2) Hb H0 H1 H2 H3 Hg)
    as (sf & lf' & t & fr & term & Hf & _).
  destruct (session_drop_anywhere bits _ ops1 ops2 _ Hf1 Hst) as (Ea & Eb & Ec).
  cbn [c_st] in *.
  destruct (run_sess_sim bits ops2 (mkSess s1 false) (mkSess s1 live1)) as [Es Ef].
  { split; [reflexivity|right; exact Hst]. }
  (* the answers of the interrupted history are all normal returns *)
  rewrite Ea in Hrun. symmetry in Hrun.
  destruct (map_eq_app _ _ _ _ Hrun) as (o1 & o2' & -> & Ho1 & Ho2).
  destruct (map_eq_cons _ _ Ho2) as (u & o2 & -> & _ & Ho2').
  (* the final states *)
  rewrite Hf in Ec. cbn [bind c_st] in Ec.
  destruct (final_sess bits (init_sess capacity nr keep) (ops1 ++ ops2)) as [[sf2 lf]| |] eqn:Ef2;
    cbn [bind c_st] in Ec; try discriminate. injection Ec as <-.
  pose proof (final_sess_app bits ops1 _ _ (OOpenRo :: ops2) Hf1) as Ed.
  cbn [final_sess step_sess c_st bind] in Ed. rewrite Hf in Ed. symmetry in Ed.
  exists s1, live1, s1, sf, lf, lf', (o1 ++ o2).
  split; [exact Hf1|].
  split; [apply (inv_decode_encode_w wbytes lay Hw Hk Hv s1 t1 fr1 term1 Hinv1 Hkv1 Hwo1)|].
  split; [exact Ed|]. split; [reflexivity|].
  rewrite Eb, Es, <- Ho1, <- Ho2', map_app. auto.
Qed.
End E2EReopen.

(* ------------------------------------------------------------------ *)
(* non-vacuity                                                         *)

(* capacity 2 over a buffer of 5 records, the initialising handle kept: two
   keys go in, the third is refused (full at the capacity WORD), the state
   is unchanged; after [OOpenMut] the capacity is 5 and exactly three more
   fit *)
Definition more_ops : list op :=
  [OInsert 1 10; OInsert 2 20; OInsert 3 30; OIsFull; OCapacity; OOpenMut;
   OInsert 3 30; OInsert 4 40; OInsert 5 50; OInsert 6 60; OIsFull; OCapacity; OLen]%Z.

Definition more_outs : list out :=
  [RSlot (Some 1); RSlot (Some 2); RSlot None; RBool true; RNum 2; RUnit;
   RSlot (Some 3); RSlot (Some 4); RSlot (Some 5); RSlot None; RBool true; RNum 5; RNum 5].

Example sess_spare_u32 : run_sess 32 (init_sess 2 5 true) more_ops = map Ok more_outs.
Proof. vm_compute. reflexivity. Qed.

Example sess_spare_u8 : run_sess 8 (init_sess 2 5 true) more_ops = map Ok more_outs.
Proof. vm_compute. reflexivity. Qed.

Example sess_spare_spec : run_s_sess (spec_init_sess 2 5 true) more_ops = map out_abs more_outs.
Proof. vm_compute. reflexivity. Qed.

(* the refused insertion hands back the very same state *)
Example sess_spare_refusal_same_u32 :
  (x <- final_sess 32 (init_sess 2 5 true) [OInsert 1 10; OInsert 2 20]%Z ;;
   '(x', y, _) <- step_sess 32 x (OInsert 3 30)%Z ;;
   Ok (y, x', nrec (c_st x), cap (c_st x), size (c_st x))) =
  (x <- final_sess 32 (init_sess 2 5 true) [OInsert 1 10; OInsert 2 20]%Z ;;
   Ok (RSlot None, x, 5, 2, 2)).
Proof. vm_compute. reflexivity. Qed.

Example sess_spare_refusal_same_u8 :
  (x <- final_sess 8 (init_sess 2 5 true) [OInsert 1 10; OInsert 2 20]%Z ;;
   '(x', y, _) <- step_sess 8 x (OInsert 3 30)%Z ;;
   Ok (y, x', nrec (c_st x), cap (c_st x), size (c_st x))) =
  (x <- final_sess 8 (init_sess 2 5 true) [OInsert 1 10; OInsert 2 20]%Z ;;
   Ok (RSlot None, x, 5, 2, 2)).
Proof. vm_compute. reflexivity. Qed.

(* the premises of the theorems hold for this tree: [fill_exact_sess_keep]
   and [fill_exact_sess_spare] instantiated *)
Example sess_keep_by_fill_theorem :
  exists s' (slots : list N),
    final_sess 32 (init_sess 2 5 true) ([] ++ ins_ops [(1, 10); (2, 20)]%Z) = Ok (mkSess s' true) /\
    length slots = 2%nat /\ cap s' = 2 /\ nrec s' = 5 /\ size s' = 2 /\ is_full s' = true /\
    forall k v, exists lg, step_sess 32 (mkSess s' true) (OInsert k v) = Ok (mkSess s' true, RSlot None, lg).
Proof.
  destruct (fill_exact_sess_keep 32 2 5 []) as (s & t & fr & term & Hf & H & Hcap & Hn & Hsz & Hfill);
    [right; reflexivity|lia|reflexivity|intros _; reflexivity|constructor|].
  cbn [final_sess] in Hf. injection Hf as <-.
  assert (Ht : inorder t = []).
  { pose proof (inv_size 32 _ _ _ _ H) as E. change (size (init_c 2 5)) with 0 in E.
    destruct (inorder t); [reflexivity|cbn [length] in E; lia]. }
  destruct (Hfill [(1, 10); (2, 20)]%Z) as (s' & slots & t' & fr' & term' & _ & Hf' & Hls & _ & Hc & Hn' & Hs & Hfu & Hst).
  - cbn [map fst]. repeat constructor; cbn [In]; intuition discriminate.
  - intros k _. rewrite Ht. reflexivity.
  - reflexivity.
  - exists s', slots. split; [exact Hf'|]. split; [exact Hls|]. repeat (split; [assumption|]).
    intros k v. eexists. apply Hst.
Qed.

Example sess_spare_by_theorem_u8 :
  exists slots slots2 : list N,
    run_sess 8 (init_sess 2 5 true) (ins_ops [(1, 10); (2, 20)]%Z ++ OOpenMut :: ins_ops [(3, 30); (4, 40); (5, 50)]%Z) =
    map Ok (map (fun i => RSlot (Some i)) slots ++ RUnit :: map (fun i => RSlot (Some i)) slots2) /\
    length slots = 2%nat /\ length slots2 = 3%nat.
Proof.
  destruct (inv_init_gen 8 2 5) as [Hinv _]; [lia|reflexivity|congruence|].
  assert (Ht : inorder E = []) by reflexivity.
  destruct (fill_exact_sess_spare 8 (init_c 2 5) E [] 1 [(1, 10); (2, 20)]%Z [(3, 30); (4, 40); (5, 50)]%Z Hinv)
    as (s' & slots & t' & fr' & term' & s1 & fr1 & s2 & slots2 & t2 & fr2 & term2 & H);
    [left; reflexivity|right; reflexivity|reflexivity| | |reflexivity|reflexivity|].
  - cbn [map fst app]. repeat constructor; cbn [In]; intuition discriminate.
  - intros k _. reflexivity.
  - exists slots, slots2. unfold init_sess.
    destruct H as (_ & _ & Hl1 & _ & _ & _ & _ & _ & _ & _ & _ & _ & _ & _ & _ & _ & Hl2 & _ & _ & _ & _ & _ & Hrun).
    split; [exact Hrun|]. split; assumption.
Qed.

(* the handle dropped with spare records pending: the two continuations
   differ (the first insertion claims the spare records) ... *)
Example sess_reopen_unsettled_differs :
  run_sess 32 (mkSess (init_c 2 5) false) [OGet 1; OInsert 1 10; OInsert 2 20; OInsert 3 30; OCapacity]%Z =
    map Ok [RVal None; RSlot (Some 1); RSlot (Some 2); RSlot (Some 3); RNum 5] /\
  run_sess 32 (mkSess (init_c 2 5) true) [OGet 1; OInsert 1 10; OInsert 2 20; OInsert 3 30; OCapacity]%Z =
    map Ok [RVal None; RSlot (Some 1); RSlot (Some 2); RSlot None; RNum 2] /\
  run_s_sess (mkSSess (mkSS 2 [] 5) false) [OGet 1; OInsert 1 10; OInsert 2 20; OInsert 3 30; OCapacity]%Z =
    [RVal None; RSlot (Some 0); RSlot (Some 0); RSlot (Some 0); RNum 5] /\
  run_s_sess (mkSSess (mkSS 2 [] 5) true) [OGet 1; OInsert 1 10; OInsert 2 20; OInsert 3 30; OCapacity]%Z =
    [RVal None; RSlot (Some 0); RSlot (Some 0); RSlot None; RNum 2].
Proof. repeat split; vm_compute; reflexivity. Qed.

(* ... and from a settled state they do not *)
Example sess_reopen_settled_same :
  run_sess 8 (mkSess (init_c 3 3) false) [OGet 1; OInsert 1 10; OInsert 2 20; ORemove 1; OInsert 3 30; OInsert 4 40; OInsert 5 50]%Z =
  run_sess 8 (mkSess (init_c 3 3) true) [OGet 1; OInsert 1 10; OInsert 2 20; ORemove 1; OInsert 3 30; OInsert 4 40; OInsert 5 50]%Z /\
  run_sess 8 (mkSess (init_c 3 3) true) [OGet 1; OInsert 1 10; OInsert 2 20; ORemove 1; OInsert 3 30; OInsert 4 40; OInsert 5 50]%Z =
  map Ok [RVal None; RSlot (Some 1); RSlot (Some 2); RVal (Some 10%Z); RSlot (Some 1); RSlot (Some 3); RSlot None].
Proof. split; vm_compute; reflexivity. Qed.

(* the bytes theorem: its hypotheses hold for this history (u8 tree, u8
   keys, i32 values), and the reader on the bytes of the state after the
   refused insertion: two entries, capacity word 2, the records 3, 4, 5
   never used *)
Example session_bytes_example_hyps :
  2 <= 5 /\ 2 < 2 ^ bits_of 1 /\ (5 <= 2 \/ 5 + 1 < 2 ^ bits_of 1) /\
  growth_okw_sess (bits_of 1) (spec_init_sess 2 5 true) more_ops /\ ops_fit ex_lay8 more_ops.
Proof.
  split; [lia|]. split; [reflexivity|]. split; [right; reflexivity|]. split.
  - apply growth_ok_sess_weak, growth_ok_sess_no_ext. unfold more_ops. repeat constructor.
  - unfold ops_fit, more_ops.
    repeat (apply Forall_cons; [cbn [op_fit]; try exact I; split; vm_compute; split; solve [discriminate|reflexivity]|]).
    apply Forall_nil.
Qed.

Example session_bytes_example_u8 :
  (x <- final_sess (bits_of 1) (init_sess 2 5 true) [OInsert 1 10; OInsert 2 20; OInsert 3 30]%Z ;;
   Ok (option_map (fun d => (d_hdr d, map tr_kv (d_inorder (d_tree d)), d_free d, d_never d, d_wf d, d_bst d, d_bal d))
         (decode_doc 1 ex_lay8 (encode 1 ex_lay8 (c_st x))))) =
  Ok (Some ([1; 2; 2; 3; 3], [(1, 10); (2, 20)]%Z, [], [3; 4; 5], true, true, true)).
Proof. vm_compute. reflexivity. Qed.

Example session_bytes_example_u32 :
  (x <- final_sess (bits_of 4) (init_sess 2 5 true) [OInsert 1 10; OInsert 2 20; OInsert 3 30]%Z ;;
   Ok (option_map (fun d => (d_hdr d, map tr_kv (d_inorder (d_tree d)), d_free d, d_never d, d_wf d, d_bst d, d_bal d))
         (decode_doc 4 ex_lay32 (encode 4 ex_lay32 (c_st x))))) =
  Ok (Some ([1; 2; 2; 3; 3], [(1, 10); (2, 20)]%Z, [], [3; 4; 5], true, true, true)).
Proof. vm_compute. reflexivity. Qed.

Print Assumptions final_sess_app.
Print Assumptions run_sess_app.
Print Assumptions insert_all_sess_fold.
Print Assumptions insert_all_sess_run.
Print Assumptions insert_all_sess_live.
Print Assumptions insert_all_sess_spec.
Print Assumptions insert_prefix_sess.
Print Assumptions fill_exact_sess.
Print Assumptions fill_exact_sess_entries.
Print Assumptions open_mut_sess_spec.
Print Assumptions fill_exact_sess_spare.
Print Assumptions live_slots_within_cap.
Print Assumptions insert_fresh_slot_sess.
Print Assumptions insert_fresh_slot_sess_any.
Print Assumptions released_slot_reused_sess.
Print Assumptions fill_exact_sess_any.
Print Assumptions final_sess_state.
Print Assumptions fill_exact_sess_reachable.
Print Assumptions fill_exact_sess_any_reachable.
Print Assumptions fill_exact_sess_keep.
Print Assumptions step_sess_words_ok.
Print Assumptions run_sess_words_ok.
Print Assumptions spec_kv_from_ops_sess.
Print Assumptions kv_fits_from_ops_sess.
Print Assumptions session_state.
Print Assumptions session_bytes_doc.
Print Assumptions session_bytes_doc_simple.
Print Assumptions session_history_reopen.
Print Assumptions step_sess_sim.
Print Assumptions run_sess_sim.
Print Assumptions session_reopen_settled.
Print Assumptions session_drop_anywhere.
Print Assumptions session_reopen_first_mut.
Print Assumptions spec_reopen_first_mut.
Print Assumptions session_reopen_pending.
Print Assumptions session_history_reopen_settled.
Print Assumptions sess_keep_by_fill_theorem.
Print Assumptions sess_spare_by_theorem_u8.
Print Assumptions session_bytes_example_hyps.
