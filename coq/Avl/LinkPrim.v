(* Link C <-> T, part 1: the array-level primitives of layer C
   (update_height, update_child, balance_factor, the two rotations)
   simulate the tree-level operations of layer T (mk, bfac, rotl, rotr). *)
From Coq Require Import List NArith ZArith Bool Lia ZifyBool Permutation.
From Stevia Require Import Base.Res Avl.Impl Avl.Tree Avl.Rep.
Import ListNotations.
Open Scope N_scope.
Arguments N.add : simpl never.
Arguments N.sub : simpl never.
Arguments N.mul : simpl never.
Arguments N.max : simpl never.
Arguments N.pow : simpl never.
Arguments N.eqb : simpl never.
Arguments N.ltb : simpl never.
Arguments N.leb : simpl never.
Arguments Z.add : simpl never.
Arguments Z.sub : simpl never.
Arguments Z.ltb : simpl never.
Arguments Z.leb : simpl never.
Arguments Z.eqb : simpl never.
Arguments Z.of_N : simpl never.

(* ---------------------------------------------------------------- *)
(* maximum STORED height occurring in a tree                         *)

Fixpoint hmax (t : itree) : N :=
  match t with E => 0 | T l _ _ _ h r => N.max h (N.max (hmax l) (hmax r)) end.

Lemma sth_le_hmax t : sth t <= hmax t.
Proof. destruct t; cbn [sth hmax]; lia. Qed.

Lemma newh_le l r : newh l r <= N.max (sth l) (sth r) + 1.
Proof. destruct l, r; cbn [newh sth]; lia. Qed.

Lemma newh_hmax l r : newh l r <= N.max (hmax l) (hmax r) + 1.
Proof.
  pose proof (newh_le l r). pose proof (sth_le_hmax l). pose proof (sth_le_hmax r). lia.
Qed.

Lemma hmax_mk l i k v r : hmax (mk l i k v r) <= N.max (hmax l) (hmax r) + 1.
Proof. unfold mk. cbn [hmax]. pose proof (newh_hmax l r). lia. Qed.

Lemma hmax_mk_le X l i k v r : hmax l <= X -> hmax r <= X -> hmax (mk l i k v r) <= X + 1.
Proof. intros Hl Hr. pose proof (hmax_mk l i k v r). lia. Qed.
Lemma newh_le_X X l r : hmax l <= X -> hmax r <= X -> newh l r <= X + 1.
Proof. intros Hl Hr. pose proof (newh_hmax l r). lia. Qed.

Lemma hmax_mk_lower l i k v r : N.max (hmax l) (hmax r) <= hmax (mk l i k v r).
Proof. unfold mk. cbn [hmax]. lia. Qed.

Lemma idx_mk l i k v r : idx (mk l i k v r) = i.
Proof. reflexivity. Qed.
Lemma idxs_mk l i k v r : idxs (mk l i k v r) = idxs l ++ i :: idxs r.
Proof. reflexivity. Qed.
Lemma sth_mk l i k v r : sth (mk l i k v r) = newh l r.
Proof. reflexivity. Qed.

(* ---------------------------------------------------------------- *)
(* disjointness bookkeeping                                          *)

Lemma NoDup_app_iff' {A} (a b : list A) :
  NoDup (a ++ b) <-> NoDup a /\ NoDup b /\ (forall y, In y a -> In y b -> False).
Proof.
  split.
  - intros H. destruct (nodup_app _ _ H) as [Ha [Hb Hd]]. repeat split; auto.
  - intros [Ha [Hb Hd]]. induction a as [|x a IH]; cbn [app]; [exact Hb|].
    inversion Ha as [|? ? Hx Ha']; subst. constructor.
    + rewrite in_app_iff. intros [Hx'|Hx']; [auto|]. apply (Hd x); [left; auto|auto].
    + apply IH; auto. intros y Hy. apply Hd. right; auto.
Qed.

(* normalise NoDup / In over ++ and :: into first-order facts *)
Ltac nd_norm :=
  cbn [idxs mk fill fidx fsib ctx_idxs] in *;
  repeat (rewrite ?NoDup_app_iff', ?NoDup_cons_iff, ?in_app_iff in *; cbn [In] in * ).

(* instantiate the cross-disjointness facts at the indices x y z *)
Ltac nd_inst3 x y z :=
  repeat match goal with
         | H : forall w : N, _ -> _ -> False |- _ =>
           pose proof (H x); pose proof (H y); pose proof (H z); clear H
         end.
Ltac nd_solve := intuition (subst; auto; congruence).
Ltac nd_split := repeat match goal with H : _ /\ _ |- _ => destruct H end.
Ltac nd_auto x y z :=
  nd_norm; nd_split; nd_inst3 x y z;
  repeat (rewrite ?in_app_iff in *; cbn [In] in * ); nd_solve.

(* variants of the frame lemma with the side condition stated per touched slot *)
Lemma rep_frame' ns ns' t ch :
  same_outside ns ns' ch -> Forall (fun j => ~ In j (idxs t)) ch -> rep ns t -> rep ns' t.
Proof.
  intros Hs Hf. apply (rep_frame ns ns' t ch Hs).
  intros j Hj Hc. rewrite Forall_forall in Hf. exact (Hf j Hc Hj).
Qed.

Lemma holds_frame ns ns' ch i li ri h k v :
  same_outside ns ns' ch -> ~ In i ch -> holds ns i li ri h k v -> holds ns' i li ri h k v.
Proof. intros Hs Hi [n Hn]. exists n. rewrite Hs; auto. Qed.

Lemma rep_ctx_frame ns ns' ch c hole rt :
  same_outside ns ns' ch -> (forall j, In j (ctx_idxs c) -> ~ In j ch) ->
  rep_ctx ns c hole rt -> rep_ctx ns' c hole rt.
Proof.
  intros Hs. revert hole. induction c as [|f c IH]; intros hole Hd; cbn [rep_ctx]; auto.
  cbn [ctx_idxs] in Hd.
  assert (Hsib : rep ns (fsib f) -> rep ns' (fsib f)).
  { apply (rep_frame ns ns' _ ch Hs). intros j Hj. apply Hd. right. apply in_or_app; auto. }
  assert (Hrest : forall j, In j (ctx_idxs c) -> ~ In j ch).
  { intros j Hj. apply Hd. right. apply in_or_app; auto. }
  assert (Hi : ~ In (fidx f) ch) by (apply Hd; left; auto).
  destruct f as [i k v r|l i k v]; cbn [fsib fidx] in *; intros [[h Hh] [Hr Hc]];
    (split; [exists h; eapply holds_frame; eauto|split; [auto|apply IH; auto]]).
Qed.

Lemma hreg_rep ns t : rep ns t -> hreg ns (idx t) = Ok (sth t).
Proof.
  destruct t as [|l i k v h r]; cbn [rep idx sth]; [reflexivity|].
  intros [[n [Hn [_ [_ [Hh _]]]]] _]. unfold hreg.
  destruct (N.eqb_spec i 0) as [->|_]; [apply getn_nonzero in Hn; congruence|].
  rewrite Hn. cbn [bind]. rewrite Hh. reflexivity.
Qed.

Lemma rep_idx0_iff ns t : rep ns t -> (idx t =? 0) = match t with E => true | _ => false end.
Proof.
  destruct t as [|l i k v h r]; [reflexivity|]. intros H. apply rep_idx_nz in H.
  cbn [idx]. destruct (N.eqb_spec i 0); congruence.
Qed.

Section Width.
Variable bits : N.
Local Notation W := (2 ^ bits).
Local Notation B := (2 ^ (bits - 1)).

Lemma B_le_W : B <= W.
Proof. apply N.pow_le_mono_r; lia. Qed.
Lemma B_pos : 1 <= B.
Proof. pose proof (N.pow_nonzero 2 (bits - 1)). lia. Qed.

Lemma cadd_ok a b : a + b < W -> cadd bits a b = Ok (a + b).
Proof. intros H. unfold cadd, wmax. destruct (N.ltb_spec (a + b) W); [reflexivity|lia]. Qed.

Lemma sck_ok z : (- Z.of_N B <= z <= Z.of_N B - 1)%Z -> sck bits z = Ok z.
Proof.
  intros H. unfold sck, smin, smax.
  destruct (Z.leb_spec (- Z.of_N B) z); [|lia].
  destruct (Z.leb_spec z (Z.of_N B - 1)); [reflexivity|lia].
Qed.

Lemma as_signed_small h : h < B -> as_signed bits h = Z.of_N h.
Proof. intros H. unfold as_signed. destruct (N.ltb_spec h B); [reflexivity|lia]. Qed.

(* ---------------------------------------------------------------- *)
(* update_height                                                     *)

Lemma update_height_spec ns l i k v h r :
  rep_top ns (T l i k v h r) -> ~ In i (idxs l) -> ~ In i (idxs r) -> newh l r < W ->
  exists ns', update_height bits ns i = Ok ns' /\ rep ns' (mk l i k v r) /\
              same_outside ns ns' [i] /\ length ns' = length ns.
Proof.
  cbn [rep_top]. intros [[h0 [n [Hn [Hl [Hr [Hh [Hk Hv]]]]]]] [Rl Rr]] Hil Hir Hb.
  destruct (setn_ok ns i n (set_h n (newh l r)) Hn) as [ns' Hset].
  assert (Hs : same_outside ns ns' [i]).
  { intros j Hj. eapply getn_setn_other; eauto. intro; apply Hj; left; auto. }
  exists ns'. split; [|split; [|split]]; auto.
  - unfold update_height. rewrite Hn. cbn [bind]. rewrite Hl, Hr.
    rewrite (rep_idx0_iff ns l Rl), (rep_idx0_iff ns r Rr).
    rewrite (hreg_rep ns l Rl), (hreg_rep ns r Rr).
    destruct l as [|ll li lk lv lh lr], r as [|rl ri rk rv rh rr]; cbn [andb bind];
      try exact Hset; cbn [newh sth] in *; rewrite cadd_ok by lia; cbn [bind]; exact Hset.
  - unfold mk. cbn [rep]. split; [|split].
    + exists (set_h n (newh l r)). split; [eapply getn_setn_same; eauto|].
      cbn [set_h nl nr nh nk nv]. auto.
    + eapply rep_frame'; eauto.
    + eapply rep_frame'; eauto.
  - eapply setn_length; eauto.
Qed.

(* ---------------------------------------------------------------- *)
(* update_child: the old pointer on the rewritten side may be stale  *)

Lemma update_child_L_spec ns i li ri h k v c r :
  holds ns i li ri h k v -> ri = idx r -> rep ns r -> rep ns c ->
  ~ In i (idxs c) -> ~ In i (idxs r) -> newh c r < W ->
  exists ns', update_child bits ns i L (idx c) = Ok ns' /\ rep ns' (mk c i k v r) /\
              same_outside ns ns' [i] /\ length ns' = length ns.
Proof.
  intros [n [Hn [Hl [Hr [Hh [Hk Hv]]]]]] -> Rr Rc Hic Hir Hb.
  destruct (setn_ok ns i n (set_l n (idx c)) Hn) as [ns1 Hset].
  assert (Hs : same_outside ns ns1 [i]).
  { intros j Hj. eapply getn_setn_other; eauto. intro; apply Hj; left; auto. }
  destruct (update_height_spec ns1 c i k v h r) as [ns' [Hu [Rep [Hs' Hlen]]]]; auto.
  { cbn [rep_top]. split; [|split].
    - exists h, (set_l n (idx c)). split; [eapply getn_setn_same; eauto|].
      cbn [set_l nl nr nh nk nv]. auto.
    - eapply rep_frame'; eauto.
    - eapply rep_frame'; eauto. }
  exists ns'. split; [|split; [|split]]; auto.
  - unfold update_child. rewrite Hn. cbn [bind]. rewrite Hset. cbn [bind]. exact Hu.
  - eapply same_outside_weaken; [eapply same_outside_trans; eauto|].
    intros j Hj. apply in_app_or in Hj. tauto.
  - rewrite Hlen. eapply setn_length; eauto.
Qed.

Lemma update_child_R_spec ns i li ri h k v l c :
  holds ns i li ri h k v -> li = idx l -> rep ns l -> rep ns c ->
  ~ In i (idxs c) -> ~ In i (idxs l) -> newh l c < W ->
  exists ns', update_child bits ns i R (idx c) = Ok ns' /\ rep ns' (mk l i k v c) /\
              same_outside ns ns' [i] /\ length ns' = length ns.
Proof.
  intros [n [Hn [Hl [Hr [Hh [Hk Hv]]]]]] -> Rl Rc Hic Hil Hb.
  destruct (setn_ok ns i n (set_r n (idx c)) Hn) as [ns1 Hset].
  assert (Hs : same_outside ns ns1 [i]).
  { intros j Hj. eapply getn_setn_other; eauto. intro; apply Hj; left; auto. }
  destruct (update_height_spec ns1 l i k v h c) as [ns' [Hu [Rep [Hs' Hlen]]]]; auto.
  { cbn [rep_top]. split; [|split].
    - exists h, (set_r n (idx c)). split; [eapply getn_setn_same; eauto|].
      cbn [set_r nl nr nh nk nv]. auto.
    - eapply rep_frame'; eauto.
    - eapply rep_frame'; eauto. }
  exists ns'. split; [|split; [|split]]; auto.
  - unfold update_child. rewrite Hn. cbn [bind]. rewrite Hset. cbn [bind]. exact Hu.
  - eapply same_outside_weaken; [eapply same_outside_trans; eauto|].
    intros j Hj. apply in_app_or in Hj. tauto.
  - rewrite Hlen. eapply setn_length; eauto.
Qed.

(* ---------------------------------------------------------------- *)
(* balance_factor                                                    *)

Lemma side_height_spec ns t :
  rep ns t -> sth t + 1 < B -> side_height bits ns (idx t) = Ok (hp t).
Proof.
  intros Rt Hb. unfold side_height. rewrite (rep_idx0_iff ns t Rt).
  destruct t as [|l i k v h r]; [reflexivity|].
  cbn [rep idx sth hp] in *. destruct Rt as [[n [Hn [_ [_ [Hh _]]]]] _].
  rewrite Hn. cbn [bind]. rewrite Hh. rewrite as_signed_small by lia.
  apply sck_ok. lia.
Qed.

Lemma hp_range t : sth t + 1 < B -> (0 <= hp t <= Z.of_N B - 1)%Z.
Proof. destruct t; cbn [sth hp]; lia. Qed.

Lemma balance_factor_spec ns l r :
  rep ns l -> rep ns r -> sth l + 1 < B -> sth r + 1 < B ->
  balance_factor bits ns (idx l) (idx r) = Ok (bfac l r).
Proof.
  intros Rl Rr Hl Hr. unfold balance_factor.
  rewrite (side_height_spec ns l Rl Hl), (side_height_spec ns r Rr Hr). cbn [bind].
  unfold bfac. apply sck_ok. pose proof (hp_range l Hl). pose proof (hp_range r Hr). lia.
Qed.

(* ---------------------------------------------------------------- *)
(* rotations                                                         *)

Lemma right_rotate_spec ns a j kj vj hj b i ki vi h r :
  rep_top ns (T (T a j kj vj hj b) i ki vi h r) ->
  NoDup (idxs (T (T a j kj vj hj b) i ki vi h r)) ->
  newh b r < W -> newh a (mk b i ki vi r) < W ->
  exists ns', right_rotate bits ns i = Ok (ns', idx (rotr (T (T a j kj vj hj b) i ki vi h r))) /\
              rep ns' (rotr (T (T a j kj vj hj b) i ki vi h r)) /\
              same_outside ns ns' [i; j] /\ length ns' = length ns.
Proof.
  intros [[h0 Hi] [Rl Rr]] Hnd Hb1 Hb2. cbn [rep] in Rl. destruct Rl as [Hj [Ra Rb]].
  assert (Hd : ~ In i (idxs a) /\ ~ In i (idxs b) /\ ~ In i (idxs r) /\
               ~ In j (idxs a) /\ ~ In j (idxs b) /\ ~ In j (idxs r) /\ i <> j).
  { clear - Hnd. nd_auto i j j. }
  destruct Hd as [Hia [Hib [Hir [Hja [Hjb [Hjr Hij]]]]]].
  destruct (update_child_L_spec ns i (idx (T a j kj vj hj b)) (idx r) h0 ki vi b r)
    as [ns1 [U1 [R1 [S1 L1]]]]; auto.
  destruct (update_child_R_spec ns1 j (idx a) (idx b) hj kj vj a (mk b i ki vi r))
    as [ns2 [U2 [R2 [S2 L2]]]]; auto.
  { eapply holds_frame; eauto. cbn [In]. intuition congruence. }
  { eapply rep_frame'; eauto. }
  { rewrite idxs_mk, in_app_iff. cbn [In]. intuition congruence. }
  exists ns2. split; [|split; [|split]].
  - unfold right_rotate. destruct Hi as [n [Hn [Hnl _]]]. destruct Hj as [m [Hm [_ [Hmr _]]]].
    rewrite Hn. cbn [bind]. rewrite Hnl. cbn [idx]. rewrite Hm. cbn [bind]. rewrite Hmr.
    rewrite U1. cbn [bind]. rewrite idx_mk in U2. rewrite U2. reflexivity.
  - exact R2.
  - eapply same_outside_weaken; [eapply same_outside_trans; eauto|].
    intros x Hx. exact Hx.
  - congruence.
Qed.

Lemma left_rotate_spec ns l i ki vi h b j kj vj hj c :
  rep_top ns (T l i ki vi h (T b j kj vj hj c)) ->
  NoDup (idxs (T l i ki vi h (T b j kj vj hj c))) ->
  newh l b < W -> newh (mk l i ki vi b) c < W ->
  exists ns', left_rotate bits ns i = Ok (ns', idx (rotl (T l i ki vi h (T b j kj vj hj c)))) /\
              rep ns' (rotl (T l i ki vi h (T b j kj vj hj c))) /\
              same_outside ns ns' [i; j] /\ length ns' = length ns.
Proof.
  intros [[h0 Hi] [Rl Rr]] Hnd Hb1 Hb2. cbn [rep] in Rr. destruct Rr as [Hj [Rb Rc]].
  assert (Hd : ~ In i (idxs l) /\ ~ In i (idxs b) /\ ~ In i (idxs c) /\
               ~ In j (idxs l) /\ ~ In j (idxs b) /\ ~ In j (idxs c) /\ i <> j).
  { clear - Hnd. nd_auto i j j. }
  destruct Hd as [Hil [Hib [Hic [Hjl [Hjb [Hjc Hij]]]]]].
  destruct (update_child_R_spec ns i (idx l) (idx (T b j kj vj hj c)) h0 ki vi l b)
    as [ns1 [U1 [R1 [S1 L1]]]]; auto.
  destruct (update_child_L_spec ns1 j (idx b) (idx c) hj kj vj (mk l i ki vi b) c)
    as [ns2 [U2 [R2 [S2 L2]]]]; auto.
  { eapply holds_frame; eauto. cbn [In]. intuition congruence. }
  { eapply rep_frame'; eauto. }
  { rewrite idxs_mk, in_app_iff. cbn [In]. intuition congruence. }
  exists ns2. split; [|split; [|split]].
  - unfold left_rotate. destruct Hi as [n [Hn [_ [Hnr _]]]]. destruct Hj as [m [Hm [Hml _]]].
    rewrite Hn. cbn [bind]. rewrite Hnr. cbn [idx]. rewrite Hm. cbn [bind]. rewrite Hml.
    rewrite U1. cbn [bind]. rewrite idx_mk in U2. rewrite U2. reflexivity.
  - exact R2.
  - eapply same_outside_weaken; [eapply same_outside_trans; eauto|].
    intros x Hx. exact Hx.
  - congruence.
Qed.

End Width.
