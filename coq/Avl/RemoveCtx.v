(* Layer T, removal expressed through search-path contexts, mirroring the
   order in which the code of [remove] re-balances:
     - [t_remove_locate]  : t_remove t key = plug_rebal c (t_splice top l r)
       where (c, T l x _ _ _ r) is where the search for [key] stops;
     - [t_remove_min_spine] : t_remove_min through the left-spine context of
       the PARENT of the minimum ([minpar]);
   together with the bookkeeping (slots, stored heights, depths, paths) of
   these decompositions.  Pure tree-level facts; no arrays here. *)
From Coq Require Import List NArith ZArith Bool Lia ZifyBool Permutation.
From Stevia Require Import Base.Res Avl.Impl Avl.Tree Avl.Rep Avl.LinkPrim Avl.LinkRebal Avl.LinkFind.
Import ListNotations.
Open Scope N_scope.
Arguments N.add : simpl never.
Arguments N.sub : simpl never.
Arguments N.mul : simpl never.
Arguments N.max : simpl never.
Arguments N.pow : simpl never.
Arguments N.eqb : simpl never.
Arguments N.ltb : simpl never.
Arguments N.leb : simpl never.
Arguments Z.add : simpl never.
Arguments Z.sub : simpl never.
Arguments Z.ltb : simpl never.
Arguments Z.leb : simpl never.
Arguments Z.eqb : simpl never.
Arguments Z.of_N : simpl never.
Arguments N.of_nat : simpl never.

(* ---------------------------------------------------------------- *)
(* a small solver for Permutation goals over ++ and ::               *)

Section PermSolve.
Context {A : Type}.
Implicit Types (a b l r : list A) (x y : A).

Lemma ps_find_app_here a r : Permutation (a ++ r) (a ++ r).
Proof. reflexivity. Qed.
Lemma ps_find_app_last a : Permutation a (a ++ []).
Proof. rewrite app_nil_r. reflexivity. Qed.
Lemma ps_find_app_skip_app a b r r' : Permutation r (a ++ r') -> Permutation (b ++ r) (a ++ b ++ r').
Proof. intros H. rewrite H. apply Permutation_app_swap_app. Qed.
Lemma ps_find_app_skip_cons a y r r' : Permutation r (a ++ r') -> Permutation (y :: r) (a ++ y :: r').
Proof. intros H. rewrite H. apply Permutation_middle. Qed.
Lemma ps_find_cons_skip_app x b r r' : Permutation r (x :: r') -> Permutation (b ++ r) (x :: b ++ r').
Proof. intros H. rewrite H. symmetry. apply Permutation_middle. Qed.
Lemma ps_find_cons_skip_cons x y r r' : Permutation r (x :: r') -> Permutation (y :: r) (x :: y :: r').
Proof. intros H. rewrite H. apply perm_swap. Qed.
Lemma ps_step_app a l r r' : Permutation r (a ++ r') -> Permutation l r' -> Permutation (a ++ l) r.
Proof. intros H1 H2. rewrite H1, H2. reflexivity. Qed.
Lemma ps_step_cons x l r r' : Permutation r (x :: r') -> Permutation l r' -> Permutation (x :: l) r.
Proof. intros H1 H2. rewrite H1, H2. reflexivity. Qed.
Lemma ps_step_last a r : Permutation r (a ++ []) -> Permutation a r.
Proof. rewrite app_nil_r. intros H. symmetry. exact H. Qed.
End PermSolve.

Ltac ps_find_app a :=
  lazymatch goal with
  | |- Permutation (a ++ _) _ => apply ps_find_app_here
  | |- Permutation a _ => apply ps_find_app_last
  | |- Permutation (_ ++ _) _ => apply ps_find_app_skip_app; ps_find_app a
  | |- Permutation (_ :: _) _ => apply ps_find_app_skip_cons; ps_find_app a
  end.
Ltac ps_find_cons x :=
  lazymatch goal with
  | |- Permutation (x :: _) _ => apply Permutation_refl
  | |- Permutation (_ ++ _) _ => apply ps_find_cons_skip_app; ps_find_cons x
  | |- Permutation (_ :: _) _ => apply ps_find_cons_skip_cons; ps_find_cons x
  end.
Ltac ps_loop :=
  lazymatch goal with
  | |- Permutation [] [] => apply perm_nil
  | |- Permutation (?a ++ ?l) _ => eapply (ps_step_app a l); [ps_find_app a|ps_loop]
  | |- Permutation (?x :: ?l) _ => eapply (ps_step_cons x l); [ps_find_cons x|ps_loop]
  | |- Permutation ?a _ => eapply (ps_step_last a); ps_find_app a
  end.
(* normalise to right-nested appends, then cancel atom by atom *)
Ltac perm_solve :=
  repeat (rewrite <- ?app_assoc, <- ?app_comm_cons); cbn [app]; ps_loop.

(* ---------------------------------------------------------------- *)
(* where the search stops: slots, stored heights, depths             *)

Lemma t_locate_perm t : forall key c0 c tx, t_locate t key c0 = (c, tx) ->
  Permutation (idxs tx ++ ctx_idxs c) (idxs t ++ ctx_idxs c0).
Proof.
  induction t as [|l IHl i k v h r IHr]; intros key c0 c tx; cbn [t_locate].
  - intros [= <- <-]. reflexivity.
  - destruct (key <? k)%Z; [|destruct (k <? key)%Z].
    + intros H. rewrite (IHl _ _ _ _ H). cbn [ctx_idxs fidx fsib idxs]. perm_solve.
    + intros H. rewrite (IHr _ _ _ _ H). cbn [ctx_idxs fidx fsib idxs]. perm_solve.
    + intros [= <- <-]. reflexivity.
Qed.

Lemma t_locate_bounds t : forall key c0 c tx X, t_locate t key c0 = (c, tx) ->
  hmax t <= X -> cmax c0 <= X -> hmax tx <= X /\ cmax c <= X.
Proof.
  induction t as [|l IHl i k v h r IHr]; intros key c0 c tx X; cbn [t_locate].
  - intros [= <- <-]. auto.
  - cbn [hmax]. destruct (key <? k)%Z; [|destruct (k <? key)%Z].
    + intros H Hm Hc. apply (IHl _ _ _ _ _ H); [lia|]. cbn [cmax fsib]. lia.
    + intros H Hm Hc. apply (IHr _ _ _ _ _ H); [lia|]. cbn [cmax fsib]. lia.
    + intros [= <- <-] Hm Hc. cbn [hmax]. auto.
Qed.

Lemma t_locate_depth t : forall key c0 c tx, t_locate t key c0 = (c, tx) ->
  (length c + depth tx <= length c0 + depth t)%nat /\ (length c0 <= length c)%nat.
Proof.
  induction t as [|l IHl i k v h r IHr]; intros key c0 c tx; cbn [t_locate].
  - intros [= <- <-]. lia.
  - cbn [depth]. destruct (key <? k)%Z; [|destruct (k <? key)%Z].
    + intros H. apply IHl in H. cbn [length] in H. lia.
    + intros H. apply IHr in H. cbn [length] in H. lia.
    + intros [= <- <-]. cbn [depth]. lia.
Qed.

(* ---------------------------------------------------------------- *)
(* t_remove_at through the context of the removed node               *)

Lemma t_remove_at_plug t : forall key c0 c l x kx vx hx r,
  t_locate t key c0 = (c, T l x kx vx hx r) ->
  plug_rebal c0 (t_remove_at false t key) = plug_rebal c (t_splice false l r).
Proof.
  induction t as [|l0 IHl i k v h r0 IHr]; intros key c0 c l x kx vx hx r; cbn [t_locate].
  - intros H. discriminate H.
  - cbn [t_remove_at]. destruct (key <? k)%Z; [|destruct (k <? key)%Z].
    + intros H. rewrite <- (IHl _ _ _ _ _ _ _ _ _ H). cbn [plug_rebal fill].
      rewrite (rebal_top_irrel _ i k v h 0 r0). reflexivity.
    + intros H. rewrite <- (IHr _ _ _ _ _ _ _ _ _ H). cbn [plug_rebal fill].
      rewrite (rebal_top_irrel l0 i k v h 0 _). reflexivity.
    + intros [= <- <- <- <- <- _ <-]. reflexivity.
Qed.

Definition is_nil {A} (c : list A) : bool := match c with [] => true | _ :: _ => false end.

(* the whole removal: [top] is true exactly when the removed node is the root *)
Lemma t_remove_locate t key c l x kx vx hx r :
  t_locate t key [] = (c, T l x kx vx hx r) ->
  t_remove t key = plug_rebal c (t_splice (is_nil c) l r).
Proof.
  unfold t_remove. destruct t as [|l0 i k v h r0]; cbn [t_locate]; [intros H; discriminate H|].
  cbn [t_remove_at]. destruct (key <? k)%Z; [|destruct (k <? key)%Z].
  - intros H. pose proof (t_locate_depth _ _ _ _ _ H) as [_ Hlen].
    destruct c as [|f c']; [cbn [length] in Hlen; lia|]. cbn [is_nil].
    rewrite <- (t_remove_at_plug _ _ _ _ _ _ _ _ _ _ H). cbn [plug_rebal fill].
    apply rebal_top_irrel.
  - intros H. pose proof (t_locate_depth _ _ _ _ _ H) as [_ Hlen].
    destruct c as [|f c']; [cbn [length] in Hlen; lia|]. cbn [is_nil].
    rewrite <- (t_remove_at_plug _ _ _ _ _ _ _ _ _ _ H). cbn [plug_rebal fill].
    apply rebal_top_irrel.
  - intros [= <- <- <- <- <- _ <-]. reflexivity.
Qed.

(* ---------------------------------------------------------------- *)
(* the left spine down to the PARENT of the minimum                  *)

(* for a node (l, i, k, v, r) with l <> E: the context of the minimum's
   parent (spine frames pushed on [c]), the parent with the minimum replaced
   by the minimum's right subtree (stored height 0: about to be recomputed),
   and the minimum's slot, key and value *)
Fixpoint minpar (l : itree) (i : N) (k v : Z) (r : itree) (c : ctx) : ctx * itree * (N * Z * Z) :=
  match l with
  | E => (c, E, (0, 0%Z, 0%Z))
  | T ll li lk lv lh lr =>
    match ll with
    | E => (c, T lr i k v 0 r, (li, lk, lv))
    | T _ _ _ _ _ _ => minpar ll li lk lv lr (FL i k v r :: c)
    end
  end.

(* the subtree once the minimum is unlinked, before any re-balancing: stored
   heights unchanged, except that the minimum's parent has been recomputed *)
Fixpoint detach_min (l : itree) (i : N) (k v : Z) (h : N) (r : itree) : itree :=
  match l with
  | E => r
  | T ll li lk lv lh lr =>
    match ll with
    | E => mk lr i k v r
    | T _ _ _ _ _ _ => T (detach_min ll li lk lv lh lr) i k v h r
    end
  end.

Lemma minpar_bottom l : forall i k v r c c' b m,
  l <> E -> minpar l i k v r c = (c', b, m) ->
  exists mr pm kpm vpm pr, b = T mr pm kpm vpm 0 pr.
Proof.
  induction l as [|ll IHll li lk lv lh lr _]; intros i k v r c c' b m Hne; [congruence|].
  cbn [minpar]. destruct ll as [|l3 i3 k3 v3 h3 r3].
  - intros [= <- <- <-]. eauto 6.
  - apply IHll. discriminate.
Qed.

Lemma minpar_acc l : forall i k v r c1 c2,
  minpar l i k v r (c1 ++ c2) =
  (fst (fst (minpar l i k v r c1)) ++ c2, snd (fst (minpar l i k v r c1)), snd (minpar l i k v r c1)).
Proof.
  induction l as [|ll IHll li lk lv lh lr _]; intros i k v r c1 c2; [reflexivity|].
  cbn [minpar]. destruct ll as [|l3 i3 k3 v3 h3 r3]; [reflexivity|].
  rewrite <- IHll. reflexivity.
Qed.

(* t_remove_min through the spine: re-balancing starts at the minimum's parent *)
Lemma t_remove_min_spine l : forall i k v h r c c' b m,
  l <> E -> minpar l i k v r c = (c', b, m) ->
  fst (t_remove_min l i k v h r) = m /\
  plug_rebal c (snd (t_remove_min l i k v h r)) = plug_rebal c' (rebal b).
Proof.
  induction l as [|ll IHll li lk lv lh lr _]; intros i k v h r c c' b m Hne; [congruence|].
  cbn [minpar t_remove_min]. destruct ll as [|l3 i3 k3 v3 h3 r3].
  - intros [= <- <- <-]. cbn [t_remove_min fst snd]. split; [reflexivity|].
    rewrite (rebal_top_irrel lr i k v h 0 r). reflexivity.
  - intros H. destruct (IHll li lk lv lh lr _ _ _ _ ltac:(discriminate) H) as [H1 H2].
    destruct (t_remove_min (T l3 i3 k3 v3 h3 r3) li lk lv lh lr) as [m' l'].
    cbn [fst snd] in *. split; [exact H1|].
    rewrite <- H2. cbn [plug_rebal fill]. rewrite (rebal_top_irrel l' i k v h 0 r). reflexivity.
Qed.

Lemma minpar_perm l : forall i k v h r c c' b m,
  l <> E -> minpar l i k v r c = (c', b, m) ->
  Permutation (fst (fst m) :: idxs b ++ ctx_idxs c') (idxs (T l i k v h r) ++ ctx_idxs c).
Proof.
  induction l as [|ll IHll li lk lv lh lr _]; intros i k v h r c c' b m Hne; [congruence|].
  cbn [minpar]. destruct ll as [|l3 i3 k3 v3 h3 r3].
  - intros [= <- <- <-]. cbn [fst idxs]. perm_solve.
  - intros H. rewrite (IHll li lk lv lh lr _ _ _ _ ltac:(discriminate) H).
    cbn [ctx_idxs fidx fsib]. set (tl := T l3 i3 k3 v3 h3 r3). cbn [idxs]. perm_solve.
Qed.

Lemma minpar_bounds l : forall i k v h r c c' b m X,
  l <> E -> minpar l i k v r c = (c', b, m) ->
  hmax (T l i k v h r) <= X -> cmax c <= X -> hmax b <= X /\ cmax c' <= X.
Proof.
  induction l as [|ll IHll li lk lv lh lr _]; intros i k v h r c c' b m X Hne; [congruence|].
  cbn [minpar]. destruct ll as [|l3 i3 k3 v3 h3 r3].
  - intros [= <- <- <-]. cbn [hmax]. lia.
  - intros H Hm Hc. apply (IHll li lk lv lh lr _ _ _ _ X ltac:(discriminate) H).
    + cbn [hmax] in *. lia.
    + cbn [cmax fsib]. cbn [hmax] in Hm. lia.
Qed.

Lemma minpar_depth l : forall i k v h r c c' b m,
  l <> E -> minpar l i k v r c = (c', b, m) ->
  (length c' + 2 <= length c + depth (T l i k v h r))%nat.
Proof.
  induction l as [|ll IHll li lk lv lh lr _]; intros i k v h r c c' b m Hne; [congruence|].
  cbn [minpar]. destruct ll as [|l3 i3 k3 v3 h3 r3].
  - intros [= <- <- <-]. cbn [depth]. lia.
  - intros H. apply (IHll li lk lv lh lr) in H; [|discriminate].
    cbn [length] in H. cbn [depth] in *. lia.
Qed.

(* the loop of [remove] stops at the minimum, with its parent *)
Lemma minpar_leftmost l : forall i k v h r c c' b m par,
  l <> E -> minpar l i k v r c = (c', b, m) ->
  t_leftmost (T l i k v h r) par = (fst (fst m), idx b).
Proof.
  induction l as [|ll IHll li lk lv lh lr _]; intros i k v h r c c' b m par Hne; [congruence|].
  cbn [minpar t_leftmost]. destruct ll as [|l3 i3 k3 v3 h3 r3].
  - intros [= <- <- <-]. reflexivity.
  - intros H. apply (IHll li lk lv lh lr _ _ _ _ i ltac:(discriminate) H).
Qed.

(* the rebalancing path: the inner path of the loop without its last entry *)
Lemma minpar_path l : forall i k v h r c c' b m,
  l <> E -> minpar l i k v r c = (c', b, m) ->
  exists ip, lpath (t_leftspine (T l i k v h r)) = ip ++ [(Some (idx b), Some L, fst (fst m))] /\
             path_of c' (idx b) = path_of c i ++ ip.
Proof.
  induction l as [|ll IHll li lk lv lh lr _]; intros i k v h r c c' b m Hne; [congruence|].
  cbn [minpar]. destruct ll as [|l3 i3 k3 v3 h3 r3].
  - intros [= <- <- <-]. exists []. cbn [t_leftspine lpath idx fst app]. rewrite app_nil_r. auto.
  - intros H. destruct (IHll li lk lv lh lr _ _ _ _ ltac:(discriminate) H) as [ip [H1 H2]].
    exists ((Some i, Some L, li) :: ip). split.
    + change (t_leftspine (T (T (T l3 i3 k3 v3 h3 r3) li lk lv lh lr) i k v h r))
        with (i :: t_leftspine (T (T l3 i3 k3 v3 h3 r3) li lk lv lh lr)).
      change (t_leftspine (T (T l3 i3 k3 v3 h3 r3) li lk lv lh lr))
        with (li :: t_leftspine (T l3 i3 k3 v3 h3 r3)) in *.
      cbn [lpath] in *. rewrite H1. reflexivity.
    + rewrite H2. cbn [path_of fidx fdir]. rewrite <- app_assoc. reflexivity.
Qed.

(* the minimum is a node without left child, hanging below the parent *)
Lemma minpar_min_in l : forall i k v r c c' b m,
  l <> E -> minpar l i k v r c = (c', b, m) -> In (fst (fst m)) (idxs l).
Proof.
  induction l as [|ll IHll li lk lv lh lr _]; intros i k v r c c' b m Hne; [congruence|].
  cbn [minpar]. destruct ll as [|l3 i3 k3 v3 h3 r3].
  - intros [= <- <- <-]. cbn [fst idxs app]. left. reflexivity.
  - intros H. apply (IHll li lk lv lr) in H; [|discriminate].
    set (tl := T l3 i3 k3 v3 h3 r3) in *.
    change (idxs (T tl li lk lv lh lr)) with (idxs tl ++ li :: idxs lr).
    apply in_or_app. left. exact H.
Qed.

(* ---- detach_min ---- *)
Lemma detach_min_idx l i k v h r : l <> E -> idx (detach_min l i k v h r) = i.
Proof.
  destruct l as [|ll li lk lv lh lr]; [congruence|]. intros _. cbn [detach_min].
  destruct ll; reflexivity.
Qed.

Lemma detach_min_idxs l : forall i k v h r c c' b m,
  l <> E -> minpar l i k v r c = (c', b, m) ->
  idxs (T l i k v h r) = fst (fst m) :: idxs (detach_min l i k v h r).
Proof.
  induction l as [|ll IHll li lk lv lh lr _]; intros i k v h r c c' b m Hne; [congruence|].
  cbn [minpar detach_min]. destruct ll as [|l3 i3 k3 v3 h3 r3].
  - intros [= <- <- <-]. cbn [fst idxs mk app]. reflexivity.
  - intros H. pose proof (IHll li lk lv lh lr _ _ _ _ ltac:(discriminate) H) as IH.
    set (tl := T l3 i3 k3 v3 h3 r3) in *.
    change (idxs (T (T tl li lk lv lh lr) i k v h r)) with (idxs (T tl li lk lv lh lr) ++ i :: idxs r).
    rewrite IH. reflexivity.
Qed.

Lemma detach_min_hmax l : forall i k v h r,
  l <> E -> hmax (detach_min l i k v h r) <= hmax (T l i k v h r) + 1.
Proof.
  induction l as [|ll IHll li lk lv lh lr _]; intros i k v h r Hne; [congruence|].
  cbn [detach_min]. destruct ll as [|l3 i3 k3 v3 h3 r3].
  - pose proof (hmax_mk lr i k v r). cbn [hmax]. lia.
  - pose proof (IHll li lk lv lh lr ltac:(discriminate)) as IH.
    set (tl := T l3 i3 k3 v3 h3 r3) in *.
    change (hmax (T (detach_min tl li lk lv lh lr) i k v h r))
      with (N.max h (N.max (hmax (detach_min tl li lk lv lh lr)) (hmax r))).
    change (hmax (T (T tl li lk lv lh lr) i k v h r))
      with (N.max h (N.max (hmax (T tl li lk lv lh lr)) (hmax r))).
    lia.
Qed.

(* ---------------------------------------------------------------- *)
(* stored heights and depth of well-formed trees                     *)

Lemma hok_hmax t : hok t -> hmax t <= levels t.
Proof.
  induction t as [|l IHl i k v h r IHr]; cbn [hok hmax levels]; [lia|].
  intros [Hh [Hl Hr]]. specialize (IHl Hl). specialize (IHr Hr). lia.
Qed.

Lemma tsize_idxs t : tsize t = N.of_nat (length (idxs t)).
Proof.
  induction t as [|l IHl i k v h r IHr]; cbn [tsize idxs]; [reflexivity|].
  rewrite app_length. cbn [length]. lia.
Qed.

(* ---------------------------------------------------------------- *)
(* sanity: the decompositions compute what the lemmas say            *)

Module RemoveCtxExample.
  Definition lf i k := T E i k (k * 10)%Z 0 E.
  (*            8
            4       12
          2   6   10   14
         1 3 5 7 9 11 13 15      slots = keys *)
  Definition t15 : itree :=
    T (T (T (lf 1 1) 2 2 20 1 (lf 3 3)) 4 4 40 2 (T (lf 5 5) 6 6 60 1 (lf 7 7))) 8 8 80 3
      (T (T (lf 9 9) 10 10 100 1 (lf 11 11)) 12 12 120 2 (T (lf 13 13) 14 14 140 1 (lf 15 15))).
  (* removing the root: the successor 9 is two levels below the right child *)
  Example locate_root : t_locate t15 8 [] = ([], t15).
  Proof. reflexivity. Qed.
  Example spine_root :
    let '(cm, b, m) := minpar (T (lf 9 9) 10 10 100 1 (lf 11 11)) 12 12 120
                              (T (lf 13 13) 14 14 140 1 (lf 15 15)) [] in
    m = (9, 9%Z, 90%Z) /\ idx b = 10 /\ length cm = 1%nat /\
    t_remove t15 8 =
    plug_rebal (cm ++ [FR (T (T (lf 1 1) 2 2 20 1 (lf 3 3)) 4 4 40 2 (T (lf 5 5) 6 6 60 1 (lf 7 7)))
                          9 9 90]) (rebal b).
  Proof. vm_compute. auto. Qed.
  (* removing an inner node *)
  Example locate_12 :
    let '(c, tx) := t_locate t15 12 [] in
    idx tx = 12 /\ length c = 1%nat /\
    t_remove t15 12 = plug_rebal c (t_splice false (T (lf 9 9) 10 10 100 1 (lf 11 11))
                                                   (T (lf 13 13) 14 14 140 1 (lf 15 15))).
  Proof. vm_compute. auto. Qed.
End RemoveCtxExample.

Print Assumptions t_remove_at_plug.
Print Assumptions t_remove_locate.
Print Assumptions t_remove_min_spine.
Print Assumptions minpar_perm.
Print Assumptions minpar_path.
Print Assumptions detach_min_idxs.
