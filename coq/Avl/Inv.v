(* The master invariant of the AVL trees on layer C: the record array
   represents a tree of layer T that is a balanced search tree with exact
   stored heights, and the allocator invariant holds with the tree's slots as
   the live set. *)
From Coq Require Import List NArith ZArith Bool Lia.
From Stevia Require Import Base.Res Avl.Impl Avl.Tree Avl.Rep Avl.Spec Avl.Alloc.
Import ListNotations.
Open Scope N_scope.

Section W.
Variable bits : N.

Record Inv (s : st) (t : itree) (fr : list N) (term : N) : Prop := mkInv {
  inv_rep : rep (nodes s) t;
  inv_root : root s = idx t;
  inv_hok : hok t;
  inv_avl : avl t;
  inv_bst : bst t;
  inv_alloc : alloc_inv bits s (idxs t) fr term
}.

Definition inv (s : st) : Prop := exists t fr term, Inv s t fr term.

(* the abstract contents of a state: the spec's view *)
Definition abs_of (s : st) (t : itree) : sst :=
  mkSS (cap s) (inorder t) (N.of_nat (length (nodes s))).

End W.
