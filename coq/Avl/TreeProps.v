(* Summary of the layer-T theory: the final theorems under clear names.
   Only statements, [exact]-proofs, Print Assumptions and examples live here;
   the proofs are in TreeInv.v, SmapFacts.v, TreeOps.v and TreeHeight.v. *)
From Coq Require Import List NArith ZArith Bool Permutation Sorted.
From Stevia Require Import Avl.Spec Avl.SmapFacts Avl.Tree Avl.TreeInv Avl.TreeOps Avl.TreeHeight.
Import ListNotations.
Open Scope N_scope.

(* ---- one rebalancing step ---- *)
Theorem rebal_spec l i k v h r :
  hok l -> hok r -> avl l -> avl r -> levels l <= levels r + 2 -> levels r <= levels l + 2 ->
  rebal_post l i k v r (rebal (T l i k v h r)).
Proof. exact (TreeInv.rebal_spec l i k v h r). Qed.
Print Assumptions rebal_spec.

(* rotations never change the in-order sequence of (slot, key, value): unconditional *)
Theorem rebal_triples t : triples (rebal t) = triples t.
Proof. exact (TreeInv.triples_rebal t). Qed.
Print Assumptions rebal_triples.

(* rebal is the identity on consistent balanced trees (the empty tree included) *)
Theorem rebal_id t : hok t -> avl t -> rebal t = t.
Proof. exact (TreeInv.rebal_id t). Qed.
Print Assumptions rebal_id.

Theorem bst_sorted t : bst t <-> StronglySorted Z.lt (keys t).
Proof. exact (TreeOps.bst_sorted t). Qed.
Print Assumptions bst_sorted.

(* ---- insertion ---- *)
Theorem t_insert_correct t new key value :
  hok t -> avl t -> bst t -> ~ In key (keys t) ->
  let t' := t_insert t new key value in
  hok t' /\ avl t' /\ bst t' /\
  levels t <= levels t' /\ levels t' <= levels t + 1 /\
  inorder t' = sm_insert (inorder t) key value /\
  Permutation (idxs t') (new :: idxs t) /\
  tsize t' = tsize t + 1 /\
  (exists l1 l2, triples t = l1 ++ l2 /\ triples t' = l1 ++ (new, key, value) :: l2) /\
  Permutation (triples t') ((new, key, value) :: triples t) /\
  (forall s k v, In (s, k, v) (triples t) -> In (s, k, v) (triples t')).
Proof.
  intros Hh Ha Hb Hn. destruct (TreeOps.t_insert_correct t new key value Hh Ha Hb Hn).
  cbv zeta. repeat split; assumption.
Qed.
Print Assumptions t_insert_correct.

Theorem t_insert_present t new key value :
  hok t -> avl t -> bst t -> In key (keys t) -> t_insert t new key value = t.
Proof. exact (TreeOps.t_insert_present t new key value). Qed.
Print Assumptions t_insert_present.

(* ---- removal ---- *)
Theorem t_remove_correct t key slot v :
  hok t -> avl t -> bst t -> t_find t key = Some (slot, v) ->
  let t' := t_remove t key in
  hok t' /\ avl t' /\ bst t' /\
  levels t' <= levels t /\ levels t <= levels t' + 1 /\
  inorder t' = sm_remove (inorder t) key /\
  Permutation (idxs t) (slot :: idxs t') /\
  tsize t = tsize t' + 1 /\
  (exists l1 l2, triples t = l1 ++ (slot, key, v) :: l2 /\ triples t' = l1 ++ l2) /\
  Permutation (triples t) ((slot, key, v) :: triples t') /\
  (forall s k' v', In (s, k', v') (triples t) -> k' <> key -> In (s, k', v') (triples t')) /\
  ~ In key (keys t').
Proof.
  intros Hh Ha Hb Hf. destruct (TreeOps.t_remove_correct t key slot v Hh Ha Hb Hf).
  cbv zeta. repeat split; assumption.
Qed.
Print Assumptions t_remove_correct.

Theorem t_remove_absent t key : hok t -> avl t -> t_find t key = None -> t_remove t key = t.
Proof. exact (TreeOps.t_remove_absent t key). Qed.
Print Assumptions t_remove_absent.

Theorem t_remove_min_correct l i k v h r :
  hok (T l i k v h r) -> avl (T l i k v h r) -> bst (T l i k v h r) ->
  let m := fst (t_remove_min l i k v h r) in
  let t' := snd (t_remove_min l i k v h r) in
  hok t' /\ avl t' /\ bst t' /\
  levels t' <= levels (T l i k v h r) /\ levels (T l i k v h r) <= levels t' + 1 /\
  triples (T l i k v h r) = m :: triples t' /\
  inorder (T l i k v h r) = tr_kv m :: inorder t' /\
  all_keys (fun x => (tr_key m < x)%Z) t'.
Proof.
  intros Hh Ha Hb. destruct (TreeOps.t_remove_min_correct l i k v h r Hh Ha Hb).
  cbv zeta. repeat split; assumption.
Qed.
Print Assumptions t_remove_min_correct.

Theorem t_splice_correct top l i k v h r :
  hok (T l i k v h r) -> avl (T l i k v h r) -> bst (T l i k v h r) ->
  let t' := t_splice top l r in
  hok t' /\ avl t' /\ bst t' /\
  levels t' <= levels (T l i k v h r) /\ levels (T l i k v h r) <= levels t' + 1 /\
  triples t' = triples l ++ triples r /\
  inorder t' = inorder l ++ inorder r.
Proof.
  intros Hh Ha Hb. destruct (TreeOps.t_splice_correct top l i k v h r Hh Ha Hb).
  cbv zeta. cbn [levels]. repeat split; assumption.
Qed.
Print Assumptions t_splice_correct.

(* ---- lookups ---- *)
Theorem t_find_correct t key :
  bst t ->
  option_map snd (t_find t key) = sm_find (inorder t) key /\
  (forall slot v, t_find t key = Some (slot, v) <-> In (slot, key, v) (triples t)) /\
  (t_find t key = None <-> ~ In key (keys t)).
Proof.
  intros Hb. split; [exact (t_find_inorder t key Hb)|]. split.
  - intros slot v. exact (t_find_iff t key slot v Hb).
  - exact (t_find_none_iff t key Hb).
Qed.
Print Assumptions t_find_correct.

Theorem t_lowest_correct t : t_lowest t = option_map fst (hd_error (inorder t)).
Proof. exact (t_lowest_inorder t). Qed.
Print Assumptions t_lowest_correct.

Theorem t_update_correct t key v' :
  (bst t -> inorder (t_update t key v') = sm_update (inorder t) key v') /\
  (hok t -> hok (t_update t key v')) /\
  (avl t -> avl (t_update t key v')) /\
  (bst t -> bst (t_update t key v')) /\
  idxs (t_update t key v') = idxs t /\
  keys (t_update t key v') = keys t /\
  levels (t_update t key v') = levels t /\
  tsize (t_update t key v') = tsize t.
Proof.
  split; [exact (t_update_inorder t key v')|]. split; [exact (t_update_hok t key v')|].
  split; [exact (t_update_avl t key v')|]. split; [exact (t_update_bst t key v')|].
  split; [exact (t_update_idxs t key v')|]. split; [exact (t_update_keys t key v')|].
  split; [exact (t_update_levels t key v')|exact (t_update_tsize t key v')].
Qed.
Print Assumptions t_update_correct.

(* the comparison log of a descent follows ONE root-to-leaf path, each key of
   the path compared once (descent to the left) or twice *)
Theorem t_log_path t key :
  exists p : list (Z * bool),
    is_path t (map fst p) /\ N.of_nat (length p) <= levels t /\
    t_log t key = flat_map (fun kb : Z * bool => if snd kb then [fst kb; fst kb] else [fst kb]) p.
Proof. exact (TreeOps.t_log_path t key). Qed.
Print Assumptions t_log_path.

Theorem t_log_distinct t key d :
  NoDup d -> incl d (t_log t key) -> N.of_nat (length d) <= levels t.
Proof. exact (TreeOps.t_log_distinct t key d). Qed.
Print Assumptions t_log_distinct.

(* ---- the height bound (C06) ---- *)
Theorem avl_height_bound t : avl t -> minnodes (N.to_nat (levels t)) <= tsize t.
Proof. exact (TreeHeight.avl_height_bound t). Qed.
Print Assumptions avl_height_bound.

Theorem minnodes_strict n m : (n < m)%nat -> minnodes n < minnodes m.
Proof. exact (TreeHeight.minnodes_strict n m). Qed.
Print Assumptions minnodes_strict.

Theorem minnodes_closed h : 2 ^ (N.of_nat h / 2) <= minnodes h + 1.
Proof. exact (TreeHeight.minnodes_closed h). Qed.
Print Assumptions minnodes_closed.

Theorem avl_levels_u8 t : avl t -> tsize t < 256 -> levels t <= 12.
Proof. exact (TreeHeight.avl_levels_u8 t). Qed.
Print Assumptions avl_levels_u8.
Theorem avl_levels_u8_tight t : avl t -> tsize t < 256 -> levels t <= 11.
Proof. exact (TreeHeight.avl_levels_u8_tight t). Qed.
Print Assumptions avl_levels_u8_tight.

Theorem avl_levels_u32 t : avl t -> tsize t < 2 ^ 32 -> levels t <= 46.
Proof. exact (TreeHeight.avl_levels_u32 t). Qed.
Print Assumptions avl_levels_u32.
Theorem avl_levels_u32_tight t : avl t -> tsize t < 2 ^ 32 -> levels t <= 45.
Proof. exact (TreeHeight.avl_levels_u32_tight t). Qed.
Print Assumptions avl_levels_u32_tight.

(* ---- examples ---- *)
(*          50                              40
          /    \        insert 35         /    \
        30      70      ---------->     30      50
       /  \             (rotl 30,      /  \       \
     20    40            rotr 50)    20    35      70                        *)
Definition ex5 : itree :=
  T (T (T E 4 20 200 0 E) 2 30 300 1 (T E 5 40 400 0 E)) 1 50 500 2 (T E 3 70 700 0 E).

Example ex5_inv : hok ex5 /\ avl ex5 /\ bst ex5 /\ ~ In 35%Z (keys ex5).
Proof.
  split; [|split; [|split]].
  - cbv [ex5 hok levels]. repeat split; reflexivity.
  - cbv [ex5 avl levels]. repeat split; try exact I; discriminate.
  - cbv [ex5 bst all_keys]. repeat split; try exact I; reflexivity.
  - cbv [ex5 keys app In]. intros H. repeat (destruct H as [H|H]; [discriminate H|]). exact H.
Qed.

Example ex5_insert_double_rotation :
  t_insert ex5 6 35 350 =
  T (T (T E 4 20 200 0 E) 2 30 300 1 (T E 6 35 350 0 E)) 5 40 400 2
    (T E 1 50 500 1 (T E 3 70 700 0 E)).
Proof. vm_compute. reflexivity. Qed.

(* a 7-node tree; removing 80 makes the root left-heavy with a right-heavy
   left child: double rotation; removing the root 50 promotes its successor
   70 (which keeps slot 3) and then needs the same double rotation *)
Definition ex7 : itree :=
  T (T (T E 4 20 200 0 E) 2 30 300 2 (T (T E 6 35 350 0 E) 5 40 400 1 E)) 1 50 500 3
    (T E 3 70 700 1 (T E 7 80 800 0 E)).

Example ex7_inv : hok ex7 /\ avl ex7 /\ bst ex7 /\ t_find ex7 80 = Some (7, 800%Z).
Proof.
  split; [|split; [|split]].
  - cbv [ex7 hok levels]. repeat split; reflexivity.
  - cbv [ex7 avl levels]. repeat split; try exact I; discriminate.
  - cbv [ex7 bst all_keys]. repeat split; try exact I; reflexivity.
  - vm_compute. reflexivity.
Qed.

Example ex7_remove_double_rotation :
  t_remove ex7 80 =
  T (T (T E 4 20 200 0 E) 2 30 300 1 (T E 6 35 350 0 E)) 5 40 400 2
    (T E 1 50 500 1 (T E 3 70 700 0 E)).
Proof. vm_compute. reflexivity. Qed.

Example ex7_remove_root :
  t_remove ex7 50 =
  T (T (T E 4 20 200 0 E) 2 30 300 1 (T E 6 35 350 0 E)) 5 40 400 2
    (T E 3 70 700 1 (T E 7 80 800 0 E)).
Proof. vm_compute. reflexivity. Qed.

Example ex7_log : t_log ex7 35 = [50; 30; 30; 40; 35; 35]%Z.
Proof. vm_compute. reflexivity. Qed.

Example minnodes_values :
  map minnodes [0; 1; 2; 3; 4; 5; 6; 11; 12; 13]%nat = [0; 1; 2; 4; 7; 12; 20; 232; 376; 609].
Proof. vm_compute. reflexivity. Qed.
