(* The master theorems of the AVL trees: the step theorem for every
   operation, the history theorem from every invariant state and from the
   initial state, reachability, and the clauses of C01 as corollaries.

   The link for [remove] is proved in Avl/LinkRemove.v; here it is a section
   hypothesis, so every theorem that depends on it takes
   [remove_spec_statement bits] as an explicit premise. *)
From Coq Require Import List NArith ZArith Bool Lia ZifyBool Permutation Sorted.
From Stevia Require Import Base.Res Base.ResMore Avl.Impl Avl.Tree Avl.Rep Avl.Spec.
From Stevia Require Import Avl.TreeInv Avl.SmapFacts Avl.TreeOps Avl.TreeProps Avl.LinkFind Avl.Alloc Avl.Inv.
From Stevia Require Import Avl.LinkInsert Avl.LinkSteps Avl.SmapMore.
Import ListNotations.
Open Scope N_scope.

Arguments N.add : simpl never.
Arguments N.sub : simpl never.
Arguments N.mul : simpl never.
Arguments N.pow : simpl never.
Arguments N.modulo : simpl never.
Arguments N.eqb : simpl never.
Arguments N.ltb : simpl never.
Arguments N.leb : simpl never.
Arguments N.max : simpl never.
Arguments Z.add : simpl never.
Arguments Z.sub : simpl never.
Arguments Z.ltb : simpl never.
Arguments Z.gtb : simpl never.
Arguments Z.eqb : simpl never.
Arguments N.of_nat : simpl never.

Definition remove_spec_statement (bits : N) : Prop :=
  forall s t fr term key, Inv bits s t fr term -> okbits bits ->
    (t_find t key = None -> remove bits s key = Ok (s, None, t_log t key)) /\
    (forall slot v, t_find t key = Some (slot, v) ->
       exists s' fr' term', remove bits s key = Ok (s', Some v, t_log t key) /\
         Inv bits s' (t_remove t key) fr' term' /\ fr' = slot :: fr /\ cap s' = cap s /\
         length (nodes s') = length (nodes s)).

(* ------------------------------------------------------------------ *)
(* definitions that do not depend on removal                           *)

(* the number of records of a state *)
Definition nrec (s : st) : N := N.of_nat (length (nodes s)).

(* no growth is pending: the record array is not longer than the capacity
   word says *)
Definition settled (s : st) : Prop := nrec s <= cap s.

Definition no_ext (o : op) : Prop := match o with OExt _ => False | _ => True end.

(* the final abstract state of a history *)
Fixpoint final_s (a : sst) (ops : list op) : sst :=
  match ops with
  | [] => a
  | o :: r => final_s (fst (spec_step a o)) r
  end.

Section Growth.
Variable bits : N.

(* admissible growth, read off the SPEC run: at every [OExt n] the record
   count, plus one for the allocator cursor, stays within the index width
   (u8: at most 254 records) *)
Fixpoint growth_ok (a : sst) (ops : list op) : Prop :=
  match ops with
  | [] => True
  | o :: r => (forall n, o = OExt n -> snrec a + n + 1 < 2 ^ bits) /\
              growth_ok (fst (spec_step a o)) r
  end.

(* the weaker condition that suffices: an extension that stays within the
   stored capacity (in particular [OExt 0]) is always harmless *)
Fixpoint growth_okw (a : sst) (ops : list op) : Prop :=
  match ops with
  | [] => True
  | o :: r => (forall n, o = OExt n -> snrec a + n <= scap a \/ snrec a + n + 1 < 2 ^ bits) /\
              growth_okw (fst (spec_step a o)) r
  end.

Lemma growth_ok_weak ops : forall a, growth_ok a ops -> growth_okw a ops.
Proof.
  induction ops as [|o r IH]; intros a; cbn [growth_ok growth_okw]; [auto|].
  intros [H1 H2]. split; [|apply IH; exact H2]. intros n Hn. right. apply H1. exact Hn.
Qed.

Lemma growth_ok_no_ext ops : forall a, Forall no_ext ops -> growth_ok a ops.
Proof.
  induction ops as [|o r IH]; intros a Hf; cbn [growth_ok]; [exact I|].
  inversion Hf as [|? ? Ho Hr]; subst. split; [|apply IH; exact Hr].
  intros n ->. destruct Ho.
Qed.

Lemma growth_okw_app ops1 : forall a ops2,
  growth_okw a (ops1 ++ ops2) <-> growth_okw a ops1 /\ growth_okw (final_s a ops1) ops2.
Proof.
  induction ops1 as [|o r IH]; intros a ops2; cbn [app growth_okw final_s]; [tauto|].
  rewrite IH. tauto.
Qed.

Lemma sizecond_ext s n :
  sizecond bits (ext_nodes s n) <-> (nrec s + n <= cap s \/ nrec s + n + 1 < 2 ^ bits).
Proof.
  unfold sizecond, ext_nodes, nrec. cbn [with_nodes cap nodes]. rewrite app_length, repeat_length.
  replace (N.of_nat (length (nodes s) + N.to_nat n)) with (N.of_nat (length (nodes s)) + n) by lia.
  reflexivity.
Qed.

Lemma settled_sizecond s : settled s -> sizecond bits s.
Proof. intros H. left. exact H. Qed.

(* a history on a buffer of fixed size keeps the capacity and the record
   count: nothing is ever claimed *)
Lemma final_s_fixed ops : forall a,
  Forall no_ext ops -> snrec a <= scap a ->
  scap (final_s a ops) = scap a /\ snrec (final_s a ops) = snrec a.
Proof.
  induction ops as [|o r IH]; intros a Hne Ha; cbn [final_s]; [auto|].
  inversion Hne as [|? ? Ho Hr]; subst.
  assert (Hs : scap (fst (spec_step a o)) = scap a /\ snrec (fst (spec_step a o)) = snrec a).
  { destruct o; cbn [no_ext] in Ho; try contradiction; cbn [spec_step fst s_claim scap snrec sents];
      repeat match goal with |- context [match ?x with _ => _ end] => destruct x end;
      cbn [fst scap snrec s_claim]; lia. }
  destruct Hs as [Hs1 Hs2]. destruct (IH (fst (spec_step a o)) Hr) as [I1 I2]; [lia|]. lia.
Qed.

(* histories without removal: the final state satisfies the invariant
   (unconditional, used for examples) *)
Theorem final_inv_noremove ops : forall s t fr term,
  Inv bits s t fr term -> okbits bits -> sizecond bits s -> Forall not_remove ops ->
  growth_okw (abs_of s t) ops ->
  exists s' t' fr' term',
    final_c bits s ops = Ok s' /\ Inv bits s' t' fr' term' /\ sizecond bits s' /\
    abs_of s' t' = final_s (abs_of s t) ops.
Proof.
  induction ops as [|o r IH]; intros s t fr term H Hb Hsc Hnr Hok.
  - exists s, t, fr, term. cbn [final_c final_s]. auto.
  - cbn [growth_okw] in Hok. destruct Hok as (Hg & Hrest). inversion Hnr as [|? ? Ho Hr]; subst.
    destruct (step_refines_noremove bits s t fr term o H Hb Hsc Ho)
      as (s' & out & log & t' & fr' & term' & Hstep & H' & Habs & Hsc').
    { intros n Hn. apply sizecond_ext. exact (Hg n Hn). }
    rewrite <- Habs in Hrest. cbn [fst] in Hrest.
    destruct (IH s' t' fr' term' H' Hb Hsc' Hr Hrest) as (s2 & t2 & fr2 & term2 & Hf & H2 & Hsc2 & Ha2).
    exists s2, t2, fr2, term2. cbn [final_c final_s]. rewrite Hstep, <- Habs. cbn [bind fst].
    auto.
Qed.

End Growth.

(* ------------------------------------------------------------------ *)
Section WithRemove.
Variable bits : N.
Hypothesis Hremove : remove_spec_statement bits.

(* 1. the step theorem, every operation *)
Theorem step_refines s t fr term o :
  Inv bits s t fr term -> okbits bits -> sizecond bits s ->
  (forall n, o = OExt n -> sizecond bits (ext_nodes s n)) ->
  exists s' out log t' fr' term',
    step_c bits s o = Ok (s', out, log) /\
    Inv bits s' t' fr' term' /\
    (abs_of s' t', out_abs out) = spec_step (abs_of s t) o /\
    sizecond bits s'.
Proof.
  intros H Hb Hsc Hext.
  destruct o as [k v|k|k|k v|k|k| | | | | |n| | ];
    try (apply (step_refines_noremove bits s t fr term); [exact H|exact Hb|exact Hsc|exact I|exact Hext]).
  (* ORemove *)
  destruct (open_mut_inv_spec bits s t fr term H Hsc)
    as (s1 & fr1 & Hom & H1 & Hcap1 & _ & Hlen1 & _).
  pose proof (abs_claim s s1 t Hcap1 Hlen1) as Hclaim.
  assert (Hsc1 : sizecond bits s1) by (apply (sizecond_mono bits s); [exact Hlen1|lia|exact Hsc]).
  pose proof (inv_bst _ _ _ _ _ H) as Hbst.
  pose proof (t_find_inorder t k Hbst) as Hfi.
  destruct (Hremove s1 t fr1 term k H1 Hb) as [Habsent Hpresent].
  cbn [step_c spec_step]. rewrite Hom, <- Hclaim. cbn [bind abs_of sents scap snrec].
  destruct (t_find t k) as [[slot v]|] eqn:Ef; cbn [option_map snd] in Hfi; rewrite <- Hfi.
  - destruct (Hpresent slot v eq_refl) as (s2 & fr2 & term2 & Hrm & H2 & _ & Hcap2 & Hlen2).
    rewrite Hrm. cbn [bind].
    exists s2, (RVal (Some v)), (t_log t k), (t_remove t k), fr2, term2.
    split; [reflexivity|]. split; [exact H2|]. split.
    + destruct (t_remove_correct t k slot v (inv_hok _ _ _ _ _ H) (inv_avl _ _ _ _ _ H) Hbst Ef)
        as (_ & _ & _ & _ & _ & Hio & _).
      unfold abs_of. cbn [out_abs]. rewrite Hio, Hcap2, Hlen2. reflexivity.
    + apply (sizecond_mono bits s1); [exact Hlen2|lia|exact Hsc1].
  - rewrite (Habsent eq_refl). cbn [bind].
    exists s1, (RVal None), (t_log t k), t, fr1, term.
    split; [reflexivity|]. split; [exact H1|]. split; [|exact Hsc1].
    unfold abs_of. cbn [out_abs]. rewrite sm_remove_absent by (symmetry; exact Hfi). reflexivity.
Qed.

(* 2. histories *)
Lemma step_ext_cond s t o :
  (forall n, o = OExt n -> snrec (abs_of s t) + n <= scap (abs_of s t) \/
                           snrec (abs_of s t) + n + 1 < 2 ^ bits) ->
  forall n, o = OExt n -> sizecond bits (ext_nodes s n).
Proof. intros Hc n Hn. apply sizecond_ext. exact (Hc n Hn). Qed.

Theorem run_refines_from ops : forall s t fr term,
  Inv bits s t fr term -> okbits bits -> sizecond bits s -> growth_okw bits (abs_of s t) ops ->
  exists outs, run_c bits s ops = map Ok outs /\ map out_abs outs = run_s (abs_of s t) ops.
Proof.
  induction ops as [|o r IH]; intros s t fr term H Hb Hsc Hok.
  - exists []. split; reflexivity.
  - cbn [growth_okw] in Hok. destruct Hok as (Hg & Hrest).
    destruct (step_refines s t fr term o H Hb Hsc (step_ext_cond s t o Hg))
      as (s' & out & log & t' & fr' & term' & Hstep & H' & Habs & Hsc').
    rewrite <- Habs in Hrest. cbn [fst] in Hrest.
    destruct (IH s' t' fr' term' H' Hb Hsc' Hrest) as (outs & Hrc & Hrs).
    exists (out :: outs). cbn [run_c run_s map]. rewrite Hstep, <- Habs, Hrc, Hrs. split; reflexivity.
Qed.

(* the same, following the state: the final state satisfies the invariant
   and represents the final state of the spec run *)
Theorem final_refines_from ops : forall s t fr term,
  Inv bits s t fr term -> okbits bits -> sizecond bits s -> growth_okw bits (abs_of s t) ops ->
  exists s' t' fr' term',
    final_c bits s ops = Ok s' /\ Inv bits s' t' fr' term' /\ sizecond bits s' /\
    abs_of s' t' = final_s (abs_of s t) ops.
Proof.
  induction ops as [|o r IH]; intros s t fr term H Hb Hsc Hok.
  - exists s, t, fr, term. cbn [final_c final_s]. auto.
  - cbn [growth_okw] in Hok. destruct Hok as (Hg & Hrest).
    destruct (step_refines s t fr term o H Hb Hsc (step_ext_cond s t o Hg))
      as (s' & out & log & t' & fr' & term' & Hstep & H' & Habs & Hsc').
    rewrite <- Habs in Hrest. cbn [fst] in Hrest.
    destruct (IH s' t' fr' term' H' Hb Hsc' Hrest) as (s2 & t2 & fr2 & term2 & Hf & H2 & Hsc2 & Ha2).
    exists s2, t2, fr2, term2. cbn [final_c final_s]. rewrite Hstep, <- Habs. cbn [bind fst].
    auto.
Qed.

Lemma init_sizecond capacity : sizecond bits (init_c capacity capacity).
Proof.
  left. unfold init_c, initialize. cbn [nodes cap]. rewrite repeat_length. lia.
Qed.

Theorem run_refines_w capacity ops :
  okbits bits -> capacity < 2 ^ bits -> (bits <> 8 -> capacity + 1 < 2 ^ bits) ->
  growth_okw bits (spec_init capacity) ops ->
  exists outs, run_c bits (init_c capacity capacity) ops = map Ok outs /\
               map out_abs outs = run_s (spec_init capacity) ops.
Proof.
  intros Hb H1 H2 Hg. destruct (inv_init bits capacity H1 H2) as [Hinv Habs].
  rewrite <- Habs in *.
  exact (run_refines_from ops _ _ _ _ Hinv Hb (init_sizecond capacity) Hg).
Qed.

Theorem run_refines capacity ops :
  okbits bits -> capacity < 2 ^ bits -> (bits <> 8 -> capacity + 1 < 2 ^ bits) ->
  growth_ok bits (spec_init capacity) ops ->
  exists outs, run_c bits (init_c capacity capacity) ops = map Ok outs /\
               map out_abs outs = run_s (spec_init capacity) ops.
Proof.
  intros Hb H1 H2 Hg. apply run_refines_w; auto. apply growth_ok_weak. exact Hg.
Qed.

(* C01: histories on a buffer of fixed size *)
Corollary run_refines_fixed capacity ops :
  okbits bits -> capacity < 2 ^ bits -> (bits <> 8 -> capacity + 1 < 2 ^ bits) ->
  Forall no_ext ops ->
  exists outs, run_c bits (init_c capacity capacity) ops = map Ok outs /\
               map out_abs outs = run_s (spec_init capacity) ops.
Proof.
  intros Hb H1 H2 Hf. apply run_refines; auto. apply growth_ok_no_ext. exact Hf.
Qed.

Theorem final_refines capacity ops :
  okbits bits -> capacity < 2 ^ bits -> (bits <> 8 -> capacity + 1 < 2 ^ bits) ->
  growth_ok bits (spec_init capacity) ops ->
  exists s t fr term,
    final_c bits (init_c capacity capacity) ops = Ok s /\ Inv bits s t fr term /\ sizecond bits s /\
    abs_of s t = final_s (spec_init capacity) ops.
Proof.
  intros Hb H1 H2 Hg. destruct (inv_init bits capacity H1 H2) as [Hinv Habs].
  rewrite <- Habs in *.
  exact (final_refines_from ops _ _ _ _ Hinv Hb (init_sizecond capacity) (growth_ok_weak bits _ _ Hg)).
Qed.

(* 3. reachability *)
Inductive reach (capacity : N) : st -> Prop :=
| reach_init : reach capacity (init_c capacity capacity)
| reach_step s o s' out log :
    reach capacity s ->
    (forall n, o = OExt n -> nrec s + n + 1 < 2 ^ bits) ->
    step_c bits s o = Ok (s', out, log) ->
    reach capacity s'.

Lemma reach_unfold capacity s :
  reach capacity s <->
  s = init_c capacity capacity \/
  exists s0 o out log,
    reach capacity s0 /\ (forall n, o = OExt n -> nrec s0 + n + 1 < 2 ^ bits) /\
    step_c bits s0 o = Ok (s, out, log).
Proof.
  split.
  - intros Hr. destruct Hr as [|s0 o s' out log Hr Hg Hs]; [left; reflexivity|].
    right. exists s0, o, out, log. auto.
  - intros [->|(s0 & o & out & log & Hr & Hg & Hs)]; [apply reach_init|].
    eapply reach_step; eassumption.
Qed.

Theorem reach_inv capacity s :
  okbits bits -> capacity < 2 ^ bits -> (bits <> 8 -> capacity + 1 < 2 ^ bits) ->
  reach capacity s -> exists t fr term, Inv bits s t fr term /\ sizecond bits s.
Proof.
  intros Hb H1 H2 Hr. induction Hr as [|s o s' out log _ IH Hg Hstep].
  - exists E, [], 1. split; [apply inv_init; assumption|apply init_sizecond].
  - destruct IH as (t & fr & term & Hinv & Hsc).
    destruct (step_refines s t fr term o Hinv Hb Hsc)
      as (s2 & out2 & log2 & t' & fr' & term' & Hstep2 & H' & _ & Hsc').
    { intros n Hn. apply sizecond_ext. right. exact (Hg n Hn). }
    rewrite Hstep in Hstep2. injection Hstep2 as <- _ _.
    exists t', fr', term'. auto.
Qed.

(* every step from a reachable state returns normally *)
Theorem reach_total capacity s o :
  okbits bits -> capacity < 2 ^ bits -> (bits <> 8 -> capacity + 1 < 2 ^ bits) ->
  reach capacity s -> (forall n, o = OExt n -> nrec s + n + 1 < 2 ^ bits) ->
  exists s' out log, step_c bits s o = Ok (s', out, log) /\ reach capacity s'.
Proof.
  intros Hb H1 H2 Hr Hg. destruct (reach_inv capacity s Hb H1 H2 Hr) as (t & fr & term & Hinv & Hsc).
  destruct (step_refines s t fr term o Hinv Hb Hsc)
    as (s' & out & log & _ & _ & _ & Hstep & _).
  { intros n Hn. apply sizecond_ext. right. exact (Hg n Hn). }
  exists s', out, log. split; [exact Hstep|]. eapply reach_step; eassumption.
Qed.

(* the final state of an admissible history is reachable *)
Lemma final_reach_from capacity ops : forall s0 t fr term s,
  okbits bits -> reach capacity s0 -> Inv bits s0 t fr term -> sizecond bits s0 ->
  growth_ok bits (abs_of s0 t) ops -> final_c bits s0 ops = Ok s -> reach capacity s.
Proof.
  induction ops as [|o r IH]; intros s0 t fr term s Hb Hr Hinv Hsc Hg Hf.
  - cbn [final_c] in Hf. injection Hf as <-. exact Hr.
  - cbn [final_c] in Hf. cbn [growth_ok] in Hg. destruct Hg as [Hg1 Hg2].
    destruct (step_refines s0 t fr term o Hinv Hb Hsc)
      as (s' & out & log & t' & fr' & term' & Hstep & H' & Habs & Hsc').
    { intros n Hn. apply sizecond_ext. right. exact (Hg1 n Hn). }
    rewrite Hstep in Hf. cbn [bind] in Hf. rewrite <- Habs in Hg2. cbn [fst] in Hg2.
    apply (IH s' t' fr' term' s Hb); [|exact H'|exact Hsc'|exact Hg2|exact Hf].
    eapply reach_step; [exact Hr| |exact Hstep]. exact Hg1.
Qed.

Theorem final_reach capacity ops s :
  okbits bits -> capacity < 2 ^ bits -> (bits <> 8 -> capacity + 1 < 2 ^ bits) ->
  growth_ok bits (spec_init capacity) ops ->
  final_c bits (init_c capacity capacity) ops = Ok s -> reach capacity s.
Proof.
  intros Hb H1 H2 Hg Hf. destruct (inv_init bits capacity H1 H2) as [Hinv Habs].
  rewrite <- Habs in Hg.
  exact (final_reach_from capacity ops _ _ _ _ s Hb (reach_init capacity) Hinv (init_sizecond capacity) Hg Hf).
Qed.

(* the states reachable on a buffer of fixed size: invariant, no growth
   pending, the capacity word is the initial one *)
Theorem final_fixed capacity ops s :
  okbits bits -> capacity < 2 ^ bits -> (bits <> 8 -> capacity + 1 < 2 ^ bits) ->
  Forall no_ext ops -> final_c bits (init_c capacity capacity) ops = Ok s ->
  exists t fr term, Inv bits s t fr term /\ settled s /\ cap s = capacity /\ nrec s = capacity.
Proof.
  intros Hb H1 H2 Hne Hf.
  destruct (final_refines capacity ops Hb H1 H2 (growth_ok_no_ext bits ops _ Hne))
    as (s0 & t & fr & term & Hf0 & Hinv & _ & Habs).
  rewrite Hf in Hf0. injection Hf0 as <-.
  exists t, fr, term. split; [exact Hinv|].
  destruct (final_s_fixed ops (spec_init capacity) Hne) as [Hc Hn]; [cbn [spec_init snrec scap]; lia|].
  rewrite <- Habs in Hc, Hn. cbn [abs_of scap snrec spec_init] in Hc, Hn.
  unfold settled, nrec. repeat split; lia.
Qed.

End WithRemove.

Print Assumptions step_refines.
Print Assumptions run_refines_from.
Print Assumptions final_refines_from.
Print Assumptions run_refines.
Print Assumptions run_refines_fixed.
Print Assumptions final_refines.
Print Assumptions reach_inv.
Print Assumptions reach_total.
Print Assumptions final_reach.
Print Assumptions final_fixed.
Print Assumptions final_inv_noremove.
