(* The removal premise of Avl/Master.v, Avl/Clauses.v, Avl/Capacity.v and
   Avl/Quiet.v discharged: [Master.remove_spec_statement] is the theorem
   [LinkRemove.remove_spec], so every theorem of those four files that was
   stated under the premise [remove_spec_statement bits] holds outright.
   Each [<name>_final] below is [<name>] applied to that proof; the full
   statement is written out again so that it can be read here.

   (Avl/Final.v does the same for the second, convertible copy of the
   statement in Avl/Balance.v; this file does not depend on it.  Note that
   [reach] here is [Master.reach bits capacity s], whereas Avl/Final.v's
   [reach_inv_final] is about [Balance.reach bits s].) *)
From Coq Require Import List NArith ZArith Bool Lia Permutation Sorted.
From Stevia Require Import Base.Res Base.ResMore Base.Bytes Avl.Impl Avl.Tree Avl.Rep Avl.Spec Avl.Format.
From Stevia Require Import Avl.TreeInv Avl.SmapFacts Avl.TreeOps Avl.TreeProps Avl.LinkFind Avl.Alloc Avl.Inv.
From Stevia Require Import Avl.LinkInsert Avl.LinkSteps Avl.SmapMore Avl.Master Avl.Clauses Avl.Capacity Avl.Quiet.
From Stevia Require Avl.LinkRemove.
Import ListNotations.
Open Scope N_scope.

Theorem master_remove_spec_holds : forall bits, Master.remove_spec_statement bits.
Proof.
  intros bits s t fr term key H Hb.
  pose proof (LinkRemove.remove_spec bits s t fr term key H Hb) as R.
  split.
  - intros Hf. rewrite Hf in R. exact R.
  - intros slot v Hf. rewrite Hf in R. exact R.
Qed.

(* the statement, spelled out *)
Theorem master_remove_spec_final : forall bits s t fr term key,
  Inv bits s t fr term -> okbits bits ->
  (t_find t key = None -> remove bits s key = Ok (s, None, t_log t key)) /\
  (forall slot v, t_find t key = Some (slot, v) ->
     exists s' fr' term', remove bits s key = Ok (s', Some v, t_log t key) /\
       Inv bits s' (t_remove t key) fr' term' /\ fr' = slot :: fr /\ cap s' = cap s /\
       length (nodes s') = length (nodes s)).
Proof. exact master_remove_spec_holds. Qed.

Section F.
Variable bits : N.
Local Notation R := (master_remove_spec_holds bits).

(* ------------------------------------------------------------------ *)
(* Avl/Master.v                                                        *)

(* the step theorem, every operation *)
Theorem step_refines_final : forall s t fr term o,
  Inv bits s t fr term -> okbits bits -> sizecond bits s ->
  (forall n, o = OExt n -> sizecond bits (ext_nodes s n)) ->
  exists s' out log t' fr' term',
    step_c bits s o = Ok (s', out, log) /\
    Inv bits s' t' fr' term' /\
    (abs_of s' t', out_abs out) = spec_step (abs_of s t) o /\
    sizecond bits s'.
Proof. exact (step_refines bits R). Qed.

(* histories from every state of the invariant *)
Theorem run_refines_from_final : forall ops s t fr term,
  Inv bits s t fr term -> okbits bits -> sizecond bits s -> growth_okw bits (abs_of s t) ops ->
  exists outs, run_c bits s ops = map Ok outs /\ map out_abs outs = run_s (abs_of s t) ops.
Proof. exact (run_refines_from bits R). Qed.

Theorem final_refines_from_final : forall ops s t fr term,
  Inv bits s t fr term -> okbits bits -> sizecond bits s -> growth_okw bits (abs_of s t) ops ->
  exists s' t' fr' term',
    final_c bits s ops = Ok s' /\ Inv bits s' t' fr' term' /\ sizecond bits s' /\
    abs_of s' t' = final_s (abs_of s t) ops.
Proof. exact (final_refines_from bits R). Qed.

(* histories from the initialised buffer, with growth *)
Theorem run_refines_w_final : forall capacity ops,
  okbits bits -> capacity < 2 ^ bits -> (bits <> 8 -> capacity + 1 < 2 ^ bits) ->
  growth_okw bits (spec_init capacity) ops ->
  exists outs, run_c bits (init_c capacity capacity) ops = map Ok outs /\
               map out_abs outs = run_s (spec_init capacity) ops.
Proof. exact (run_refines_w bits R). Qed.

Theorem run_refines_final : forall capacity ops,
  okbits bits -> capacity < 2 ^ bits -> (bits <> 8 -> capacity + 1 < 2 ^ bits) ->
  growth_ok bits (spec_init capacity) ops ->
  exists outs, run_c bits (init_c capacity capacity) ops = map Ok outs /\
               map out_abs outs = run_s (spec_init capacity) ops.
Proof. exact (run_refines bits R). Qed.

(* C01: histories on a buffer of fixed size *)
Theorem run_refines_fixed_final : forall capacity ops,
  okbits bits -> capacity < 2 ^ bits -> (bits <> 8 -> capacity + 1 < 2 ^ bits) ->
  Forall no_ext ops ->
  exists outs, run_c bits (init_c capacity capacity) ops = map Ok outs /\
               map out_abs outs = run_s (spec_init capacity) ops.
Proof. exact (run_refines_fixed bits R). Qed.

Theorem final_refines_final : forall capacity ops,
  okbits bits -> capacity < 2 ^ bits -> (bits <> 8 -> capacity + 1 < 2 ^ bits) ->
  growth_ok bits (spec_init capacity) ops ->
  exists s t fr term,
    final_c bits (init_c capacity capacity) ops = Ok s /\ Inv bits s t fr term /\ sizecond bits s /\
    abs_of s t = final_s (spec_init capacity) ops.
Proof. exact (final_refines bits R). Qed.

(* reachability ([reach] is [Master.reach]) *)
Theorem reach_inv_final : forall capacity s,
  okbits bits -> capacity < 2 ^ bits -> (bits <> 8 -> capacity + 1 < 2 ^ bits) ->
  reach bits capacity s -> exists t fr term, Inv bits s t fr term /\ sizecond bits s.
Proof. exact (reach_inv bits R). Qed.

Theorem reach_total_final : forall capacity s o,
  okbits bits -> capacity < 2 ^ bits -> (bits <> 8 -> capacity + 1 < 2 ^ bits) ->
  reach bits capacity s -> (forall n, o = OExt n -> nrec s + n + 1 < 2 ^ bits) ->
  exists s' out log, step_c bits s o = Ok (s', out, log) /\ reach bits capacity s'.
Proof. exact (reach_total bits R). Qed.

Theorem final_reach_from_final : forall capacity ops s0 t fr term s,
  okbits bits -> reach bits capacity s0 -> Inv bits s0 t fr term -> sizecond bits s0 ->
  growth_ok bits (abs_of s0 t) ops -> final_c bits s0 ops = Ok s -> reach bits capacity s.
Proof. exact (final_reach_from bits R). Qed.

Theorem final_reach_final : forall capacity ops s,
  okbits bits -> capacity < 2 ^ bits -> (bits <> 8 -> capacity + 1 < 2 ^ bits) ->
  growth_ok bits (spec_init capacity) ops ->
  final_c bits (init_c capacity capacity) ops = Ok s -> reach bits capacity s.
Proof. exact (final_reach bits R). Qed.

Theorem final_fixed_final : forall capacity ops s,
  okbits bits -> capacity < 2 ^ bits -> (bits <> 8 -> capacity + 1 < 2 ^ bits) ->
  Forall no_ext ops -> final_c bits (init_c capacity capacity) ops = Ok s ->
  exists t fr term, Inv bits s t fr term /\ settled s /\ cap s = capacity /\ nrec s = capacity.
Proof. exact (final_fixed bits R). Qed.

(* ------------------------------------------------------------------ *)
(* Avl/Clauses.v                                                       *)

Theorem remove_clause_final : forall s t fr term k,
  Inv bits s t fr term -> okbits bits -> sizecond bits s ->
  exists s' log t' fr' term',
    step_c bits s (ORemove k) = Ok (s', RVal (sm_find (inorder t) k), log) /\
    Inv bits s' t' fr' term' /\ sizecond bits s' /\
    cap s' = N.max (cap s) (nrec s) /\ nrec s' = nrec s /\
    sm_find (inorder t') k = None /\
    (forall k', k' <> k -> sm_find (inorder t') k' = sm_find (inorder t) k') /\
    inorder t' = sm_remove (inorder t) k /\
    (forall v, sm_find (inorder t) k = Some v -> size s' + 1 = size s) /\
    (sm_find (inorder t) k = None -> t' = t /\ size s' = size s /\ (settled s -> s' = s)).
Proof. exact (remove_clause bits R). Qed.

Theorem get_after_remove_final : forall s t fr term k,
  Inv bits s t fr term -> okbits bits -> sizecond bits s ->
  exists s' out log, step_c bits s (ORemove k) = Ok (s', out, log) /\
    exists log', get s' k = Ok (None, log').
Proof. exact (get_after_remove bits R). Qed.

(* ------------------------------------------------------------------ *)
(* Avl/Capacity.v                                                      *)

Theorem released_slot_reused_final : forall s t fr term k slot v,
  Inv bits s t fr term -> okbits bits -> t_find t k = Some (slot, v) ->
  exists s' term',
    remove bits s k = Ok (s', Some v, t_log t k) /\
    Inv bits s' (t_remove t k) (slot :: fr) term' /\
    In slot (idxs t) /\ ~ In slot (idxs (t_remove t k)) /\
    cap s' = cap s /\ size s' + 1 = size s /\ is_full s' = false /\
    forall k2 v2, t_find (t_remove t k) k2 = None ->
      exists s2 term2,
        insert bits s' k2 v2 = Ok (s2, Some slot, t_log (t_remove t k) k2) /\
        Inv bits s2 (t_insert (t_remove t k) slot k2 v2) fr term2.
Proof. exact (released_slot_reused bits R). Qed.

Theorem fill_exact_reachable_final : forall capacity ops s,
  okbits bits -> capacity < 2 ^ bits -> (bits <> 8 -> capacity + 1 < 2 ^ bits) ->
  Forall no_ext ops -> final_c bits (init_c capacity capacity) ops = Ok s ->
  exists t fr term,
    Inv bits s t fr term /\ settled s /\ cap s = capacity /\
    (forall k, get s k = Ok (sm_find (inorder t) k, t_log t k)) /\
    (is_full s = true <-> size s = capacity) /\ size s <= capacity /\
    forall kvs,
      NoDup (map fst kvs) -> (forall k, In k (map fst kvs) -> sm_find (inorder t) k = None) ->
      N.of_nat (length kvs) = capacity - size s ->
      exists s' slots t' fr' term',
        run_c bits s (ins_ops kvs) = map Ok (map (fun i => RSlot (Some i)) slots) /\
        final_c bits s (ins_ops kvs) = Ok s' /\ length slots = length kvs /\
        Inv bits s' t' fr' term' /\ size s' = capacity /\ is_full s' = true /\
        (forall k v, sm_find (inorder t) k = Some v -> sm_find (inorder t') k = Some v) /\
        (forall k v, In (k, v) kvs -> sm_find (inorder t') k = Some v) /\
        NoDup (slots ++ idxs t) /\
        (forall k v, step_c bits s' (OInsert k v) = Ok (s', RSlot None, t_log t' k)).
Proof. exact (fill_exact_reachable bits R). Qed.

(* ------------------------------------------------------------------ *)
(* Avl/Quiet.v                                                         *)

Theorem remove_absent_same_final : forall s t fr term k s' log,
  Inv bits s t fr term -> okbits bits ->
  remove bits s k = Ok (s', None, log) -> s' = s.
Proof. exact (remove_absent_same bits R). Qed.

Theorem remove_absent_iff_final : forall s t fr term k,
  Inv bits s t fr term -> okbits bits ->
  (t_find t k = None <-> remove bits s k = Ok (s, None, t_log t k)).
Proof. exact (remove_absent_iff bits R). Qed.

Theorem quiet_step_same_final : forall s t fr term o s' x log,
  Inv bits s t fr term -> okbits bits -> settled s ->
  step_c bits s o = Ok (s', x, log) -> quiet o x -> s' = s.
Proof. exact (quiet_step_same bits R). Qed.

Theorem quiet_step_bytes_final : forall wb lay s t fr term o s' x log,
  Inv bits s t fr term -> okbits bits -> settled s ->
  step_c bits s o = Ok (s', x, log) -> quiet o x ->
  encode wb lay s' = encode wb lay s.
Proof. exact (quiet_step_bytes bits R). Qed.

Theorem quiet_step_same_reachable_final : forall capacity ops s o s' x log,
  okbits bits -> capacity < 2 ^ bits -> (bits <> 8 -> capacity + 1 < 2 ^ bits) ->
  Forall no_ext ops -> final_c bits (init_c capacity capacity) ops = Ok s ->
  step_c bits s o = Ok (s', x, log) -> quiet o x -> s' = s.
Proof. exact (quiet_step_same_reachable bits R). Qed.

Theorem run_total_from_final : forall s t fr term ops,
  Inv bits s t fr term -> okbits bits -> sizecond bits s -> growth_okw bits (abs_of s t) ops ->
  Forall res_ok (run_c bits s ops) /\ length (run_c bits s ops) = length ops.
Proof. exact (run_total_from bits R). Qed.

Theorem run_total_final : forall capacity ops,
  okbits bits -> capacity < 2 ^ bits -> (bits <> 8 -> capacity + 1 < 2 ^ bits) ->
  growth_ok bits (spec_init capacity) ops ->
  Forall res_ok (run_c bits (init_c capacity capacity) ops) /\
  length (run_c bits (init_c capacity capacity) ops) = length ops.
Proof. exact (run_total bits R). Qed.

Theorem run_total_fixed_final : forall capacity ops,
  okbits bits -> capacity < 2 ^ bits -> (bits <> 8 -> capacity + 1 < 2 ^ bits) ->
  Forall no_ext ops ->
  Forall res_ok (run_c bits (init_c capacity capacity) ops) /\
  length (run_c bits (init_c capacity capacity) ops) = length ops.
Proof. exact (run_total_fixed bits R). Qed.

End F.

(* the two widths (Avl/Quiet.v; premises [remove_spec_statement 8] and
   [remove_spec_statement 32]) *)
Theorem run_total_u8_final : forall capacity ops,
  capacity <= 255 -> Forall no_ext ops ->
  Forall res_ok (run_c 8 (init_c capacity capacity) ops) /\
  length (run_c 8 (init_c capacity capacity) ops) = length ops.
Proof. exact (fun capacity ops => run_total_u8 capacity ops (master_remove_spec_holds 8)). Qed.

Theorem run_total_u32_final : forall capacity ops,
  capacity + 1 < 2 ^ 32 -> Forall no_ext ops ->
  Forall res_ok (run_c 32 (init_c capacity capacity) ops) /\
  length (run_c 32 (init_c capacity capacity) ops) = length ops.
Proof. exact (fun capacity ops => run_total_u32 capacity ops (master_remove_spec_holds 32)). Qed.

Theorem run_total_u8_edges_final : forall ops,
  Forall no_ext ops ->
  Forall (fun c => Forall res_ok (run_c 8 (init_c c c) ops) /\
                   length (run_c 8 (init_c c c) ops) = length ops) [0; 1; 2; 255].
Proof. exact (fun ops => run_total_u8_edges ops (master_remove_spec_holds 8)). Qed.

Print Assumptions master_remove_spec_holds.
Print Assumptions master_remove_spec_final.
Print Assumptions step_refines_final.
Print Assumptions run_refines_from_final.
Print Assumptions final_refines_from_final.
Print Assumptions run_refines_w_final.
Print Assumptions run_refines_final.
Print Assumptions run_refines_fixed_final.
Print Assumptions final_refines_final.
Print Assumptions reach_inv_final.
Print Assumptions reach_total_final.
Print Assumptions final_reach_from_final.
Print Assumptions final_reach_final.
Print Assumptions final_fixed_final.
Print Assumptions remove_clause_final.
Print Assumptions get_after_remove_final.
Print Assumptions released_slot_reused_final.
Print Assumptions fill_exact_reachable_final.
Print Assumptions remove_absent_same_final.
Print Assumptions remove_absent_iff_final.
Print Assumptions quiet_step_same_final.
Print Assumptions quiet_step_bytes_final.
Print Assumptions quiet_step_same_reachable_final.
Print Assumptions run_total_from_final.
Print Assumptions run_total_final.
Print Assumptions run_total_fixed_final.
Print Assumptions run_total_u8_final.
Print Assumptions run_total_u32_final.
Print Assumptions run_total_u8_edges_final.
