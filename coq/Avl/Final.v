(* The removal premise discharged: [Balance.remove_spec_statement] is the
   theorem [LinkRemove.remove_spec], so every theorem of Avl/Balance.v and
   Avl/DocFacts.v that was stated under that premise holds outright; and the
   reader's verdicts ([avl_doc]) hold in every reachable state, the premise
   [hdr_fits] being supplied by the word invariant of Avl/WordsOk.v. *)
From Coq Require Import List NArith ZArith Bool Lia.
From Stevia Require Import Base.Res Base.Bytes Avl.Impl Avl.Tree Avl.Rep Avl.Spec Avl.TreeInv.
From Stevia Require Import Avl.TreeHeight Avl.Alloc Avl.Inv Avl.LinkInsert Avl.LinkSteps Avl.LinkRemove.
From Stevia Require Import Avl.Format Avl.FormatFacts Avl.Balance Avl.DocFacts Avl.WordsOk.
Import ListNotations.
Open Scope N_scope.

Theorem remove_spec_holds : forall bits, Balance.remove_spec_statement bits.
Proof.
  intros bits s t fr term key H Hb.
  pose proof (remove_spec bits s t fr term key H Hb) as R.
  split.
  - intros Hf. rewrite Hf in R. exact R.
  - intros slot v Hf. rewrite Hf in R. exact R.
Qed.

Section W.
Variable bits : N.

Theorem cost_remove_final s t fr term key :
  Inv bits s t fr term -> okbits bits ->
  exists s' r, remove bits s key = Ok (s', r, t_log t key) /\ bounded_cost bits s t (t_log t key).
Proof. exact (cost_remove bits (remove_spec_holds bits) s t fr term key). Qed.

Theorem step_inv_final s t fr term o :
  Inv bits s t fr term -> okbits bits -> sizecond bits s ->
  (forall n, o = OExt n -> sizecond bits (ext_nodes s n)) ->
  exists s' out log t' fr' term',
    step_c bits s o = Ok (s', out, log) /\ Inv bits s' t' fr' term' /\ sizecond bits s'.
Proof. exact (step_inv bits (remove_spec_holds bits) s t fr term o). Qed.

Theorem reach_inv_final s :
  okbits bits -> reach bits s -> exists t fr term, Inv bits s t fr term /\ sizecond bits s.
Proof. exact (reach_inv bits (remove_spec_holds bits) s). Qed.

Theorem reach_balanced_final s : okbits bits -> reach bits s ->
  exists t fr term, Inv bits s t fr term /\
    avl t /\ hok t /\ (forall u, subtree u t -> node_balanced u) /\
    minnodes (N.to_nat (levels t)) <= size s /\ levels t <= lvbound bits.
Proof. exact (reach_balanced bits (remove_spec_holds bits) s). Qed.

Theorem remove_never_moves_final s t fr term key :
  Inv bits s t fr term -> okbits bits ->
  exists s' r t' fr' term',
    remove bits s key = Ok (s', r, t_log t key) /\ Inv bits s' t' fr' term' /\
    r = option_map snd (t_find t key) /\
    (forall slot v, t_find t key = Some (slot, v) -> fr' = slot :: fr /\ t' = t_remove t key) /\
    (t_find t key = None -> s' = s /\ t' = t) /\
    (forall slot k v, In (slot, k, v) (triples t) -> k <> key ->
       In (slot, k, v) (triples t') /\
       exists n, getn (nodes s') slot = Ok n /\ nk n = k /\ nv n = v).
Proof. exact (remove_never_moves bits (remove_spec_holds bits) s t fr term key). Qed.

(* [reach] spelled out *)
Lemma reach_unfold s :
  reach bits s <->
  (exists capacity, capacity < 2 ^ bits /\ (bits <> 8 -> capacity + 1 < 2 ^ bits) /\
     s = init_c capacity capacity) \/
  (exists s0 o out log, reach bits s0 /\ step_c bits s0 o = Ok (s, out, log) /\
     (forall n, o = OExt n -> sizecond bits s)).
Proof.
  split.
  - intros H. destruct H as [capacity H1 H2|s0 o s' out log Hr Hs Hext].
    + left. exists capacity. auto.
    + right. exists s0, o, out, log. auto.
  - intros [(capacity & H1 & H2 & ->)|(s0 & o & out & log & Hr & Hs & Hext)].
    + apply reach_init; assumption.
    + apply (reach_step bits s0 o s out log Hr Hs Hext).
Qed.

(* every reachable state satisfies the master invariant, the growth side
   condition, the word invariant, and hence [hdr_fits] *)
Theorem reach_inv_words s :
  okbits bits -> reach bits s ->
  words_ok bits s /\
  exists t fr term, Inv bits s t fr term /\ sizecond bits s /\ seq s < 2 ^ bits /\ term < 2 ^ bits.
Proof.
  intros Hb Hr. pose proof (reach_words_ok bits s Hb Hr) as Hwo. split; [exact Hwo|].
  destruct (reach_inv_final s Hb Hr) as (t & fr & term & Hi & Hsc).
  exists t, fr, term. split; [exact Hi|]. split; [exact Hsc|].
  apply (inv_words_term bits s t fr term Hi Hwo).
Qed.

End W.

(* the independent reader's verdicts in every reachable state *)
Section DocReach.
Variable wbytes : nat.
Variable lay : layout.
Hypothesis Hw : wbytes = 1%nat \/ wbytes = 4%nat.
Hypothesis Hk : 0 < ksz lay.
Hypothesis Hv : 0 < vsz lay.
Local Notation bits := (bits_of wbytes).

Theorem avl_doc_reachable s :
  reach bits s ->
  (exists t fr term, Inv bits s t fr term /\ hdr_fits wbytes s term) /\
  (forall t fr term, Inv bits s t fr term -> kv_fits lay t ->
     hdr_fits wbytes s term /\ st_ok wbytes lay s /\
     decode wbytes lay (encode wbytes lay s) = Some s /\
     avl_doc_concl wbytes lay s t fr).
Proof.
  intros Hr. pose proof (okbits_w wbytes Hw) as Hb.
  pose proof (reach_words_ok bits s Hb Hr) as Hwo. split.
  - destruct (reach_inv_final bits s Hb Hr) as (t & fr & term & Hi & _).
    exists t, fr, term. split; [exact Hi|]. apply (hdr_fits_words wbytes s t fr term Hi Hwo).
  - intros t fr term Hi Hkv.
    split; [apply (hdr_fits_words wbytes s t fr term Hi Hwo)|].
    split; [apply (inv_st_ok_w wbytes lay Hw Hk Hv s t fr term Hi Hkv Hwo)|].
    split; [apply (inv_decode_encode_w wbytes lay Hw Hk Hv s t fr term Hi Hkv Hwo)|].
    apply (avl_doc_w wbytes lay Hw Hk Hv s t fr term Hi Hkv Hwo).
Qed.

End DocReach.

Print Assumptions remove_spec_holds.
Print Assumptions cost_remove_final.
Print Assumptions step_inv_final.
Print Assumptions reach_inv_final.
Print Assumptions reach_balanced_final.
Print Assumptions remove_never_moves_final.
Print Assumptions reach_unfold.
Print Assumptions reach_inv_words.
Print Assumptions avl_doc_reachable.
