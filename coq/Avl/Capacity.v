(* C07 and C08 for the trees: exactly [cap - size] further entries fit from
   every invariant state; slots are never handed out twice and a released
   slot is the next one handed out; growing the buffer keeps the contents
   and adds exactly the new slots. *)
From Coq Require Import List NArith ZArith Bool Lia ZifyBool Permutation Sorted.
From Stevia Require Import Base.Res Base.ResMore Avl.Impl Avl.Tree Avl.Rep Avl.Spec.
From Stevia Require Import Avl.TreeInv Avl.SmapFacts Avl.TreeOps Avl.TreeProps Avl.LinkFind Avl.Alloc Avl.Inv.
From Stevia Require Import Avl.LinkInsert Avl.LinkSteps Avl.SmapMore Avl.Master Avl.Clauses.
Import ListNotations.
Open Scope N_scope.

Arguments N.add : simpl never.
Arguments N.sub : simpl never.
Arguments N.mul : simpl never.
Arguments N.pow : simpl never.
Arguments N.modulo : simpl never.
Arguments N.eqb : simpl never.
Arguments N.ltb : simpl never.
Arguments N.leb : simpl never.
Arguments N.max : simpl never.
Arguments Z.add : simpl never.
Arguments Z.sub : simpl never.
Arguments Z.ltb : simpl never.
Arguments Z.gtb : simpl never.
Arguments Z.eqb : simpl never.
Arguments N.of_nat : simpl never.

(* the history that inserts a list of entries *)
Definition ins_op (kv : Z * Z) : op := OInsert (fst kv) (snd kv).
Definition ins_ops (kvs : list (Z * Z)) : list op := map ins_op kvs.

(* the queries and the read-only re-open *)
Definition ro_op (o : op) : Prop :=
  match o with
  | OGet _ | OContains _ | OLowest | OLen | OIsEmpty | OIsFull | OCapacity | OOpenRo => True
  | _ => False
  end.

Definition nsum (ks : list N) : N := fold_right N.add 0 ks.

(* extend, re-open mutably; again and again *)
Fixpoint grow_ops (ks : list N) : list op :=
  match ks with [] => [] | k :: r => OExt k :: OOpenMut :: grow_ops r end.

Section Capacity.
Variable bits : N.

(* insert the entries one after the other, directly (no re-open) *)
Fixpoint insert_all (s : st) (kvs : list (Z * Z)) : res (st * list (option N)) :=
  match kvs with
  | [] => Ok (s, [])
  | kv :: r =>
    '(s1, slot, _) <- insert bits s (fst kv) (snd kv) ;;
    '(s2, slots) <- insert_all s1 r ;;
    Ok (s2, slot :: slots)
  end.

Lemma insert_all_fold s kvs :
  insert_all s kvs =
  '(s', rslots) <-
    fold_left (fun acc kv => '(st, rslots) <- acc ;;
                             '(st', slot, _) <- insert bits st (fst kv) (snd kv) ;;
                             Ok (st', slot :: rslots))
              kvs (Ok (s, [])) ;;
  Ok (s', rev rslots).
Proof.
  assert (G : forall kvs s acc,
    ('(s', rslots) <-
      fold_left (fun acc kv => '(st, rslots) <- acc ;;
                               '(st', slot, _) <- insert bits st (fst kv) (snd kv) ;;
                               Ok (st', slot :: rslots))
                kvs (Ok (s, acc)) ;;
     Ok (s', rev rslots)) =
    ('(s', slots) <- insert_all s kvs ;; Ok (s', rev acc ++ slots))).
  { clear s kvs. induction kvs as [|kv r IH]; intros s acc; cbn [fold_left insert_all bind].
    - rewrite app_nil_r. reflexivity.
    - destruct (insert bits s (fst kv) (snd kv)) as [[[s1 slot] lg]| |] eqn:Ei; cbn [bind].
      + rewrite IH. cbn [rev]. destruct (insert_all s1 r) as [[s2 slots]| |]; cbn [bind]; [|reflexivity..].
        rewrite <- app_assoc. reflexivity.
      + clear IH Ei. induction r as [|kv' r IHr]; cbn [fold_left bind]; [reflexivity|exact IHr].
      + clear IH Ei. induction r as [|kv' r IHr]; cbn [fold_left bind]; [reflexivity|exact IHr]. }
  rewrite G. cbn [rev app]. destruct (insert_all s kvs) as [[s2 slots]| |]; reflexivity.
Qed.

Theorem is_full_iff s t fr term :
  Inv bits s t fr term -> (is_full s = true <-> size s = cap s) /\ size s <= cap s.
Proof.
  intros H. pose proof (inv_alloc _ _ _ _ _ H) as Ha.
  split; [exact (alloc_full_iff bits _ _ _ _ Ha)|exact (alloc_size_le_cap bits _ _ _ _ Ha)].
Qed.

(* what is available: the free list and the never-used slots *)
Theorem available s t fr term :
  Inv bits s t fr term -> cap s - size s = N.of_nat (length fr) + (cap s + 1 - lseq bits s).
Proof. intros H. exact (alloc_available bits _ _ _ _ (inv_alloc _ _ _ _ _ H)). Qed.

Lemma settled_keep s s' : cap s' = cap s -> length (nodes s') = length (nodes s) -> settled s -> settled s'.
Proof. unfold settled, nrec. intros -> ->. auto. Qed.

Lemma step_insert_settled s k v :
  settled s ->
  step_c bits s (OInsert k v) = ('(s2, r, log) <- insert bits s k v ;; Ok (s2, RSlot r, log)).
Proof. intros Hst. cbn [step_c]. rewrite (open_mut_same bits s Hst). reflexivity. Qed.

(* any number of distinct absent keys up to [cap - size] go in *)
Lemma insert_all_spec kvs : forall s t fr term,
  Inv bits s t fr term -> okbits bits ->
  NoDup (map fst kvs) -> (forall k, In k (map fst kvs) -> sm_find (inorder t) k = None) ->
  N.of_nat (length kvs) <= cap s - size s ->
  exists s' slots t' fr' term',
    insert_all s kvs = Ok (s', map Some slots) /\ length slots = length kvs /\
    Inv bits s' t' fr' term' /\ cap s' = cap s /\ length (nodes s') = length (nodes s) /\
    size s' = size s + N.of_nat (length kvs) /\
    (forall k, sm_find (inorder t') k =
               match sm_find (inorder t) k with Some v => Some v | None => sm_find kvs k end) /\
    Permutation (idxs t') (slots ++ idxs t) /\
    (settled s ->
     run_c bits s (ins_ops kvs) = map Ok (map (fun i => RSlot (Some i)) slots) /\
     final_c bits s (ins_ops kvs) = Ok s').
Proof.
  induction kvs as [|[k v] r IH]; intros s t fr term H Hb Hnd Habs Hlen.
  - exists s, [], t, fr, term. cbn [insert_all map length app ins_ops run_c final_c sm_find].
    split; [reflexivity|]. split; [reflexivity|]. split; [exact H|].
    split; [reflexivity|]. split; [reflexivity|]. split; [lia|].
    split; [intros k; destruct (sm_find (inorder t) k); reflexivity|].
    split; [reflexivity|]. intros _. split; reflexivity.
  - cbn [map fst length] in Hnd, Habs, Hlen. inversion Hnd as [|? ? Hk Hnd']; subst.
    pose proof (inv_bst _ _ _ _ _ H) as Hbst.
    assert (Hsm : sm_find (inorder t) k = None) by (apply Habs; left; reflexivity).
    assert (Hf : t_find t k = None) by (apply (t_find_none_sm t k Hbst); exact Hsm).
    destruct (insert_spec bits s t fr term k v H Hb) as (_ & _ & Hins).
    assert (Hnf : is_full s = false) by (unfold is_full; lia).
    destruct (Hins Hf Hnf) as (s1 & new & fr1 & term1 & Hi & H1 & Hnew & Hcap1 & Hlen1 & _).
    pose proof (t_insert_inorder t new k v Hbst) as Hio.
    destruct (t_insert_correct t new k v (inv_hok _ _ _ _ _ H) (inv_avl _ _ _ _ _ H) Hbst
                (proj1 (t_find_none_iff t k Hbst) Hf)) as (_ & _ & _ & _ & _ & _ & Hperm & _).
    pose proof (inv_size _ _ _ _ _ H) as Hsz. pose proof (inv_size _ _ _ _ _ H1) as Hsz1.
    assert (Hsize1 : size s1 = size s + 1).
    { rewrite Hsz1, Hio, sm_insert_length_find by exact Hsm. lia. }
    destruct (IH s1 (t_insert t new k v) fr1 term1 H1 Hb Hnd')
      as (s' & slots & t' & fr' & term' & Hall & Hls & H' & Hcap' & Hlen' & Hsize' & Hfind' & Hperm' & Hrun').
    { intros k' Hk'. rewrite Hio, sm_find_insert_other; [apply Habs; right; exact Hk'|].
      intros ->. exact (Hk Hk'). }
    { lia. }
    exists s', (new :: slots), t', fr', term'.
    cbn [insert_all fst snd]. rewrite Hi. cbn [bind]. rewrite Hall. cbn [bind map length].
    split; [reflexivity|]. split; [rewrite Hls; reflexivity|]. split; [exact H'|].
    split; [lia|]. split; [lia|]. split; [lia|]. split; [|split].
    + intros k'. rewrite Hfind', Hio. cbn [sm_find].
      destruct (Z.eqb_spec k' k) as [->|Hne].
      * rewrite sm_find_insert_same, Hsm by exact Hsm. reflexivity.
      * rewrite sm_find_insert_other by exact Hne. reflexivity.
    + rewrite Hperm'. cbn [app]. rewrite Hperm. symmetry. apply Permutation_middle.
    + intros Hst. cbn [ins_ops map run_c final_c]. change (ins_op (k, v)) with (OInsert k v).
      rewrite (step_insert_settled s k v Hst), Hi. cbn [bind].
      destruct (Hrun' (settled_keep s s1 Hcap1 Hlen1 Hst)) as [Hr1 Hr2].
      fold (ins_ops r). rewrite Hr1, Hr2. split; reflexivity.
Qed.

(* a full tree refuses every insertion and hands back the same state *)
Lemma full_refuses s t fr term k v :
  Inv bits s t fr term -> okbits bits -> is_full s = true ->
  insert bits s k v = Ok (s, None, t_log t k).
Proof.
  intros H Hb Hfull. destruct (insert_spec bits s t fr term k v H Hb) as (Hp & Hfc & _).
  destruct (t_find t k) as [x|] eqn:Ef; [apply Hp; discriminate|apply Hfc; auto].
Qed.

(* 5. exactly [cap - size] further entries fit *)
Theorem fill_exact s t fr term kvs :
  Inv bits s t fr term -> okbits bits ->
  NoDup (map fst kvs) -> (forall k, In k (map fst kvs) -> sm_find (inorder t) k = None) ->
  N.of_nat (length kvs) = cap s - size s ->
  exists s' slots t' fr' term',
    insert_all s kvs = Ok (s', map Some slots) /\ length slots = length kvs /\
    Inv bits s' t' fr' term' /\ cap s' = cap s /\ size s' = cap s /\ is_full s' = true /\
    (* every earlier entry is still there with its value, every new one too *)
    (forall k v, sm_find (inorder t) k = Some v -> sm_find (inorder t') k = Some v) /\
    (forall k v, In (k, v) kvs -> sm_find (inorder t') k = Some v) /\
    (* the slots handed out are distinct and none of them was live *)
    NoDup (slots ++ idxs t) /\ Permutation (idxs t') (slots ++ idxs t) /\
    (* the next one is refused, the state is left as it is *)
    (forall k v, insert bits s' k v = Ok (s', None, t_log t' k)) /\
    (* the same as a history of the harness *)
    (settled s ->
     run_c bits s (ins_ops kvs) = map Ok (map (fun i => RSlot (Some i)) slots) /\
     final_c bits s (ins_ops kvs) = Ok s' /\
     forall k v, step_c bits s' (OInsert k v) = Ok (s', RSlot None, t_log t' k)).
Proof.
  intros H Hb Hnd Habs Hlen.
  destruct (is_full_iff s t fr term H) as [_ Hle].
  destruct (insert_all_spec kvs s t fr term H Hb Hnd Habs)
    as (s' & slots & t' & fr' & term' & Hall & Hls & H' & Hcap' & Hlen' & Hsize' & Hfind' & Hperm' & Hrun');
    [lia|].
  assert (Hfull : is_full s' = true) by (unfold is_full; lia).
  exists s', slots, t', fr', term'.
  split; [exact Hall|]. split; [exact Hls|]. split; [exact H'|]. split; [exact Hcap'|].
  split; [lia|]. split; [exact Hfull|]. split; [|split; [|split; [|split; [|split]]]].
  - intros k v Hk. rewrite Hfind', Hk. reflexivity.
  - intros k v Hin. rewrite Hfind', (Habs k).
    + clear - Hnd Hin. induction kvs as [|[k1 v1] r IH]; [destruct Hin|].
      cbn [map fst] in Hnd. inversion Hnd as [|? ? Hk1 Hnd']; subst. cbn [sm_find].
      destruct Hin as [[= -> ->]|Hin]; [rewrite Z.eqb_refl; reflexivity|].
      destruct (Z.eqb_spec k k1) as [->|_]; [|auto].
      exfalso. apply Hk1. apply in_map_iff. exists (k1, v). auto.
    + apply in_map_iff. exists (k, v). auto.
  - eapply Permutation_NoDup; [exact Hperm'|]. exact (inv_nodup _ _ _ _ _ H').
  - exact Hperm'.
  - intros k v. exact (full_refuses s' t' fr' term' k v H' Hb Hfull).
  - intros Hst. destruct (Hrun' Hst) as [Hr1 Hr2]. split; [exact Hr1|]. split; [exact Hr2|].
    intros k v. rewrite (step_insert_settled s' k v (settled_keep s s' Hcap' Hlen' Hst)).
    rewrite (full_refuses s' t' fr' term' k v H' Hb Hfull). reflexivity.
Qed.

(* no storage is handed out twice: the slot of a successful insertion is not
   the slot of any live entry; it is the head of the free list, or the
   cursor when the free list is empty *)
Theorem insert_fresh_slot s t fr term k v s' new log :
  Inv bits s t fr term -> okbits bits ->
  insert bits s k v = Ok (s', Some new, log) ->
  ~ In new (idxs t) /\
  (forall k0 slot v0, t_find t k0 = Some (slot, v0) -> slot <> new) /\
  ((exists fr', fr = new :: fr') \/ (fr = [] /\ new = lseq bits s)).
Proof.
  intros H Hb Hi. destruct (insert_spec bits s t fr term k v H Hb) as (Hp & Hfc & Hins).
  destruct (t_find t k) as [x|] eqn:Ef; [rewrite Hp in Hi by discriminate; discriminate|].
  destruct (is_full s) eqn:Efull; [rewrite Hfc in Hi by reflexivity; discriminate|].
  destruct (Hins eq_refl eq_refl) as (s1 & new1 & fr1 & term1 & Hi1 & _ & Hnew & _ & _ & Hcase).
  rewrite Hi1 in Hi. injection Hi as <- <- _.
  split; [exact Hnew|]. split.
  - intros k0 slot v0 Hk0 ->. apply Hnew. exact (t_find_in t k0 _ v0 Hk0).
  - destruct Hcase as [Hc|Hc]; [left; exists fr1; exact Hc|right; exact Hc].
Qed.

(* ------------------------------------------------------------------ *)
(* 6. growth (C08)                                                     *)

Lemma nrec_ext s k : nrec (ext_nodes s k) = nrec s + k.
Proof.
  unfold nrec, ext_nodes. cbn [with_nodes nodes]. rewrite app_length, repeat_length. lia.
Qed.

(* extend by k records, re-open mutably *)
Theorem grow_spec s t fr term k :
  Inv bits s t fr term -> sizecond bits (ext_nodes s k) ->
  exists s' fr',
    open_mut bits (ext_nodes s k) = Ok s' /\
    final_c bits s [OExt k; OOpenMut] = Ok s' /\
    run_c bits s [OExt k; OOpenMut] = [Ok RUnit; Ok RUnit] /\
    (* same contents *)
    Inv bits s' t fr' term /\ size s' = size s /\
    (* the capacity is the new number of records *)
    nrec s' = nrec s + k /\ cap s' = N.max (cap s) (nrec s + k) /\ settled s' /\
    (* no growth was pending: exactly k more slots *)
    (settled s -> cap s' = cap s + k /\ cap s' - size s' = cap s - size s + k).
Proof.
  intros H Hsc. pose proof (ext_inv bits s t fr term k H) as He.
  destruct (open_mut_inv_spec bits _ _ _ _ He Hsc) as (s' & fr' & Hom & H' & Hcap1 & Hcap2 & Hlen & _).
  pose proof (nrec_ext s k) as Hn.
  pose proof (inv_size _ _ _ _ _ H) as Hsz. pose proof (inv_size _ _ _ _ _ H') as Hsz'.
  pose proof (ai_caplen _ _ _ _ _ (inv_alloc _ _ _ _ _ H)) as Hcl.
  pose proof (alloc_size_le_cap bits _ _ _ _ (inv_alloc _ _ _ _ _ H)) as Hle.
  assert (Hn' : nrec s' = nrec s + k) by (unfold nrec in *; rewrite Hlen; exact Hn).
  assert (Hc' : cap s' = nrec s + k) by (unfold nrec in *; lia).
  exists s', fr'. split; [exact Hom|].
  split; [cbn [final_c step_c bind]; rewrite Hom; reflexivity|].
  split; [cbn [run_c step_c bind]; rewrite Hom; reflexivity|].
  split; [exact H'|]. split; [lia|]. split; [exact Hn'|].
  split; [unfold nrec in *; lia|]. split; [unfold settled; lia|].
  unfold settled, nrec in *. intros Hst. lia.
Qed.

(* ... and by C07 exactly that many more entries fit *)
Theorem grow_then_fill s t fr term k kvs :
  Inv bits s t fr term -> okbits bits -> settled s -> sizecond bits (ext_nodes s k) ->
  NoDup (map fst kvs) -> (forall x, In x (map fst kvs) -> sm_find (inorder t) x = None) ->
  N.of_nat (length kvs) = cap s - size s + k ->
  exists s1 fr1,
    final_c bits s [OExt k; OOpenMut] = Ok s1 /\ Inv bits s1 t fr1 term /\
    cap s1 = cap s + k /\ settled s1 /\
    exists s' slots t' fr' term',
      run_c bits s1 (ins_ops kvs) = map Ok (map (fun i => RSlot (Some i)) slots) /\
      final_c bits s1 (ins_ops kvs) = Ok s' /\ length slots = length kvs /\
      Inv bits s' t' fr' term' /\ cap s' = cap s + k /\ size s' = cap s + k /\ is_full s' = true /\
      (forall x v, sm_find (inorder t) x = Some v -> sm_find (inorder t') x = Some v) /\
      (forall x v, In (x, v) kvs -> sm_find (inorder t') x = Some v) /\
      (forall x v, step_c bits s' (OInsert x v) = Ok (s', RSlot None, t_log t' x)).
Proof.
  intros H Hb Hst Hsc Hnd Habs Hlen.
  destruct (grow_spec s t fr term k H Hsc)
    as (s1 & fr1 & _ & Hf1 & _ & H1 & Hsize1 & _ & _ & Hst1 & Hk).
  destruct (Hk Hst) as [Hcap1 Hav1].
  exists s1, fr1. split; [exact Hf1|]. split; [exact H1|]. split; [exact Hcap1|]. split; [exact Hst1|].
  destruct (fill_exact s1 t fr1 term kvs H1 Hb Hnd Habs)
    as (s' & slots & t' & fr' & term' & _ & Hls & H' & Hcap' & Hsize' & Hfull' & Hold & Hnew & _ & _ & _ & Hrun);
    [lia|].
  destruct (Hrun Hst1) as (Hr1 & Hr2 & Hr3).
  exists s', slots, t', fr', term'.
  split; [exact Hr1|]. split; [exact Hr2|]. split; [exact Hls|]. split; [exact H'|].
  split; [lia|]. split; [lia|]. split; [exact Hfull'|]. auto.
Qed.

(* repeated growth *)
Theorem grow_repeated ks : forall s t fr term,
  Inv bits s t fr term -> settled s -> nrec s + nsum ks + 1 < 2 ^ bits ->
  exists s' fr',
    final_c bits s (grow_ops ks) = Ok s' /\ Inv bits s' t fr' term /\
    cap s' = cap s + nsum ks /\ nrec s' = nrec s + nsum ks /\ size s' = size s /\ settled s' /\
    cap s' - size s' = cap s - size s + nsum ks.
Proof.
  induction ks as [|k r IH]; intros s t fr term H Hst Hw; cbn [grow_ops nsum fold_right] in *.
  - exists s, fr. cbn [final_c]. split; [reflexivity|]. split; [exact H|].
    split; [lia|]. split; [lia|]. split; [reflexivity|]. split; [exact Hst|]. lia.
  - fold (nsum r) in *.
    destruct (grow_spec s t fr term k H) as (s1 & fr1 & Hom & _ & _ & H1 & Hsize1 & Hn1 & _ & Hst1 & Hk).
    { apply sizecond_ext. right. lia. }
    destruct (Hk Hst) as [Hcap1 Hav1].
    destruct (IH s1 t fr1 term H1 Hst1) as (s' & fr' & Hf & H' & Hcap' & Hn' & Hsize' & Hst' & Hav');
      [lia|].
    exists s', fr'. cbn [final_c step_c bind]. rewrite Hom. cbn [bind].
    split; [exact Hf|]. split; [exact H'|].
    pose proof (alloc_size_le_cap bits _ _ _ _ (inv_alloc _ _ _ _ _ H)) as Hle.
    split; [lia|]. split; [lia|]. split; [lia|]. split; [exact Hst'|]. lia.
Qed.

(* the read-only view of the extended buffer: old capacity, same contents *)
Theorem ext_readonly s t fr term k :
  Inv bits s t fr term ->
  (forall key, get (ext_nodes s k) key = Ok (sm_find (inorder t) key, t_log t key) /\
               get s key = Ok (sm_find (inorder t) key, t_log t key)) /\
  (forall key, contains (ext_nodes s k) key = contains s key) /\
  lowest (ext_nodes s k) = lowest s /\
  len (ext_nodes s k) = len s /\ capacity (ext_nodes s k) = capacity s /\
  is_empty (ext_nodes s k) = is_empty s /\ is_full (ext_nodes s k) = is_full s.
Proof.
  intros H. pose proof (ext_inv bits s t fr term k H) as He.
  split; [|split; [|split]].
  - intros key. rewrite (get_inv_spec bits _ _ _ _ key He), (get_inv_spec bits _ _ _ _ key H). auto.
  - intros key. rewrite (contains_inv_spec bits _ _ _ _ key He), (contains_inv_spec bits _ _ _ _ key H). reflexivity.
  - rewrite (lowest_inv_spec bits _ _ _ _ He), (lowest_inv_spec bits _ _ _ _ H). reflexivity.
  - repeat split; reflexivity.
Qed.

(* the same for every query of the operation language *)
Theorem ext_readonly_step s t fr term k o :
  Inv bits s t fr term -> ro_op o ->
  exists out log, step_c bits s o = Ok (s, out, log) /\
                  step_c bits (ext_nodes s k) o = Ok (ext_nodes s k, out, log).
Proof.
  intros H Hro. destruct (ext_readonly s t fr term k H) as (Hg & Hc & Hl & _).
  destruct o as [x v|x|x|x v|x|x| | | | | |n| | ]; cbn [ro_op] in Hro; try contradiction; cbn [step_c].
  - destruct (Hg x) as [-> ->]. cbn [bind]. eauto.
  - rewrite Hc, (contains_inv_spec bits _ _ _ _ x H). cbn [bind]. eauto.
  - rewrite Hl, (lowest_inv_spec bits _ _ _ _ H). cbn [bind]. eauto.
  - eauto.
  - eauto.
  - eauto.
  - eauto.
  - eauto.
Qed.

End Capacity.

(* ------------------------------------------------------------------ *)
Section WithRemove.
Variable bits : N.
Hypothesis Hremove : remove_spec_statement bits.

(* storage released by a removal is reusable: the slot of the removed entry
   is no longer live, it is the head of the free list, and the next
   successful insertion is handed exactly that slot *)
Theorem released_slot_reused s t fr term k slot v :
  Inv bits s t fr term -> okbits bits -> t_find t k = Some (slot, v) ->
  exists s' term',
    remove bits s k = Ok (s', Some v, t_log t k) /\
    Inv bits s' (t_remove t k) (slot :: fr) term' /\
    In slot (idxs t) /\ ~ In slot (idxs (t_remove t k)) /\
    cap s' = cap s /\ size s' + 1 = size s /\ is_full s' = false /\
    forall k2 v2, t_find (t_remove t k) k2 = None ->
      exists s2 term2,
        insert bits s' k2 v2 = Ok (s2, Some slot, t_log (t_remove t k) k2) /\
        Inv bits s2 (t_insert (t_remove t k) slot k2 v2) fr term2.
Proof.
  intros H Hb Hf. destruct (Hremove s t fr term k H Hb) as [_ Hp].
  destruct (Hp slot v Hf) as (s' & fr' & term' & Hrm & H' & -> & Hcap' & Hlen').
  pose proof (inv_bst _ _ _ _ _ H) as Hbst.
  destruct (t_remove_correct t k slot v (inv_hok _ _ _ _ _ H) (inv_avl _ _ _ _ _ H) Hbst Hf)
    as (_ & _ & _ & _ & _ & Hio & Hperm & _).
  pose proof (inv_size _ _ _ _ _ H) as Hsz. pose proof (inv_size _ _ _ _ _ H') as Hsz'.
  pose proof (alloc_size_le_cap bits _ _ _ _ (inv_alloc _ _ _ _ _ H)) as Hle.
  assert (Hlenio : S (length (inorder (t_remove t k))) = length (inorder t)).
  { rewrite Hio. apply (sm_remove_length _ _ v).
    pose proof (t_find_inorder t k Hbst) as Hfi. rewrite Hf in Hfi. symmetry. exact Hfi. }
  assert (Hnf : is_full s' = false) by (unfold is_full; lia).
  exists s', term'. split; [exact Hrm|]. split; [exact H'|].
  split; [exact (t_find_in t k slot v Hf)|]. split.
  { pose proof (inv_nodup _ _ _ _ _ H) as Hnd.
    apply (Permutation_NoDup Hperm) in Hnd. inversion Hnd; assumption. }
  split; [exact Hcap'|]. split; [lia|]. split; [exact Hnf|].
  intros k2 v2 Hk2.
  destruct (insert_spec bits s' (t_remove t k) (slot :: fr) term' k2 v2 H' Hb) as (_ & _ & Hins).
  destruct (Hins Hk2 Hnf) as (s2 & new & fr2 & term2 & Hi & H2 & _ & _ & _ & Hcase).
  destruct Hcase as [Hc|[Hc _]]; [|discriminate]. injection Hc as <- <-.
  exists s2, term2. split; [exact Hi|exact H2].
Qed.

(* 5, in every state reachable on a buffer of fixed size by any history of
   insertions, removals, updates and queries *)
Theorem fill_exact_reachable capacity ops s :
  okbits bits -> capacity < 2 ^ bits -> (bits <> 8 -> capacity + 1 < 2 ^ bits) ->
  Forall no_ext ops -> final_c bits (init_c capacity capacity) ops = Ok s ->
  exists t fr term,
    Inv bits s t fr term /\ settled s /\ cap s = capacity /\
    (forall k, get s k = Ok (sm_find (inorder t) k, t_log t k)) /\
    (is_full s = true <-> size s = capacity) /\ size s <= capacity /\
    forall kvs,
      NoDup (map fst kvs) -> (forall k, In k (map fst kvs) -> sm_find (inorder t) k = None) ->
      N.of_nat (length kvs) = capacity - size s ->
      exists s' slots t' fr' term',
        run_c bits s (ins_ops kvs) = map Ok (map (fun i => RSlot (Some i)) slots) /\
        final_c bits s (ins_ops kvs) = Ok s' /\ length slots = length kvs /\
        Inv bits s' t' fr' term' /\ size s' = capacity /\ is_full s' = true /\
        (forall k v, sm_find (inorder t) k = Some v -> sm_find (inorder t') k = Some v) /\
        (forall k v, In (k, v) kvs -> sm_find (inorder t') k = Some v) /\
        NoDup (slots ++ idxs t) /\
        (forall k v, step_c bits s' (OInsert k v) = Ok (s', RSlot None, t_log t' k)).
Proof.
  intros Hb H1 H2 Hne Hf.
  destruct (final_fixed bits Hremove capacity ops s Hb H1 H2 Hne Hf) as (t & fr & term & H & Hst & Hcap & _).
  exists t, fr, term. split; [exact H|]. split; [exact Hst|]. split; [exact Hcap|].
  split; [intros k; apply (get_inv_spec bits _ _ _ _ k H)|].
  destruct (is_full_iff bits s t fr term H) as [Hiff Hle]. rewrite Hcap in Hiff, Hle.
  split; [exact Hiff|]. split; [exact Hle|].
  intros kvs Hnd Habs Hlen.
  destruct (fill_exact bits s t fr term kvs H Hb Hnd Habs)
    as (s' & slots & t' & fr' & term' & _ & Hls & H' & Hcap' & Hsize' & Hfull' & Hold & Hnew & Hnds & _ & _ & Hrun);
    [lia|].
  destruct (Hrun Hst) as (Hr1 & Hr2 & Hr3).
  exists s', slots, t', fr', term'.
  split; [exact Hr1|]. split; [exact Hr2|]. split; [exact Hls|]. split; [exact H'|].
  split; [lia|]. split; [exact Hfull'|]. auto.
Qed.

End WithRemove.

Print Assumptions insert_all_fold.
Print Assumptions insert_all_spec.
Print Assumptions fill_exact.
Print Assumptions insert_fresh_slot.
Print Assumptions grow_spec.
Print Assumptions grow_then_fill.
Print Assumptions grow_repeated.
Print Assumptions ext_readonly.
Print Assumptions ext_readonly_step.
Print Assumptions released_slot_reused.
Print Assumptions fill_exact_reachable.
