(* Facts about the abstract sorted association lists of Avl/Spec.v on lists
   of the form l1 ++ x :: l2 (what an in-order traversal of a node looks like). *)
From Coq Require Import List NArith ZArith Bool Lia Sorted Permutation.
From Stevia Require Import Avl.Spec.
Import ListNotations.
Open Scope Z_scope.
Arguments Z.add : simpl never. Arguments Z.sub : simpl never.
Arguments Z.ltb : simpl never. Arguments Z.eqb : simpl never.

Definition skeys (m : smap) : list Z := map fst m.
Definition zsorted (l : list Z) : Prop := StronglySorted Z.lt l.
Definition ssorted (m : smap) : Prop := zsorted (skeys m).

(* ---- strictly sorted lists of keys ---- *)
Lemma zsorted_app_iff l1 k l2 :
  zsorted (l1 ++ k :: l2) <->
  zsorted l1 /\ zsorted l2 /\ Forall (fun x => x < k) l1 /\ Forall (fun x => k < x) l2.
Proof.
  unfold zsorted. induction l1 as [|a l1 IH]; cbn [app].
  - split.
    + intros H. inversion H as [|? ? Hs Hf]; subst. repeat split; auto; constructor.
    + intros (_ & Hs & _ & Hf). constructor; assumption.
  - split.
    + intros H. inversion H as [|? ? Hs Hf]; subst. apply IH in Hs. destruct Hs as (S1 & S2 & F1 & F2).
      apply Forall_app in Hf. destruct Hf as [Fa Fb]. inversion Fb as [|? ? Hak Fc]; subst.
      repeat split; auto. constructor; assumption.
    + intros (S1 & S2 & F1 & F2). inversion S1 as [|? ? Hs Hf]; subst.
      inversion F1 as [|? ? Hak F1']; subst. constructor.
      * apply IH. repeat split; assumption.
      * apply Forall_app. split; [assumption|]. constructor; [assumption|].
        eapply Forall_impl; [|exact F2]. cbn beta. intros x Hx. lia.
Qed.

Lemma zsorted_app_drop l1 k l2 : zsorted (l1 ++ k :: l2) -> zsorted (l1 ++ l2).
Proof.
  unfold zsorted. induction l1 as [|a l1 IH]; cbn [app]; intros H.
  - inversion H; assumption.
  - inversion H as [|? ? Hs Hf]; subst. constructor; [auto|].
    apply Forall_app in Hf. destruct Hf as [Fa Fb]. inversion Fb; subst.
    apply Forall_app. split; assumption.
Qed.

Lemma zsorted_notin_left l1 k l2 : zsorted (l1 ++ k :: l2) -> ~ In k l1.
Proof.
  intros H Hin. apply zsorted_app_iff in H. destruct H as (_ & _ & F & _).
  rewrite Forall_forall in F. specialize (F k Hin). lia.
Qed.
Lemma zsorted_notin_right l1 k l2 : zsorted (l1 ++ k :: l2) -> ~ In k l2.
Proof.
  intros H Hin. apply zsorted_app_iff in H. destruct H as (_ & _ & _ & F).
  rewrite Forall_forall in F. specialize (F k Hin). lia.
Qed.
Lemma zsorted_NoDup l : zsorted l -> NoDup l.
Proof.
  unfold zsorted. induction l as [|a l IH]; intros H; [constructor|].
  inversion H as [|? ? Hs Hf]; subst. constructor; [|auto].
  intros Hin. rewrite Forall_forall in Hf. specialize (Hf a Hin). lia.
Qed.

Lemma lt_notin (k : Z) (l : smap) : Forall (fun y => fst y < k) l -> ~ In k (skeys l).
Proof.
  unfold skeys. intros F Hin. apply in_map_iff in Hin. destruct Hin as (y & Hy & Hin).
  rewrite Forall_forall in F. specialize (F y Hin). lia.
Qed.
Lemma gt_notin (k : Z) (l : smap) : Forall (fun y => k < fst y) l -> ~ In k (skeys l).
Proof.
  unfold skeys. intros F Hin. apply in_map_iff in Hin. destruct Hin as (y & Hy & Hin).
  rewrite Forall_forall in F. specialize (F y Hin). lia.
Qed.
Lemma Forall_lt_trans (a b : Z) (l : smap) :
  a < b -> Forall (fun y => b < fst y) l -> Forall (fun y => a < fst y) l.
Proof. intros Hab. apply Forall_impl. intros y Hy. lia. Qed.
Lemma Forall_gt_trans (a b : Z) (l : smap) :
  b < a -> Forall (fun y => fst y < b) l -> Forall (fun y => fst y < a) l.
Proof. intros Hab. apply Forall_impl. intros y Hy. lia. Qed.

(* ---- sm_find ---- *)
Lemma sm_find_notin m k : ~ In k (skeys m) -> sm_find m k = None.
Proof.
  induction m as [|[k1 v1] m IH]; cbn [sm_find skeys map fst In]; [reflexivity|].
  intros H. destruct (Z.eqb_spec k k1) as [->|Hne]; [tauto|]. apply IH. unfold skeys. tauto.
Qed.
Lemma sm_find_app l1 l2 k :
  sm_find (l1 ++ l2) k = match sm_find l1 k with Some v => Some v | None => sm_find l2 k end.
Proof.
  induction l1 as [|[k1 v1] l1 IH]; cbn [app sm_find]; [reflexivity|].
  destruct (k =? k1); [reflexivity|exact IH].
Qed.
Lemma sm_find_some_in m k v : sm_find m k = Some v -> In (k, v) m.
Proof.
  induction m as [|[k1 v1] m IH]; cbn [sm_find In]; [discriminate|].
  destruct (Z.eqb_spec k k1) as [->|Hne]; [intros [= ->]; auto|auto].
Qed.
Lemma sm_find_app_lt l1 x l2 k :
  k < fst x -> Forall (fun y => fst x < fst y) l2 -> sm_find (l1 ++ x :: l2) k = sm_find l1 k.
Proof.
  intros Hk F. rewrite sm_find_app. destruct (sm_find l1 k); [reflexivity|].
  apply sm_find_notin. destruct x as [kx vx]. cbn [fst] in *. cbn [skeys map fst In].
  intros [->|Hin]; [lia|]. revert Hin. apply gt_notin. eapply Forall_lt_trans; eassumption.
Qed.
Lemma sm_find_app_gt l1 x l2 k :
  Forall (fun y => fst y < k) l1 -> fst x < k -> sm_find (l1 ++ x :: l2) k = sm_find l2 k.
Proof.
  intros F Hk. rewrite sm_find_app, (sm_find_notin l1) by (apply lt_notin; assumption).
  destruct x as [kx vx]. cbn [fst] in Hk. cbn [sm_find].
  destruct (Z.eqb_spec k kx); [lia|reflexivity].
Qed.
Lemma sm_find_app_eq l1 k v l2 :
  Forall (fun y => fst y < k) l1 -> sm_find (l1 ++ (k, v) :: l2) k = Some v.
Proof.
  intros F. rewrite sm_find_app, (sm_find_notin l1) by (apply lt_notin; assumption).
  cbn [sm_find]. rewrite Z.eqb_refl. reflexivity.
Qed.

(* ---- sm_insert ---- *)
Lemma sm_insert_app_lt l1 x l2 k v :
  k < fst x -> sm_insert (l1 ++ x :: l2) k v = sm_insert l1 k v ++ x :: l2.
Proof.
  intros Hk. induction l1 as [|[k1 v1] l1 IH]; cbn [app sm_insert].
  - destruct x as [kx vx]. cbn [fst] in Hk. cbn [sm_insert].
    destruct (Z.ltb_spec k kx); [reflexivity|lia].
  - destruct (k <? k1); [reflexivity|]. destruct (k =? k1); [reflexivity|].
    cbn [app]. rewrite IH. reflexivity.
Qed.
Lemma sm_insert_app_gt l1 x l2 k v :
  Forall (fun y => fst y < k) l1 -> fst x < k ->
  sm_insert (l1 ++ x :: l2) k v = l1 ++ x :: sm_insert l2 k v.
Proof.
  intros F Hk. induction l1 as [|[k1 v1] l1 IH]; cbn [app sm_insert].
  - destruct x as [kx vx]. cbn [fst] in Hk. cbn [sm_insert].
    destruct (Z.ltb_spec k kx); [lia|]. destruct (Z.eqb_spec k kx); [lia|reflexivity].
  - inversion F as [|? ? H1 F']; subst. cbn [fst] in H1.
    destruct (Z.ltb_spec k k1); [lia|]. destruct (Z.eqb_spec k k1); [lia|].
    rewrite IH by assumption. reflexivity.
Qed.
Lemma sm_insert_app_eq l1 k v' l2 v :
  Forall (fun y => fst y < k) l1 -> sm_insert (l1 ++ (k, v') :: l2) k v = l1 ++ (k, v') :: l2.
Proof.
  intros F. induction l1 as [|[k1 v1] l1 IH]; cbn [app sm_insert].
  - rewrite Z.ltb_irrefl, Z.eqb_refl. reflexivity.
  - inversion F as [|? ? H1 F']; subst. cbn [fst] in H1.
    destruct (Z.ltb_spec k k1); [lia|]. destruct (Z.eqb_spec k k1); [lia|].
    rewrite IH by assumption. reflexivity.
Qed.
(* insertion of an absent key at its place *)
Lemma sm_insert_mid l1 l2 k v :
  Forall (fun y => fst y < k) l1 -> Forall (fun y => k < fst y) l2 ->
  sm_insert (l1 ++ l2) k v = l1 ++ (k, v) :: l2.
Proof.
  intros F1 F2. induction l1 as [|[k1 v1] l1 IH]; cbn [app].
  - destruct l2 as [|[k2 v2] l2]; cbn [sm_insert]; [reflexivity|].
    inversion F2 as [|? ? H2 F2']; subst. cbn [fst] in H2.
    destruct (Z.ltb_spec k k2); [reflexivity|lia].
  - inversion F1 as [|? ? H1 F1']; subst. cbn [fst] in H1. cbn [sm_insert].
    destruct (Z.ltb_spec k k1); [lia|]. destruct (Z.eqb_spec k k1); [lia|].
    rewrite IH by assumption. reflexivity.
Qed.

Lemma sm_insert_keys_Forall (P : Z -> Prop) m k v :
  Forall P (skeys m) -> P k -> Forall P (skeys (sm_insert m k v)).
Proof.
  unfold skeys. induction m as [|[k1 v1] m IH]; cbn [sm_insert map fst]; intros F Hk.
  - constructor; [assumption|constructor].
  - destruct (k <? k1); [cbn [map fst]; constructor; assumption|].
    destruct (k =? k1); [exact F|]. inversion F; subst. cbn [map fst]. constructor; auto.
Qed.
Lemma sm_insert_sorted m k v : ssorted m -> ssorted (sm_insert m k v).
Proof.
  unfold ssorted, zsorted, skeys. induction m as [|[k1 v1] m IH]; cbn [sm_insert map fst]; intros H.
  - constructor; constructor.
  - destruct (Z.ltb_spec k k1) as [Hlt|Hge].
    + cbn [map fst]. constructor; [assumption|]. inversion H as [|? ? Hs Hf]; subst.
      constructor; [assumption|]. eapply Forall_impl; [|exact Hf]. cbn beta. intros x Hx. lia.
    + destruct (Z.eqb_spec k k1) as [->|Hne]; [assumption|].
      inversion H as [|? ? Hs Hf]; subst. cbn [map fst]. constructor; [auto|].
      apply sm_insert_keys_Forall; [assumption|lia].
Qed.
Lemma sm_insert_length m k v :
  ~ In k (skeys m) -> length (sm_insert m k v) = S (length m).
Proof.
  induction m as [|[k1 v1] m IH]; cbn [sm_insert skeys map fst In length]; intros H; [reflexivity|].
  destruct (k <? k1); [reflexivity|]. destruct (Z.eqb_spec k k1) as [->|Hne]; [tauto|].
  cbn [length]. rewrite IH; [reflexivity|]. unfold skeys. tauto.
Qed.
Lemma sm_insert_present m k v : ssorted m -> In k (skeys m) -> sm_insert m k v = m.
Proof.
  unfold ssorted, zsorted, skeys. induction m as [|[k1 v1] m IH]; cbn [sm_insert map fst In]; intros S Hin; [tauto|].
  inversion S as [|? ? Hs Hf]; subst.
  destruct (Z.ltb_spec k k1) as [Hlt|Hge].
  - destruct Hin as [->|Hin]; [lia|]. rewrite Forall_forall in Hf. specialize (Hf k Hin). lia.
  - destruct (Z.eqb_spec k k1) as [->|Hne]; [reflexivity|].
    destruct Hin as [->|Hin]; [congruence|]. rewrite IH by assumption. reflexivity.
Qed.

(* ---- sm_remove ---- *)
Lemma sm_remove_notin m k : ~ In k (skeys m) -> sm_remove m k = m.
Proof.
  induction m as [|[k1 v1] m IH]; cbn [sm_remove skeys map fst In]; [reflexivity|].
  intros H. destruct (Z.eqb_spec k k1) as [->|Hne]; [tauto|]. rewrite IH; [reflexivity|]. unfold skeys. tauto.
Qed.
Lemma sm_remove_app_in l1 l2 k : In k (skeys l1) -> sm_remove (l1 ++ l2) k = sm_remove l1 k ++ l2.
Proof.
  induction l1 as [|[k1 v1] l1 IH]; cbn [app sm_remove skeys map fst In]; [tauto|].
  intros H. destruct (Z.eqb_spec k k1) as [->|Hne]; [reflexivity|].
  cbn [app]. rewrite IH; [reflexivity|]. destruct H as [->|H]; [congruence|exact H].
Qed.
Lemma sm_remove_app_notin l1 l2 k : ~ In k (skeys l1) -> sm_remove (l1 ++ l2) k = l1 ++ sm_remove l2 k.
Proof.
  induction l1 as [|[k1 v1] l1 IH]; cbn [app sm_remove skeys map fst In]; [reflexivity|].
  intros H. destruct (Z.eqb_spec k k1) as [->|Hne]; [tauto|]. rewrite IH; [reflexivity|]. unfold skeys. tauto.
Qed.
Lemma sm_remove_mid l1 k v l2 : ~ In k (skeys l1) -> sm_remove (l1 ++ (k, v) :: l2) k = l1 ++ l2.
Proof.
  intros H. rewrite sm_remove_app_notin by assumption. cbn [sm_remove]. rewrite Z.eqb_refl. reflexivity.
Qed.
Lemma sm_remove_app_lt l1 x l2 k :
  k < fst x -> Forall (fun y => fst x < fst y) l2 ->
  sm_remove (l1 ++ x :: l2) k = sm_remove l1 k ++ x :: l2.
Proof.
  intros Hk F. destruct (in_dec Z.eq_dec k (skeys l1)) as [Hin|Hnin].
  - apply sm_remove_app_in; assumption.
  - rewrite sm_remove_app_notin, (sm_remove_notin l1) by assumption. f_equal.
    apply sm_remove_notin. destruct x as [kx vx]. cbn [fst] in *. cbn [skeys map fst In].
    intros [->|Hin]; [lia|]. revert Hin. apply gt_notin. eapply Forall_lt_trans; eassumption.
Qed.
Lemma sm_remove_app_gt l1 x l2 k :
  Forall (fun y => fst y < k) l1 -> fst x < k ->
  sm_remove (l1 ++ x :: l2) k = l1 ++ x :: sm_remove l2 k.
Proof.
  intros F Hk. rewrite sm_remove_app_notin by (apply lt_notin; assumption).
  destruct x as [kx vx]. cbn [fst] in Hk. cbn [sm_remove].
  destruct (Z.eqb_spec k kx); [lia|reflexivity].
Qed.
Lemma sm_remove_app_eq l1 k v l2 :
  Forall (fun y => fst y < k) l1 -> sm_remove (l1 ++ (k, v) :: l2) k = l1 ++ l2.
Proof. intros F. apply sm_remove_mid. apply lt_notin. assumption. Qed.
Lemma sm_remove_sorted m k : ssorted m -> ssorted (sm_remove m k).
Proof.
  intros S. destruct (in_dec Z.eq_dec k (skeys m)) as [Hin|Hnin].
  - unfold skeys in Hin. apply in_map_iff in Hin. destruct Hin as ([k1 v1] & Hk & Hin). cbn [fst] in Hk. subst k1.
    apply in_split in Hin. destruct Hin as (l1 & l2 & ->).
    unfold ssorted, skeys in *. rewrite map_app in S. cbn [map fst] in S.
    rewrite sm_remove_mid by (apply (zsorted_notin_left _ _ _ S)).
    rewrite map_app. eapply zsorted_app_drop. exact S.
  - rewrite sm_remove_notin by assumption. exact S.
Qed.

(* ---- sm_update ---- *)
Lemma sm_update_keys m k v : skeys (sm_update m k v) = skeys m.
Proof.
  unfold skeys. induction m as [|[k1 v1] m IH]; cbn [sm_update map fst]; [reflexivity|].
  destruct (k =? k1); cbn [map fst]; [reflexivity|]. rewrite IH. reflexivity.
Qed.
Lemma sm_update_notin m k v : ~ In k (skeys m) -> sm_update m k v = m.
Proof.
  induction m as [|[k1 v1] m IH]; cbn [sm_update skeys map fst In]; [reflexivity|].
  intros H. destruct (Z.eqb_spec k k1) as [->|Hne]; [tauto|]. rewrite IH; [reflexivity|]. unfold skeys. tauto.
Qed.
Lemma sm_update_app_in l1 l2 k v : In k (skeys l1) -> sm_update (l1 ++ l2) k v = sm_update l1 k v ++ l2.
Proof.
  induction l1 as [|[k1 v1] l1 IH]; cbn [app sm_update skeys map fst In]; [tauto|].
  intros H. destruct (Z.eqb_spec k k1) as [->|Hne]; [reflexivity|].
  cbn [app]. rewrite IH; [reflexivity|]. destruct H as [->|H]; [congruence|exact H].
Qed.
Lemma sm_update_app_notin l1 l2 k v : ~ In k (skeys l1) -> sm_update (l1 ++ l2) k v = l1 ++ sm_update l2 k v.
Proof.
  induction l1 as [|[k1 v1] l1 IH]; cbn [app sm_update skeys map fst In]; [reflexivity|].
  intros H. destruct (Z.eqb_spec k k1) as [->|Hne]; [tauto|]. rewrite IH; [reflexivity|]. unfold skeys. tauto.
Qed.
Lemma sm_update_app_lt l1 x l2 k v :
  k < fst x -> Forall (fun y => fst x < fst y) l2 ->
  sm_update (l1 ++ x :: l2) k v = sm_update l1 k v ++ x :: l2.
Proof.
  intros Hk F. destruct (in_dec Z.eq_dec k (skeys l1)) as [Hin|Hnin].
  - apply sm_update_app_in; assumption.
  - rewrite sm_update_app_notin, (sm_update_notin l1) by assumption. f_equal.
    apply sm_update_notin. destruct x as [kx vx]. cbn [fst] in *. cbn [skeys map fst In].
    intros [->|Hin]; [lia|]. revert Hin. apply gt_notin. eapply Forall_lt_trans; eassumption.
Qed.
Lemma sm_update_app_gt l1 x l2 k v :
  Forall (fun y => fst y < k) l1 -> fst x < k ->
  sm_update (l1 ++ x :: l2) k v = l1 ++ x :: sm_update l2 k v.
Proof.
  intros F Hk. rewrite sm_update_app_notin by (apply lt_notin; assumption).
  destruct x as [kx vx]. cbn [fst] in Hk. cbn [sm_update].
  destruct (Z.eqb_spec k kx); [lia|reflexivity].
Qed.
Lemma sm_update_app_eq l1 k v0 l2 v :
  Forall (fun y => fst y < k) l1 -> sm_update (l1 ++ (k, v0) :: l2) k v = l1 ++ (k, v) :: l2.
Proof.
  intros F. rewrite sm_update_app_notin by (apply lt_notin; assumption).
  cbn [sm_update]. rewrite Z.eqb_refl. reflexivity.
Qed.
Lemma sm_update_sorted m k v : ssorted m -> ssorted (sm_update m k v).
Proof. unfold ssorted. rewrite sm_update_keys. auto. Qed.
