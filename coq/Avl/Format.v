(* Byte format of the AVL trees.  [encode] gives the exact buffer contents of
   a layer-C state; [decode] reads a buffer back into a layer-C state;
   [decode_doc] is an independent reader written from the documented format:
   it follows links from the root, follows the free chain and classifies
   every slot. *)
From Coq Require Import List NArith ZArith Bool Arith.
From Stevia Require Import Base.Res Base.Bytes Avl.Impl.
Import ListNotations.
Open Scope N_scope.

(* key/value scalar types: size in bytes (alignment = size), signedness *)
Record layout := mkLay { kty : fty; vty : fty }.

Section Fmt.
Variable wbytes : nat.     (* index width in bytes: 1 or 4 *)
Variable lay : layout.

Definition w : N := N.of_nat wbytes.
(* header: 5 words padded to 24 bytes (u32) resp. 8 bytes (u8) *)
Definition hdr_len : nat := if Nat.eqb wbytes 1 then 8 else 24.
Definition ksz := fsz (kty lay).
Definition vsz := fsz (vty lay).
Definition koff : N := round_up (4 * w) ksz.
Definition voff : N := round_up (koff + ksz) vsz.
Definition rec_align : N := N.max w (N.max ksz vsz).
Definition rec_len : N := round_up (voff + vsz) rec_align.

Definition data_len (capacity : N) : N := N.of_nat hdr_len + capacity * rec_len.

Definition enc_node (n : node) : list N :=
  le_enc wbytes (nl n) ++ le_enc wbytes (nr n) ++ le_enc wbytes (nh n) ++ le_enc wbytes 0
  ++ zeros (N.to_nat (koff - 4 * w))
  ++ z_enc (N.to_nat ksz) (nk n)
  ++ zeros (N.to_nat (voff - (koff + ksz)))
  ++ z_enc (N.to_nat vsz) (nv n)
  ++ zeros (N.to_nat (rec_len - (voff + vsz))).

Definition enc_hdr (s : st) : list N :=
  le_enc wbytes (root s) ++ le_enc wbytes (size s) ++ le_enc wbytes (cap s)
  ++ le_enc wbytes (flh s) ++ le_enc wbytes (seq s)
  ++ zeros (hdr_len - 5 * wbytes).

Definition encode (s : st) : list N := enc_hdr s ++ flat_map enc_node (nodes s).

(* ---- reading ---- *)
Definition sub (bs : list N) (off len : N) : list N :=
  firstn (N.to_nat len) (skipn (N.to_nat off) bs).
Definition word (bs : list N) (i : N) : N := le_dec (sub bs (i * w) w).

Definition dec_node (bs : list N) : node :=
  mkN (word bs 0) (word bs 1) (word bs 2)
      (z_dec (fsigned (kty lay)) (sub bs koff ksz))
      (z_dec (fsigned (vty lay)) (sub bs voff vsz)).

Fixpoint dec_nodes (cnt : nat) (bs : list N) : list node :=
  match cnt with
  | O => []
  | S c => dec_node (firstn (N.to_nat rec_len) bs) :: dec_nodes c (skipn (N.to_nat rec_len) bs)
  end.

(* None: buffer shorter than a header, or the record area is not a whole
   number of records (bytemuck's cast_slice panics) *)
Definition decode (bs : list N) : option st :=
  if (length bs <? hdr_len)%nat then None else
  let body := skipn hdr_len bs in
  if negb (N.of_nat (length body) mod rec_len =? 0) then None else
  let cnt := N.to_nat (N.of_nat (length body) / rec_len) in
  Some (mkS (word bs 0) (word bs 1) (word bs 2) (word bs 3) (word bs 4) (dec_nodes cnt body)).

(* ---- the independent reader ---- *)
(* a tree read by following 1-based links from a slot; slot, key, value and
   stored height are kept.  [seen] guards against sharing and cycles. *)
Inductive dtree := DE | DT (l : dtree) (slot : N) (k v : Z) (h : N) (r : dtree).

Definition rec_at (s : st) (i : N) : option node :=
  if i =? 0 then None else nth_error (nodes s) (N.to_nat (i - 1)).

Fixpoint walk (fuel : nat) (s : st) (i : N) : option dtree :=
  match fuel with
  | O => None
  | S f =>
    if i =? 0 then Some DE else
    match rec_at s i with
    | None => None
    | Some n =>
      match walk f s (nl n), walk f s (nr n) with
      | Some l, Some r => Some (DT l i (nk n) (nv n) (nh n) r)
      | _, _ => None
      end
    end
  end.

Fixpoint d_inorder (t : dtree) : list (N * Z * Z) :=
  match t with DE => [] | DT l i k v _ r => d_inorder l ++ (i, k, v) :: d_inorder r end.
Fixpoint d_levels (t : dtree) : N :=
  match t with DE => 0 | DT l _ _ _ _ r => 1 + N.max (d_levels l) (d_levels r) end.
Fixpoint d_balanced (t : dtree) : bool :=
  match t with
  | DE => true
  | DT l _ _ _ h r =>
    let a := d_levels l in let b := d_levels r in
    (a <=? b + 1) && (b <=? a + 1) && (h + 1 =? 1 + N.max a b) && d_balanced l && d_balanced r
  end.
Fixpoint sorted_keys (ks : list Z) : bool :=
  match ks with
  | a :: ((b :: _) as r) => (a <? b)%Z && sorted_keys r
  | _ => true
  end.

(* free chain: follow the height register from the free-list head for
   exactly [n] steps *)
Fixpoint free_chain (n : nat) (s : st) (i : N) : option (list N) :=
  match n with
  | O => Some []
  | S c =>
    match rec_at s i with
    | None => None
    | Some x => match free_chain c s (nh x) with Some r => Some (i :: r) | None => None end
    end
  end.

Fixpoint nodupb (l : list N) : bool :=
  match l with [] => true | a :: r => negb (existsb (N.eqb a) r) && nodupb r end.

Definition is_zero_node (n : node) : bool :=
  (nl n =? 0) && (nr n =? 0) && (nh n =? 0) && (nk n =? 0)%Z && (nv n =? 0)%Z.

Record doc := mkDoc {
  d_hdr : list N;            (* root size cap flh seq *)
  d_tree : dtree;
  d_free : list N;           (* recycled slots, in chain order *)
  d_never : list N;          (* never-used slots *)
  d_wf : bool;               (* structural well-formedness, see below *)
  d_bst : bool;              (* in-order keys strictly increasing *)
  d_bal : bool               (* AVL balance, stored heights exact *)
}.

(* logical bump cursor: the u8 tree wraps it to 0 when all 255 slots have
   been handed out *)
Definition lseq (s : st) : N :=
  if (seq s =? 0) && Nat.eqb wbytes 1 then 256 else seq s.

Definition decode_doc (bs : list N) : option doc :=
  match decode bs with
  | None => None
  | Some s =>
    match walk (S (length (nodes s))) s (root s) with
    | None => None
    | Some t =>
      let live := map (fun x => fst (fst x)) (d_inorder t) in
      let nlive := N.of_nat (length live) in
      let sq := lseq s in
      let nfree := N.to_nat (sq - 1 - nlive) in
      match free_chain nfree s (flh s) with
      | None => None
      | Some fr =>
        let never := filter (fun i => sq <=? i) (map N.of_nat (List.seq 1 (length (nodes s)))) in
        let wf :=
          nodupb (live ++ fr)
          && forallb (fun i => (1 <=? i) && (i <? sq)) (live ++ fr)
          && (nlive =? size s) && (nlive + 1 <=? sq) && (sq <=? cap s + 1)
          && (cap s <=? N.of_nat (length (nodes s)))
          && forallb (fun i => match rec_at s i with Some n => is_zero_node n | None => false end) never
          && forallb (fun i => match rec_at s i with
                               | Some n => (nl n =? 0) && (nr n =? 0) && (nk n =? 0)%Z && (nv n =? 0)%Z
                               | None => false end) fr
        in
        Some (mkDoc [root s; size s; cap s; flh s; seq s] t fr never wf
                    (sorted_keys (map (fun x => snd (fst x)) (d_inorder t))) (d_balanced t))
      end
    end
  end.
End Fmt.
