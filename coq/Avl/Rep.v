(* The representation relation between the record array of layer C and the
   indexed trees of layer T, frames/contexts for the search path, and the
   basic array lemmas. *)
From Coq Require Import List NArith ZArith Bool Lia.
From Stevia Require Import Base.Res Avl.Impl Avl.Tree.
Import ListNotations.
Open Scope N_scope.

Lemma getn_setn_same ns i x ns' : setn ns i x = Ok ns' -> getn ns' i = Ok x.
Proof.
  unfold setn, getn. destruct (i =? 0); [discriminate|].
  destruct (Nat.ltb_spec (N.to_nat (i-1)) (length ns)) as [H|H]; [|discriminate].
  intros [= <-]. rewrite nth_error_set_nth_same by assumption. reflexivity.
Qed.
Lemma getn_setn_other ns i j x ns' : setn ns i x = Ok ns' -> j <> i -> getn ns' j = getn ns j.
Proof.
  unfold setn, getn. destruct (N.eqb_spec i 0); [discriminate|].
  destruct (Nat.ltb_spec (N.to_nat (i-1)) (length ns)) as [H|H]; [|discriminate].
  intros [= <-] Hne. destruct (N.eqb_spec j 0); auto.
  rewrite nth_error_set_nth_other by lia. reflexivity.
Qed.
Lemma setn_ok ns i n x : getn ns i = Ok n -> exists ns', setn ns i x = Ok ns'.
Proof.
  unfold getn, setn. destruct (i =? 0); [discriminate|].
  destruct (nth_error ns (N.to_nat (i-1))) eqn:E; [|discriminate]. intros _.
  assert (N.to_nat (i-1) < length ns)%nat by (apply nth_error_Some; congruence).
  destruct (Nat.ltb_spec (N.to_nat (i-1)) (length ns)); [eauto|lia].
Qed.
Lemma setn_length ns i x ns' : setn ns i x = Ok ns' -> length ns' = length ns.
Proof.
  unfold setn. destruct (i =? 0); [discriminate|].
  destruct (N.to_nat (i - 1) <? length ns)%nat; [|discriminate].
  intros [= <-]. apply set_nth_length.
Qed.
Lemma getn_nonzero ns i n : getn ns i = Ok n -> i <> 0.
Proof. unfold getn. destruct (N.eqb_spec i 0); [discriminate|auto]. Qed.
Lemma getn_range ns i n : getn ns i = Ok n -> 1 <= i /\ i <= N.of_nat (length ns).
Proof.
  unfold getn. destruct (N.eqb_spec i 0); [discriminate|].
  destruct (nth_error ns (N.to_nat (i-1))) eqn:E; [|discriminate]. intros _.
  assert (N.to_nat (i-1) < length ns)%nat by (apply nth_error_Some; congruence). lia.
Qed.
Lemma getn_in_range ns i : 1 <= i -> i <= N.of_nat (length ns) -> exists n, getn ns i = Ok n.
Proof.
  intros H1 H2. unfold getn. destruct (N.eqb_spec i 0); [lia|].
  destruct (nth_error ns (N.to_nat (i-1))) eqn:E; [eauto|].
  apply nth_error_None in E. lia.
Qed.

Lemma nodup_app {A} (a b : list A) :
  NoDup (a ++ b) -> NoDup a /\ NoDup b /\ (forall y, In y a -> ~ In y b).
Proof.
  induction a as [|z a IH]; cbn [app]; intros H.
  - repeat split; auto. constructor.
  - inversion H as [|? ? Hz Hab]; subst. destruct (IH Hab) as [Ha [Hb Hd]].
    rewrite in_app_iff in Hz. repeat split; auto.
    + constructor; tauto.
    + intros y [->|Hy]; [tauto|auto].
Qed.
Lemma nodup_split {A} (a : list A) x b : NoDup (a ++ x :: b) ->
  ~ In x a /\ ~ In x b /\ NoDup a /\ NoDup b /\ (forall y, In y a -> ~ In y b).
Proof.
  intros H. destruct (nodup_app _ _ H) as [Ha [Hxb Hd]]. inversion Hxb; subst.
  repeat split; auto.
  - intro Hx. apply (Hd x Hx). left; auto.
  - intros y Hy Hyb. apply (Hd y Hy). right; auto.
Qed.

(* record i holds these registers, key and value *)
Definition holds (ns : list node) (i : N) (li ri h : N) (k v : Z) : Prop :=
  exists n, getn ns i = Ok n /\ nl n = li /\ nr n = ri /\ nh n = h /\ nk n = k /\ nv n = v.

(* the array represents the tree: every node's record holds the slot
   indices of its subtrees' roots, its stored height, key and value *)
Fixpoint rep (ns : list node) (t : itree) : Prop :=
  match t with
  | E => True
  | T l i k v h r => holds ns i (idx l) (idx r) h k v /\ rep ns l /\ rep ns r
  end.

(* the same, with the stored height of the ROOT left unconstrained (it is
   about to be recomputed) *)
Definition rep_top (ns : list node) (t : itree) : Prop :=
  match t with
  | E => True
  | T l i k v _ r => (exists h, holds ns i (idx l) (idx r) h k v) /\ rep ns l /\ rep ns r
  end.

Definition same_outside (ns ns' : list node) (ch : list N) : Prop :=
  forall j, ~ In j ch -> getn ns' j = getn ns j.

Lemma same_outside_refl ns ch : same_outside ns ns ch.
Proof. intros j _. reflexivity. Qed.
Lemma same_outside_trans ns1 ns2 ns3 c1 c2 :
  same_outside ns1 ns2 c1 -> same_outside ns2 ns3 c2 -> same_outside ns1 ns3 (c1 ++ c2).
Proof.
  intros H1 H2 j Hj. rewrite H2, H1; auto; intro; apply Hj; apply in_or_app; auto.
Qed.
Lemma same_outside_weaken ns ns' c1 c2 :
  same_outside ns ns' c1 -> (forall j, In j c1 -> In j c2) -> same_outside ns ns' c2.
Proof. intros H Hs j Hj. apply H. intro; apply Hj; auto. Qed.

Lemma rep_frame ns ns' t ch :
  same_outside ns ns' ch -> (forall j, In j (idxs t) -> ~ In j ch) -> rep ns t -> rep ns' t.
Proof.
  intros Hs. induction t as [|l IHl i k v h r IHr]; cbn [rep idxs]; auto.
  intros Hd [[n Hn] [Hl Hr]]. split; [|split].
  - exists n. rewrite Hs; auto. apply Hd, in_or_app; right; left; auto.
  - apply IHl; auto. intros; apply Hd, in_or_app; auto.
  - apply IHr; auto. intros; apply Hd, in_or_app; right; right; auto.
Qed.
Lemma rep_idx0 ns t : rep ns t -> idx t = 0 -> t = E.
Proof. destruct t; cbn; auto. intros [[n [Hn _]] _] ->. apply getn_nonzero in Hn. congruence. Qed.
Lemma rep_idx_nz ns l i k v h r : rep ns (T l i k v h r) -> i <> 0.
Proof. cbn [rep]. intros [[n [Hn _]] _]. eapply getn_nonzero; eauto. Qed.
Lemma rep_rep_top ns t : rep ns t -> rep_top ns t.
Proof. destruct t; cbn [rep rep_top]; auto. intros [H [Hl Hr]]. eauto. Qed.
Lemma rep_idxs_range ns t j : rep ns t -> In j (idxs t) -> 1 <= j /\ j <= N.of_nat (length ns).
Proof.
  induction t as [|l IHl i k v h r IHr]; cbn [rep idxs]; [intros _ []|].
  intros [[n [Hn _]] [Hl Hr]] Hj. apply in_app_or in Hj. destruct Hj as [Hj|[<-|Hj]]; auto.
  eapply getn_range; eauto.
Qed.

(* ---- search-path contexts (zipper), innermost frame first ---- *)
Inductive frame :=
| FL (i : N) (k v : Z) (r : itree)    (* the hole is the LEFT child of node i *)
| FR (l : itree) (i : N) (k v : Z).   (* the hole is the RIGHT child of node i *)
Definition ctx := list frame.

Definition fill (f : frame) (t : itree) : itree :=
  match f with FL i k v r => T t i k v 0 r | FR l i k v => T l i k v 0 t end.
Definition fidx (f : frame) : N := match f with FL i _ _ _ => i | FR _ i _ _ => i end.
Definition fdir (f : frame) : dir := match f with FL _ _ _ _ => L | FR _ _ _ _ => R end.
Definition fsib (f : frame) : itree := match f with FL _ _ _ r => r | FR l _ _ _ => l end.

(* plug a subtree into a context without / with re-balancing on the way up *)
Fixpoint plug (c : ctx) (t : itree) : itree :=
  match c with [] => t | f :: c' => plug c' (fill f t) end.
Fixpoint plug_rebal (c : ctx) (t : itree) : itree :=
  match c with [] => t | f :: c' => plug_rebal c' (rebal (fill f t)) end.

(* the array represents the context around a hole whose content has root
   slot [hole]; [root] is the slot of the root of the whole tree.  Stored
   heights of the context nodes are unconstrained. *)
Fixpoint rep_ctx (ns : list node) (c : ctx) (hole root : N) : Prop :=
  match c with
  | [] => root = hole
  | FL i k v r :: c' => (exists h, holds ns i hole (idx r) h k v) /\ rep ns r /\ rep_ctx ns c' i root
  | FR l i k v :: c' => (exists h, holds ns i (idx l) hole h k v) /\ rep ns l /\ rep_ctx ns c' i root
  end.

Fixpoint ctx_idxs (c : ctx) : list N :=
  match c with [] => [] | f :: c' => fidx f :: idxs (fsib f) ++ ctx_idxs c' end.

(* the Rust path (parent, branch, child) list for a context, outermost
   first, as [insert]/[remove] build it: the root entry, then one entry per
   frame; [hole] is the slot at the bottom *)
Fixpoint path_of (c : ctx) (hole : N) : list anc :=
  match c with
  | [] => [(None, None, hole)]
  | f :: c' => path_of c' (fidx f) ++ [(Some (fidx f), Some (fdir f), hole)]
  end.
