(* Layer S for the AVL trees: a capacity-bounded association list kept
   strictly sorted by key, and the operation language shared by the concrete
   model, the spec, the extracted driver and the Rust harness. *)
From Coq Require Import List NArith ZArith Bool.
From Stevia Require Import Base.Res Avl.Impl.
Import ListNotations.
Open Scope N_scope.

Inductive op :=
| OInsert (k v : Z) | ORemove (k : Z) | OGet (k : Z)
| OGetMut (k v : Z)        (* get_mut, then write v through the reference *)
| OGetMut0 (k : Z)         (* get_mut without a write *)
| OContains (k : Z) | OLowest | OLen | OIsEmpty | OIsFull | OCapacity
| OExt (n : N)             (* extend the buffer by n zero-filled records *)
| OOpenMut                 (* drop the handle, from_bytes_mut *)
| OOpenRo.                 (* drop the handle, from_bytes (no effect) *)

Inductive out :=
| RSlot (o : option N) | RVal (o : option Z) | RBool (b : bool) | RNum (n : N) | RUnit.

(* insert's slot index forgotten *)
Definition out_abs (o : out) : out :=
  match o with RSlot (Some _) => RSlot (Some 0) | _ => o end.

(* ---------------- spec ---------------- *)
Definition smap := list (Z * Z).

Fixpoint sm_find (m : smap) (k : Z) : option Z :=
  match m with
  | [] => None
  | (k', v) :: r => if (k =? k')%Z then Some v else sm_find r k
  end.

Fixpoint sm_insert (m : smap) (k v : Z) : smap :=
  match m with
  | [] => [(k, v)]
  | (k', v') :: r =>
    if (k <? k')%Z then (k, v) :: m
    else if (k =? k')%Z then m
    else (k', v') :: sm_insert r k v
  end.

Fixpoint sm_remove (m : smap) (k : Z) : smap :=
  match m with
  | [] => []
  | (k', v') :: r => if (k =? k')%Z then r else (k', v') :: sm_remove r k
  end.

Fixpoint sm_update (m : smap) (k v : Z) : smap :=
  match m with
  | [] => []
  | (k', v') :: r => if (k =? k')%Z then (k', v) :: r else (k', v') :: sm_update r k v
  end.

Record sst := mkSS { scap : N; sents : smap; snrec : N }.

Definition s_claim (s : sst) : sst := mkSS (N.max (scap s) (snrec s)) (sents s) (snrec s).
Definition s_len (s : sst) : N := N.of_nat (length (sents s)).

Definition spec_step (s : sst) (o : op) : sst * out :=
  match o with
  | OInsert k v =>
    let s := s_claim s in
    match sm_find (sents s) k with
    | Some _ => (s, RSlot None)
    | None => if scap s <=? s_len s then (s, RSlot None)
              else (mkSS (scap s) (sm_insert (sents s) k v) (snrec s), RSlot (Some 0))
    end
  | ORemove k =>
    let s := s_claim s in
    (mkSS (scap s) (sm_remove (sents s) k) (snrec s), RVal (sm_find (sents s) k))
  | OGet k => (s, RVal (sm_find (sents s) k))
  | OGetMut k v =>
    let s := s_claim s in
    (mkSS (scap s) (sm_update (sents s) k v) (snrec s), RVal (sm_find (sents s) k))
  | OGetMut0 k => let s := s_claim s in (s, RVal (sm_find (sents s) k))
  | OContains k => (s, RBool (match sm_find (sents s) k with Some _ => true | None => false end))
  | OLowest => (s, RVal (match sents s with [] => None | (k, _) :: _ => Some k end))
  | OLen => (s, RNum (s_len s))
  | OIsEmpty => (s, RBool (s_len s =? 0))
  | OIsFull => (s, RBool (scap s <=? s_len s))
  | OCapacity => (s, RNum (scap s))
  | OExt n => (mkSS (scap s) (sents s) (snrec s + n), RUnit)
  | OOpenMut => (s_claim s, RUnit)
  | OOpenRo => (s, RUnit)
  end.

Definition spec_init (capacity : N) : sst := mkSS capacity [] capacity.

(* ---------------- concrete ---------------- *)
Section W.
Variable bits : N.

Definition ext_nodes (s : st) (n : N) : st := with_nodes s (nodes s ++ repeat node0 (N.to_nat n)).

Definition step_c (s : st) (o : op) : res (st * out * list Z) :=
  match o with
  | OInsert k v =>
    s1 <- open_mut bits s ;;
    '(s2, r, log) <- insert bits s1 k v ;; Ok (s2, RSlot r, log)
  | ORemove k =>
    s1 <- open_mut bits s ;;
    '(s2, r, log) <- remove bits s1 k ;; Ok (s2, RVal r, log)
  | OGet k => '(r, log) <- get s k ;; Ok (s, RVal r, log)
  | OGetMut k v =>
    s1 <- open_mut bits s ;;
    '(s2, r, log) <- get_mut_set s1 k v ;; Ok (s2, RVal r, log)
  | OGetMut0 k =>
    s1 <- open_mut bits s ;;
    '(r, log) <- get s1 k ;; Ok (s1, RVal r, log)
  | OContains k => '(r, log) <- contains s k ;; Ok (s, RBool r, log)
  | OLowest => r <- lowest s ;; Ok (s, RVal r, [])
  | OLen => Ok (s, RNum (len s), [])
  | OIsEmpty => Ok (s, RBool (is_empty s), [])
  | OIsFull => Ok (s, RBool (is_full s), [])
  | OCapacity => Ok (s, RNum (capacity s), [])
  | OExt n => Ok (ext_nodes s n, RUnit, [])
  | OOpenMut => s1 <- open_mut bits s ;; Ok (s1, RUnit, [])
  | OOpenRo => Ok (s, RUnit, [])
  end.

(* an initialised zero-filled buffer of [nrec] records *)
Definition init_c (capacity : N) (nrec : N) : st :=
  initialize (mkS 0 0 0 0 0 (repeat node0 (N.to_nat nrec))) capacity.

(* run a history; stops at the first Panic / Fuel, which is recorded *)
Fixpoint run_c (s : st) (ops : list op) : list (res out) :=
  match ops with
  | [] => []
  | o :: r =>
    match step_c s o with
    | Ok (s', x, _) => Ok x :: run_c s' r
    | Panic p => [Panic p]
    | Fuel => [Fuel]
    end
  end.

Fixpoint final_c (s : st) (ops : list op) : res st :=
  match ops with
  | [] => Ok s
  | o :: r => '(s', _, _) <- step_c s o ;; final_c s' r
  end.
End W.

Fixpoint run_s (s : sst) (ops : list op) : list out :=
  match ops with
  | [] => []
  | o :: r => let '(s', x) := spec_step s o in x :: run_s s' r
  end.
