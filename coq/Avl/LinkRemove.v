(* Link C <-> T for [remove], part 2: the function itself.
   [remove] of layer C, started in a state satisfying the master invariant
   for the tree t, returns what [t_find] finds, leaves a state satisfying the
   invariant for [t_remove t key], and pushes the released slot on the free
   list. *)
From Coq Require Import List NArith ZArith Bool Lia ZifyBool Permutation.
From Stevia Require Import Base.Res Avl.Impl Avl.Tree Avl.Rep Avl.Spec Avl.LinkPrim Avl.LinkRebal
  Avl.TreeInv Avl.TreeOps Avl.TreeHeight Avl.LinkFind Avl.Alloc Avl.Inv Avl.RemoveCtx
  Avl.LinkRemoveBase.
Import ListNotations.
Open Scope N_scope.
Arguments N.add : simpl never.
Arguments N.sub : simpl never.
Arguments N.mul : simpl never.
Arguments N.max : simpl never.
Arguments N.pow : simpl never.
Arguments N.eqb : simpl never.
Arguments N.ltb : simpl never.
Arguments N.leb : simpl never.
Arguments Z.add : simpl never.
Arguments Z.sub : simpl never.
Arguments Z.ltb : simpl never.
Arguments Z.leb : simpl never.
Arguments Z.eqb : simpl never.
Arguments Z.of_N : simpl never.
Arguments N.of_nat : simpl never.

Lemma NoDup_perm_drop {A} (L L' : list A) x : NoDup L -> Permutation L (x :: L') -> NoDup L'.
Proof. intros H P. apply (Permutation_NoDup P) in H. apply NoDup_cons_iff in H. tauto. Qed.

Lemma parent_in_ctx (c : ctx) j :
  In j (match c with [] => [] | f :: _ => [fidx f] end) -> In j (ctx_idxs c).
Proof. destruct c as [|f c']; cbn [In ctx_idxs]; tauto. Qed.

Section Width.
Variable bits : N.
Local Notation W := (2 ^ bits).
Local Notation B := (2 ^ (bits - 1)).

(* ---------------------------------------------------------------- *)
(* [remove] cut into its three phases                                *)

(* the removed node has two children *)
Definition remove_two (s : st) (left right : N) (path : list anc) : res (list node * list anc * N) :=
  '(leftmost, leftmost_parent, inner_path) <-
      leftmost_loop (fuel_of s) (nodes s) right 0 [] ;;
  ns1 <- (if negb (leftmost_parent =? 0) then
            lm <- getn (nodes s) leftmost ;;
            update_child bits (nodes s) leftmost_parent L (nr lm)
          else Ok (nodes s)) ;;
  ns2 <- update_child bits ns1 leftmost L left ;;
  ns3 <- (if negb (right =? leftmost) then update_child bits ns2 leftmost R right else Ok ns2) ;;
  match pop_last path with
  | None => Panic PUnwrap
  | Some (path, (parent, branch, _)) =>
    ns4 <- (match parent with
            | Some p => d <- expect_dir branch ;; update_child bits ns3 p d leftmost
            | None => Ok ns3
            end) ;;
    let path := path ++ [(parent, branch, leftmost)] in
    let path := if negb (right =? leftmost)
                then path ++ [(Some leftmost, Some R, right)] else path in
    let inner_path := match pop_last inner_path with
                      | Some (ip, _) => ip | None => inner_path end in
    Ok (ns4, path ++ inner_path, leftmost)
  end.

(* the removed node has at most one child *)
Definition remove_one (s : st) (left right : N) (path : list anc) : res (list node * list anc * N) :=
  let child := if (left =? 0) && (right =? 0) then 0
               else if negb (left =? 0) then left else right in
  match pop_last path with
  | None => Panic PUnwrap
  | Some (path, (parent, branch, _)) =>
    match parent with
    | Some p =>
      d <- expect_dir branch ;;
      ns1 <- update_child bits (nodes s) p d child ;;
      Ok (ns1, if negb (child =? 0) then path ++ [(Some p, branch, child)] else path, child)
    | None => Ok (nodes s, path, child)
    end
  end.

Definition remove_tail (s : st) (x : N) (log : list Z) (r : list node * list anc * N)
  : res (st * option Z * list Z) :=
  let '(ns, path, replacement) := r in
  let s1 := with_nodes s ns in
  let s2 := if x =? root s1 then with_root s1 replacement else s1 in
  s3 <- rebalance bits s2 path ;;
  '(s4, v) <- remove_node s3 x ;;
  Ok (s4, v, log).

Lemma remove_eq s key :
  remove bits s key =
  if root s =? 0 then Ok (s, None, []) else
  '(x, path, log) <- remove_descent (fuel_of s) (nodes s) key (root s) [(None, None, root s)] [] ;;
  if x =? 0 then Ok (s, None, log) else
  n <- getn (nodes s) x ;;
  r <- (if negb (nl n =? 0) && negb (nr n =? 0) then remove_two s (nl n) (nr n) path
        else remove_one s (nl n) (nr n) path) ;;
  remove_tail s x log r.
Proof. reflexivity. Qed.

(* ---------------------------------------------------------------- *)
(* everything known once the search has stopped on the node x         *)

Record located (s : st) (t : itree) (fr : list N) (term : N) (key : Z)
       (c : ctx) (l : itree) (x : N) (kx vx : Z) (hx : N) (r : itree) : Prop := mkLocated {
  lo_inv : Inv bits s t fr term;
  lo_budget : 3 * levels t + 6 < B;
  lo_W : levels t + 4 < W;
  lo_nd : NoDup (idxs t);
  lo_rep : rep (nodes s) (T l x kx vx hx r);
  lo_ctx : rep_ctx (nodes s) c x (root s);
  lo_perm : Permutation (idxs t) (idxs l ++ x :: idxs r ++ ctx_idxs c);
  lo_find : t_find t key = Some (x, vx);
  lo_hl : hmax l <= levels t;
  lo_hr : hmax r <= levels t;
  lo_hc : cmax c <= levels t;
  lo_depth : N.of_nat (length c) + 1 + N.max (levels l) (levels r) <= levels t;
  lo_rootx : (x =? root s) = is_nil c;
  lo_T : t_remove t key = plug_rebal c (t_splice (is_nil c) l r);
  lo_fuel : (depth r < fuel_of s)%nat
}.

Lemma located_intro s t fr term key c l x kx vx hx r :
  Inv bits s t fr term -> 3 * levels t + 6 < B ->
  t_locate t key [] = (c, T l x kx vx hx r) ->
  located s t fr term key c l x kx vx hx r.
Proof.
  intros HInv HB Hloc. pose proof HInv as [Hrep Hroot Hhok Havl Hbst Hal].
  pose proof (ai_nodup _ _ _ _ _ Hal) as Hnd0. destruct (nodup_app _ _ Hnd0) as [Hnd _].
  destruct (t_locate_rep (nodes s) (root s) t key [] c _ Hrep Hroot Hloc) as [Rtx Rc].
  cbn [idx] in Rc.
  assert (Hp : Permutation (idxs t) (idxs l ++ x :: idxs r ++ ctx_idxs c)).
  { pose proof (t_locate_perm _ _ _ _ _ Hloc) as P. cbn [ctx_idxs idxs] in P.
    rewrite app_nil_r in P. rewrite <- P. perm_solve. }
  pose proof (hok_hmax t Hhok) as Hhm.
  destruct (t_locate_bounds t key [] c _ (levels t) Hloc Hhm) as [Hbx Hbc]; [cbn [cmax]; lia|].
  cbn [hmax] in Hbx.
  destruct (t_locate_depth _ _ _ _ _ Hloc) as [Hd _]. cbn [length depth] in Hd.
  pose proof (depth_levels t) as Hdl. pose proof (depth_levels l) as Hdll.
  pose proof (depth_levels r) as Hdlr.
  pose proof (B_le_W bits) as HBW.
  constructor; auto; try lia.
  - pose proof (t_locate_found _ _ _ _ _ Hloc) as Hf. cbn beta iota in Hf. tauto.
  - destruct c as [|f c']; cbn [is_nil].
    + cbn [rep_ctx] in Rc. rewrite Rc. apply N.eqb_refl.
    + pose proof (rep_ctx_root_in _ _ _ _ Rc ltac:(discriminate)) as Hin.
      destruct (N.eqb_spec x (root s)) as [He|]; [|reflexivity]. exfalso. rewrite <- He in Hin.
      revert Hin. apply (NoDup_perm_notin (idxs t) _ (idxs l ++ idxs r) x Hnd).
      rewrite Hp. perm_solve.
  - apply t_remove_locate with (kx := kx) (vx := vx) (hx := hx) (x := x). exact Hloc.
  - pose proof (fuel_enough s t Hrep Hnd). lia.
Qed.

Definition remove_goal (s : st) (t : itree) (fr : list N) (term : N) (key : Z) (x : N) (vx : Z)
           (res : res (st * option Z * list Z)) (log : list Z) : Prop :=
  exists s', res = Ok (s', Some vx, log) /\
    Inv bits s' (t_remove t key) (x :: fr) term /\ cap s' = cap s /\
    length (nodes s') = length (nodes s).

(* the third phase, given the array after the pointer surgery *)
Lemma tail_finish s t fr term key c l x kx vx hx r log ns path repl bl bi bk bv bh br ctx' :
  located s t fr term key c l x kx vx hx r ->
  length ns = length (nodes s) ->
  same_outside (nodes s) ns (idxs (T bl bi bk bv bh br) ++ ctx_idxs ctx') ->
  rep_top ns (T bl bi bk bv bh br) -> rep_ctx ns ctx' bi (root_after c repl (root s)) ->
  Permutation (idxs t) (x :: idxs (T bl bi bk bv bh br) ++ ctx_idxs ctx') ->
  hmax bl <= levels t + 1 -> hmax br <= levels t + 1 -> cmax ctx' <= levels t + 1 ->
  N.of_nat (length ctx') <= levels t ->
  plug_rebal ctx' (rebal (T bl bi bk bv bh br)) = t_remove t key ->
  path = path_of ctx' bi ->
  remove_goal s t fr term key x vx (remove_tail s x log (ns, path, repl)) log.
Proof.
  intros Hlo Hlen Hso Rt Rc Hperm Hbl Hbr Hcm Hcl HT ->.
  destruct Hlo as [HInv HB _ _ _ _ _ Hfind _ _ _ _ Hrootx _ _].
  set (s2 := mkS (root_after c repl (root s)) (size s) (cap s) (flh s) (seq s) ns).
  destruct (remove_finish bits s t fr term key x vx s2 bl bi bk bv bh br ctx' HInv HB Hfind)
    as [s3 [s4 [Hrb [Hrm H4]]]]; auto.
  { unfold hdr_eq. cbn [s2 size cap flh seq]. auto. }
  unfold remove_tail, remove_goal.
  cbn [with_nodes root]. rewrite Hrootx.
  assert (Hs2 : (if is_nil c then with_root (with_nodes s ns) repl else with_nodes s ns) = s2).
  { unfold s2. destruct c; reflexivity. }
  rewrite Hs2, Hrb. cbn [bind]. rewrite Hrm. cbn [bind]. exists s4. tauto.
Qed.

(* ---------------------------------------------------------------- *)
(* two children, the successor is the right child itself             *)

Lemma case_direct s t fr term key c l x kx vx hx r log ri rk rv rh rr :
  located s t fr term key c l x kx vx hx r ->
  l <> E -> r = T E ri rk rv rh rr ->
  remove_goal s t fr term key x vx
    (r0 <- remove_two s (idx l) (idx r) (path_of c x) ;; remove_tail s x log r0) log.
Proof.
  intros Hlo Hl Hr. pose proof Hlo as [_ _ HW Hnd Rtx Rc Hp _ Hbl Hbr Hbc Hdp _ HT Hfuel].
  subst r. cbn [rep idx] in Rtx. destruct Rtx as [Hx [Rl [Hri [_ Rrr]]]].
  cbn [idxs app] in Hp. cbn [hmax] in Hbr. cbn [levels] in Hdp.
  assert (HndA : NoDup (idxs l ++ x :: ri :: idxs rr ++ ctx_idxs c))
    by (eapply Permutation_NoDup; eauto).
  assert (Hd : ~ In ri (idxs l) /\ ~ In ri (idxs rr) /\ ~ In ri (ctx_idxs c)).
  { clear - HndA. nd_auto ri ri ri. }
  destruct Hd as [Hril [Hrirr Hric]].
  (* the loop stops at once *)
  unfold remove_two. cbn [idx].
  rewrite (leftmost_loop_spec (nodes s) E (fuel_of s) ri rk rv rh rr 0 []); [|cbn [rep]; auto|exact Hfuel].
  cbn [t_leftmost t_leftspine lpath fst snd app bind].
  rewrite N.eqb_refl. cbn [negb bind].
  (* the successor adopts the left subtree *)
  pose proof (newh_hmax l rr) as Hn1.
  destruct (update_child_L_spec bits (nodes s) ri 0 (idx rr) rh rk rv l rr)
    as [ns2 [U2 [R2 [S2 L2]]]]; auto; [lia|].
  rewrite U2. cbn [bind]. rewrite pop_last_path_of.
  (* the parent is re-pointed *)
  pose proof (hmax_mk l ri rk rv rr) as Hmu.
  destruct (repoint_spec bits (nodes s) ns2 c x (root s) (mk l ri rk rv rr) [ri] (levels t + 1))
    as [ns4 [U4 [R4 [Rc4 [S4 L4]]]]]; auto; try lia.
  { intros j Hj [<-|[]]. contradiction. }
  { rewrite idxs_mk. apply (NoDup_perm_drop _ _ x HndA). perm_solve. }
  rewrite N.eqb_refl. cbn [negb bind].
  unfold repoint_parent in U4. rewrite idx_mk in U4, Rc4. rewrite U4. cbn [bind].
  cbn [pop_last rev]. rewrite app_nil_r, <- path_of_init.
  apply (tail_finish s t fr term key c l x kx vx hx (T E ri rk rv rh rr) log ns4 _ ri
                     l ri rk rv (newh l rr) rr c Hlo).
  - congruence.
  - eapply same_outside_weaken; [eapply same_outside_trans; [exact S2|exact S4]|].
    intros j Hj. apply in_app_or in Hj. apply in_or_app. destruct Hj as [[<-|[]]|Hj].
    + left. cbn [idxs]. apply in_or_app. right. left. reflexivity.
    + right. apply parent_in_ctx. exact Hj.
  - apply rep_rep_top in R4. exact R4.
  - exact Rc4.
  - rewrite Hp. cbn [idxs]. perm_solve.
  - lia.
  - lia.
  - lia.
  - lia.
  - rewrite HT. destruct l as [|ll li lk lv lh lr]; [congruence|].
    cbn [t_splice t_remove_min]. f_equal. apply rebal_top_irrel.
  - reflexivity.
Qed.

(* ---------------------------------------------------------------- *)
(* at most one child                                                 *)

Lemma case_one s t fr term key c l x kx vx hx r log :
  located s t fr term key c l x kx vx hx r ->
  l = E \/ r = E ->
  remove_goal s t fr term key x vx
    (r0 <- remove_one s (idx l) (idx r) (path_of c x) ;; remove_tail s x log r0) log.
Proof.
  intros Hlo Hor. pose proof Hlo as [HInv _ HW Hnd Rtx Rc Hp Hfind Hbl Hbr Hbc Hdp Hrootx HT _].
  cbn [rep] in Rtx. destruct Rtx as [Hx [Rl Rr]].
  assert (Hu : exists u, rep (nodes s) u /\
             (if (idx l =? 0) && (idx r =? 0) then 0
              else if negb (idx l =? 0) then idx l else idx r) = idx u /\
             (forall top, t_splice top l r = if top then u else rebal u) /\
             Permutation (idxs l ++ x :: idxs r ++ ctx_idxs c) (x :: idxs u ++ ctx_idxs c) /\
             hmax u <= levels t).
  { rewrite (rep_idx0_iff _ l Rl), (rep_idx0_iff _ r Rr).
    destruct l as [|ll li lk lv lh lr], r as [|rl ri rk rv rh rr].
    - exists E. cbn [andb idx t_splice rebal idxs app].
      split; [exact I|]. split; [reflexivity|]. split; [intros []; reflexivity|].
      split; [reflexivity|assumption].
    - exists (T rl ri rk rv rh rr). cbn [andb negb idx t_splice].
      split; [assumption|]. split; [reflexivity|]. split; [reflexivity|].
      split; [reflexivity|assumption].
    - exists (T ll li lk lv lh lr). cbn [andb negb idx t_splice].
      split; [assumption|]. split; [reflexivity|]. split; [reflexivity|].
      split; [|assumption]. set (tl := T ll li lk lv lh lr). cbn [idxs app]. perm_solve.
    - destruct Hor; discriminate. }
  destruct Hu as [u [Ru [Hchild [Hsp [Hpu Hbu]]]]].
  rewrite Hpu in Hp. rewrite Hsp in HT.
  assert (HndU : NoDup (idxs u ++ ctx_idxs c)) by (apply (NoDup_perm_drop _ _ x Hnd Hp)).
  unfold remove_one. rewrite Hchild, pop_last_path_of.
  destruct c as [|f c'].
  - (* the removed node is the root: the child is promoted *)
    cbn [parent_of init_of bind remove_tail with_nodes root]. rewrite Hrootx. cbn [is_nil].
    unfold rebalance. cbn [rev rebalance_list bind].
    cbn [is_nil plug_rebal] in HT.
    destruct (remove_final bits s t fr term key x vx (with_root (with_nodes s (nodes s)) (idx u)))
      as [s4 [Hrm H4]]; auto.
    + unfold hdr_eq. cbn. auto.
    + apply same_outside_refl.
    + rewrite HT. exact Ru.
    + rewrite HT. reflexivity.
    + rewrite Hrm. cbn [bind]. exists s4. tauto.
  - cbn [parent_of branch_of init_of expect_dir bind].
    destruct (repoint_spec bits (nodes s) (nodes s) (f :: c') x (root s) u [] (levels t + 1))
      as [ns4 [U4 [R4 [Rc4 [S4 L4]]]]]; auto; try lia.
    { apply same_outside_refl. }
    unfold repoint_parent in U4. cbn [parent_of branch_of expect_dir bind] in U4.
    cbn [root_after] in Rc4. rewrite U4. cbn [bind].
    cbn [is_nil] in HT.
    destruct u as [|ul ui uk uv uh ur].
    + (* a leaf is removed: rebalancing starts at its parent *)
      cbn [idx] in *. rewrite N.eqb_refl. cbn [negb].
      destruct (rep_top_of_ctx ns4 f c' E (root s) I Rc4) as [Rt4 Rcc4].
      cbn [plug_rebal rebal] in HT. cbn [cmax] in Hbc. cbn [length] in Hdp.
      destruct f as [p kp vp sib|sib p kp vp]; cbn [fill fidx fsib fdir] in *.
      * apply (tail_finish s t fr term key (FL p kp vp sib :: c') l x kx vx hx r log ns4 _ 0
                           E p kp vp 0 sib c' Hlo); auto; try (cbn [hmax]; lia).
        eapply same_outside_weaken; [exact S4|]. intros j [<-|[]]. cbn [idxs app]. left. reflexivity.
      * apply (tail_finish s t fr term key (FR sib p kp vp :: c') l x kx vx hx r log ns4 _ 0
                           sib p kp vp 0 E c' Hlo); auto; try (cbn [hmax]; lia).
        -- eapply same_outside_weaken; [exact S4|]. intros j [<-|[]]. cbn [idxs].
           apply in_or_app. left. apply in_or_app. right. left. reflexivity.
        -- rewrite Hp. cbn [idxs ctx_idxs fidx fsib]. perm_solve.
    + (* the only child takes the place of the removed node *)
      pose proof (rep_idx_nz _ _ _ _ _ _ _ Ru) as Hnz. cbn [idx] in *.
      destruct (N.eqb_spec ui 0) as [?|_]; [contradiction|]. cbn [negb].
      cbn [hmax] in Hbu.
      apply (tail_finish s t fr term key (f :: c') l x kx vx hx r log ns4 _ ui
                         ul ui uk uv uh ur (f :: c') Hlo); auto; try lia.
      * eapply same_outside_weaken; [exact S4|]. intros j [<-|[]].
        apply in_or_app. right. left. reflexivity.
      * apply rep_rep_top. exact R4.
Qed.

(* ---------------------------------------------------------------- *)
(* two children, the successor is deeper in the right subtree        *)

Lemma case_deep s t fr term key c l x kx vx hx r log rl ri rk rv rh rr :
  located s t fr term key c l x kx vx hx r ->
  l <> E -> r = T rl ri rk rv rh rr -> rl <> E ->
  remove_goal s t fr term key x vx
    (r0 <- remove_two s (idx l) (idx r) (path_of c x) ;; remove_tail s x log r0) log.
Proof.
  intros Hlo Hl Hr Hrl. pose proof Hlo as [_ _ HW Hnd Rtx Rc Hp _ Hbl Hbr Hbc Hdp _ HT Hfuel].
  subst r.
  change (rep (nodes s) (T l x kx vx hx (T rl ri rk rv rh rr)))
    with (holds (nodes s) x (idx l) ri hx kx vx /\ rep (nodes s) l /\
          rep (nodes s) (T rl ri rk rv rh rr)) in Rtx.
  destruct Rtx as [Hx [Rl Rr]].
  destruct (minpar rl ri rk rv rr []) as [[cm b] [[m km] vm]] eqn:Hmp0.
  assert (Hmp : minpar rl ri rk rv rr (FR l m km vm :: c) =
                (cm ++ FR l m km vm :: c, b, (m, km, vm))).
  { pose proof (minpar_acc rl ri rk rv rr [] (FR l m km vm :: c)) as H.
    rewrite Hmp0 in H. exact H. }
  assert (HndA : NoDup (idxs l ++ x :: idxs (T rl ri rk rv rh rr) ++ ctx_idxs c))
    by (eapply Permutation_NoDup; eauto).
  assert (HndR : NoDup (idxs (T rl ri rk rv rh rr))).
  { apply (NoDup_perm_app_l _ _ (idxs l ++ x :: ctx_idxs c) Hnd). rewrite Hp. perm_solve. }
  destruct (detach_spec bits (nodes s) rl ri rk rv rh rr [] cm b m km vm (levels t)
                        Rr Hrl HndR Hmp0 Hbr)
    as [mr [pm [kpm [vpm [pr [hm [Hb [Hm [Hpm [Hpmm [ns1 [U1 [R1 [Rmr1 [Hm1 [S1 L1]]]]]]]]]]]]]]]];
    [lia|].
  subst b.
  pose proof (detach_min_idxs rl ri rk rv rh rr _ _ _ _ Hrl Hmp0) as Hidr. cbn [fst] in Hidr.
  pose proof (detach_min_hmax rl ri rk rv rh rr Hrl) as Hr0h.
  pose proof (detach_min_idx rl ri rk rv rh rr Hrl) as Hr0i.
  set (r0 := detach_min rl ri rk rv rh rr) in *.
  pose proof (minpar_perm rl ri rk rv rh rr _ _ _ _ Hrl Hmp0) as HpR.
  cbn [fst ctx_idxs] in HpR. rewrite app_nil_r in HpR.
  destruct (minpar_bounds rl ri rk rv rh rr _ _ _ _ (levels t) Hrl Hmp Hbr) as [Hbb Hbcm].
  { cbn [cmax fsib]. lia. }
  cbn [hmax] in Hbb.
  pose proof (minpar_min_in rl ri rk rv rr _ _ _ _ Hrl Hmp0) as Hmin. cbn [fst] in Hmin.
  (* disjointness *)
  assert (HndA' : NoDup (idxs l ++ x :: (m :: idxs r0) ++ ctx_idxs c)) by (rewrite <- Hidr; exact HndA).
  assert (Hpm' : In pm (idxs r0)).
  { rewrite Hidr in Hpm. destruct Hpm as [?|?]; [congruence|assumption]. }
  assert (Hd : ~ In m (idxs l) /\ ~ In m (idxs r0) /\ ~ In m (ctx_idxs c) /\
               ~ In pm (idxs l) /\ ~ In pm (ctx_idxs c)).
  { clear - HndA' Hpm'. nd_auto m pm pm. }
  destruct Hd as [Hml [Hmr0 [Hmc [Hpml Hpmc]]]].
  assert (Hrim : ri <> m).
  { clear - HndR Hmin. cbn [idxs] in HndR. intros <-. apply nodup_split in HndR. tauto. }
  assert (Hmmr : ~ In m (idxs mr)).
  { assert (Hn : NoDup (m :: idxs (T mr pm kpm vpm 0 pr) ++ ctx_idxs cm))
      by (eapply Permutation_NoDup; [symmetry; exact HpR|exact HndR]).
    clear - Hn. nd_auto m m m. }
  assert (Hpm0 : pm <> 0).
  { pose proof (rep_idxs_range _ _ _ Rr Hpm). lia. }
  (* the loop *)
  unfold remove_two. cbn [idx].
  rewrite (leftmost_loop_spec (nodes s) rl (fuel_of s) ri rk rv rh rr 0 []); [|exact Rr|exact Hfuel].
  rewrite (minpar_leftmost rl ri rk rv rh rr _ _ _ _ 0 Hrl Hmp0).
  cbn [fst snd idx app bind].
  destruct (N.eqb_spec pm 0) as [?|_]; [contradiction|]. cbn [negb].
  (* the successor is unlinked *)
  pose proof Hm as [lm [Hlm [_ [Hnr _]]]]. rewrite Hlm. cbn [bind]. rewrite Hnr, U1. cbn [bind].
  (* it adopts the left subtree of the removed node ... *)
  pose proof (newh_hmax l mr) as Hn1.
  destruct (update_child_L_spec bits ns1 m 0 (idx mr) hm km vm l mr)
    as [ns2 [U2 [R2 [S2 L2]]]]; auto; [|lia|].
  { eapply rep_frame; [exact S1| |exact Rl]. intros j Hj [<-|[]]. contradiction. }
  rewrite U2. cbn [bind].
  destruct (N.eqb_spec ri m) as [?|_]; [contradiction|]. cbn [negb].
  (* ... and the right one *)
  pose proof R2 as R2'. cbn [mk rep] in R2'. destruct R2' as [Hm2 [Rl2 Rmr2]].
  pose proof (newh_hmax l r0) as Hn2.
  destruct (update_child_R_spec bits ns2 m (idx l) (idx mr) (newh l mr) km vm l r0)
    as [ns3 [U3 [R3 [S3 L3]]]]; auto; [|lia|].
  { eapply rep_frame; [exact S2| |exact R1]. intros j Hj [<-|[]]. contradiction. }
  rewrite Hr0i in U3. rewrite U3. cbn [bind]. rewrite pop_last_path_of.
  (* the parent is re-pointed *)
  pose proof (hmax_mk l m km vm r0) as Hmu.
  destruct (repoint_spec bits (nodes s) ns3 c x (root s) (mk l m km vm r0) [pm; m; m] (levels t + 2))
    as [ns4 [U4 [R4 [Rc4 [S4 L4]]]]]; auto; try lia.
  { eapply same_outside_weaken;
      [eapply same_outside_trans; [exact S1|eapply same_outside_trans; [exact S2|exact S3]]|].
    intros j Hj. exact Hj. }
  { intros j Hj [<-|[<-|[<-|[]]]]; contradiction. }
  { rewrite idxs_mk. apply (NoDup_perm_drop _ _ x HndA'). perm_solve. }
  unfold repoint_parent in U4. rewrite idx_mk in U4, Rc4. rewrite U4. cbn [bind].
  (* the path *)
  destruct (minpar_path rl ri rk rv rh rr _ _ _ _ Hrl Hmp) as [ip [Hip Hpath]].
  cbn [idx fst] in Hip, Hpath. rewrite Hip, pop_last_snoc.
  rewrite <- path_of_init.
  change (path_of c m ++ [(Some m, Some R, ri)]) with (path_of (FR l m km vm :: c) ri).
  rewrite <- Hpath.
  pose proof R4 as R4'. cbn [mk rep] in R4'. destruct R4' as [Hm4 [Rl4 Rr04]].
  rewrite Hr0i in Hm4.
  destruct (detach_decompose ns4 rl ri rk rv rh rr (FR l m km vm :: c) _ _ _
                             (root_after c m (root s)) Hrl Hmp Rr04) as [Rt4 Rcc4].
  { cbn [rep_ctx]. eauto. }
  cbn [idx] in Rcc4.
  apply (tail_finish s t fr term key c l x kx vx hx (T rl ri rk rv rh rr) log ns4 _ m
                     mr pm kpm vpm 0 pr (cm ++ FR l m km vm :: c) Hlo); auto; try lia.
  - eapply same_outside_weaken;
      [eapply same_outside_trans; [exact S1|eapply same_outside_trans;
         [exact S2|eapply same_outside_trans; [exact S3|exact S4]]]|].
    intros j Hj. rewrite ctx_idxs_app. cbn [ctx_idxs fidx fsib idxs].
    repeat (rewrite ?in_app_iff in *; cbn [In] in * ).
    destruct Hj as [[<-|[]]|[[<-|[]]|[[<-|[]]|Hj]]]; auto 10.
    apply parent_in_ctx in Hj. auto 10.
  - rewrite Hp, <- HpR, ctx_idxs_app. cbn [ctx_idxs fidx fsib]. perm_solve.
  - pose proof (minpar_depth rl ri rk rv rh rr _ _ _ _ Hrl Hmp) as Hd.
    pose proof (depth_levels (T rl ri rk rv rh rr)) as Hdl. cbn [length] in Hd. lia.
  - rewrite HT. destruct (t_remove_min_spine rl ri rk rv rh rr _ _ _ _ Hrl Hmp) as [Hf Hs].
    rewrite <- Hs. cbn [plug_rebal fill].
    destruct l as [|ll li lk lv lh lr]; [congruence|]. cbn [t_splice].
    destruct (t_remove_min rl ri rk rv rh rr) as [[[mi mk_] mv] r']. cbn [fst snd] in *.
    injection Hf as -> -> ->. reflexivity.
Qed.

(* ---------------------------------------------------------------- *)
(* the theorem                                                       *)

Theorem remove_spec s t fr term key :
  Inv bits s t fr term -> bits = 8 \/ bits = 32 ->
  match t_find t key with
  | None => remove bits s key = Ok (s, None, t_log t key)
  | Some (slot, v) =>
    exists s' fr' term',
      remove bits s key = Ok (s', Some v, t_log t key) /\
      Inv bits s' (t_remove t key) fr' term' /\
      fr' = slot :: fr /\ cap s' = cap s /\ length (nodes s') = length (nodes s)
  end.
Proof.
  intros HInv Hbits. pose proof (inv_budget bits s t fr term HInv Hbits) as HB.
  pose proof HInv as [Hrep Hroot _ _ _ Hal].
  pose proof (ai_nodup _ _ _ _ _ Hal) as Hnd0. destruct (nodup_app _ _ Hnd0) as [Hnd _].
  rewrite remove_eq.
  destruct (N.eqb_spec (root s) 0) as [H0|H0].
  { rewrite Hroot in H0. rewrite (rep_idx0 _ _ Hrep H0). reflexivity. }
  rewrite (remove_descent_top s key t Hrep Hnd Hroot). cbn [bind].
  destruct (t_locate t key []) as [c tx] eqn:Hloc. cbn [fst snd].
  pose proof (t_locate_found _ _ _ _ _ Hloc) as Hf.
  destruct tx as [|l x kx vx hx r].
  - rewrite Hf. reflexivity.
  - destruct Hf as [_ Hf]. rewrite Hf.
    pose proof (located_intro s t fr term key c l x kx vx hx r HInv HB Hloc) as Hlo.
    pose proof (lo_rep _ _ _ _ _ _ _ _ _ _ _ _ Hlo) as Rtx.
    cbn [rep] in Rtx. destruct Rtx as [[n [Hn [Hnl [Hnr _]]]] [Rl Rr]].
    pose proof (getn_nonzero _ _ _ Hn) as Hxz. cbn [idx].
    destruct (N.eqb_spec x 0) as [?|_]; [contradiction|].
    rewrite Hn. cbn [bind]. rewrite Hnl, Hnr.
    rewrite (rep_idx0_iff _ l Rl), (rep_idx0_iff _ r Rr).
    assert (Hfin : forall res, remove_goal s t fr term key x vx res (t_log t key) ->
              exists s' fr' term',
                res = Ok (s', Some vx, t_log t key) /\ Inv bits s' (t_remove t key) fr' term' /\
                fr' = x :: fr /\ cap s' = cap s /\ length (nodes s') = length (nodes s)).
    { intros res [s' [H1 [H2 [H3 H4]]]]. exists s', (x :: fr), term. auto. }
    apply Hfin.
    destruct l as [|ll li lk lv lh lr].
    + cbn [negb andb]. apply (case_one s t fr term key c E x kx vx hx r _ Hlo). left. reflexivity.
    + destruct r as [|rl ri rk rv rh rr].
      * cbn [negb andb].
        apply (case_one s t fr term key c _ x kx vx hx E _ Hlo). right. reflexivity.
      * cbn [negb andb]. destruct rl as [|l3 i3 k3 v3 h3 r3].
        -- eapply (case_direct s t fr term key c _ x kx vx hx _ _ ri rk rv rh rr Hlo);
             [discriminate|reflexivity].
        -- eapply (case_deep s t fr term key c _ x kx vx hx _ _ _ ri rk rv rh rr Hlo);
             [discriminate|reflexivity|discriminate].
Qed.

End Width.

Print Assumptions remove_spec.

Corollary remove_spec_absent bits s t fr term key :
  Inv bits s t fr term -> bits = 8 \/ bits = 32 -> t_find t key = None ->
  remove bits s key = Ok (s, None, t_log t key).
Proof. intros H Hb Hf. pose proof (remove_spec bits s t fr term key H Hb) as R. rewrite Hf in R. exact R. Qed.

Corollary remove_spec_present bits s t fr term key slot v :
  Inv bits s t fr term -> bits = 8 \/ bits = 32 -> t_find t key = Some (slot, v) ->
  exists s' fr' term',
    remove bits s key = Ok (s', Some v, t_log t key) /\
    Inv bits s' (t_remove t key) fr' term' /\
    fr' = slot :: fr /\ cap s' = cap s /\ length (nodes s') = length (nodes s).
Proof. intros H Hb Hf. pose proof (remove_spec bits s t fr term key H Hb) as R. rewrite Hf in R. exact R. Qed.

Print Assumptions remove_spec_absent.
Print Assumptions remove_spec_present.

(* ---------------------------------------------------------------- *)
(* sanity: the hypotheses are satisfiable, and the two layers agree
   when both are run                                                 *)

Module LinkRemoveExample.
  (* slots = insertion order; 2 is the root *)
  Definition ns3 : list node := [mkN 0 0 0 10%Z 100%Z; mkN 1 3 1 20%Z 200%Z; mkN 0 0 0 30%Z 300%Z].
  Definition s3 : st := mkS 2 3 3 4 4 ns3.
  Definition t3 : itree := T (T E 1 10%Z 100%Z 0 E) 2 20%Z 200%Z 1 (T E 3 30%Z 300%Z 0 E).

  Example inv3 : Inv 8 s3 t3 [] 4.
  Proof.
    constructor.
    - cbn [rep t3 idx]. repeat split; eexists; (split; [reflexivity|cbn [nl nr nh nk nv]; auto]).
    - reflexivity.
    - cbn. auto.
    - cbn. repeat split; lia.
    - cbn. repeat split; lia.
    - constructor; cbn [idxs t3 app length s3 size cap flh seq nodes ns3 fchain In];
        change (lseq 8 s3) with 4; try lia; try reflexivity.
      repeat constructor; cbn [In]; intuition discriminate.
  Qed.

  (* the theorem applied: the root (two children, successor = right child) *)
  Example applied :
    exists s' fr' term',
      remove 8 s3 20 = Ok (s', Some 200%Z, t_log t3 20) /\
      Inv 8 s' (t_remove t3 20) fr' term' /\ fr' = [2] /\ cap s' = 3 /\ length (nodes s') = 3%nat.
  Proof. exact (remove_spec_present 8 s3 t3 [] 4 20%Z 2 200%Z inv3 (or_introl eq_refl) eq_refl). Qed.
  Example computed :
    remove 8 s3 20 =
    Ok (mkS 3 2 3 2 4 [mkN 0 0 0 10%Z 100%Z; mkN 0 0 4 0%Z 0%Z; mkN 1 0 1 30%Z 300%Z],
        Some 200%Z, [20; 20]%Z) /\
    t_remove t3 20 = T (T E 1 10%Z 100%Z 0 E) 3 30%Z 300%Z 1 E.
  Proof. vm_compute. auto. Qed.

  (* layer C run against layer T on larger trees: decode the array, compare *)
  Fixpoint decode (fuel : nat) (ns : list node) (i : N) : itree :=
    match fuel with
    | O => E
    | S f => if i =? 0 then E else
             match getn ns i with
             | Ok n => T (decode f ns (nl n)) i (nk n) (nv n) (nh n) (decode f ns (nr n))
             | _ => E
             end
    end.
  Definition dec (s : st) : itree := decode 20 (nodes s) (root s).
  Fixpoint teq (a b : itree) : bool :=
    match a, b with
    | E, E => true
    | T l i k v h r, T l' i' k' v' h' r' =>
      teq l l' && (i =? i') && (k =? k')%Z && (v =? v')%Z && (h =? h') && teq r r'
    | _, _ => false
    end.
  Fixpoint ins (bits : N) (s : st) (ks : list Z) : st :=
    match ks with
    | [] => s
    | k :: r => match insert bits s k (k * 10)%Z with Ok (s', _, _) => ins bits s' r | _ => s end
    end.
  (* remove the keys one after the other; at every step the decoded array
     must be t_remove of the decoded array before, the value the one t_find
     finds, the log t_log *)
  Fixpoint chk_seq (bits : N) (s : st) (ks : list Z) : bool :=
    match ks with
    | [] => true
    | k :: r =>
      match remove bits s k with
      | Ok (s', v, log) =>
        teq (dec s') (t_remove (dec s) k) &&
        match v, t_find (dec s) k with
        | Some a, Some (_, b) => (a =? b)%Z
        | None, None => true
        | _, _ => false
        end &&
        (length log =? length (t_log (dec s) k))%nat &&
        chk_seq bits s' r
      | _ => false
      end
    end.
  Definition keys33 : list Z :=
    [50;20;70;10;30;60;80;5;15;25;35;55;65;75;85;1;7;12;17;22;27;32;37;52;57;62;67;72;77;82;87;90;33]%Z.
  Definition s33 (bits : N) : st := ins bits (init_c 40 40) keys33.
  (* removal orders exercising: leaves, one child, two children with the
     successor directly below / deeper, the root, absent keys, single and
     double rotations on the way up *)
  Example agree_u8_a : chk_seq 8 (s33 8) keys33 = true.
  Proof. vm_compute. reflexivity. Qed.
  Example agree_u8_b : chk_seq 8 (s33 8) (rev keys33 ++ [1; 2; 3]%Z) = true.
  Proof. vm_compute. reflexivity. Qed.
  Example agree_u8_c :
    chk_seq 8 (s33 8) [50;52;55;57;60;99;62;65;67;70;20;22;25;10;30;1;5;7;12;15;17;90;87;85;82;80;77;75;72;27;32;33;35;37]%Z
    = true.
  Proof. vm_compute. reflexivity. Qed.
  Example agree_u32_a : chk_seq 32 (s33 32) keys33 = true.
  Proof. vm_compute. reflexivity. Qed.
  Example agree_u32_c :
    chk_seq 32 (s33 32) [50;52;55;57;60;99;62;65;67;70;20;22;25;10;30;1;5;7;12;15;17;90;87;85;82;80;77;75;72;27;32;33;35;37]%Z
    = true.
  Proof. vm_compute. reflexivity. Qed.
End LinkRemoveExample.

Print Assumptions LinkRemoveExample.applied.
