(* The slot allocator of the AVL trees (free list threaded through the HEIGHT
   register + bump cursor [seq]), independently of the shape of the tree. *)
From Coq Require Import List NArith ZArith Bool Lia ZifyBool Permutation.
From Stevia Require Import Base.Res Avl.Impl Avl.Tree Avl.Rep Avl.Spec.
Import ListNotations.
Open Scope N_scope.

Arguments N.add : simpl never.
Arguments N.sub : simpl never.
Arguments N.mul : simpl never.
Arguments N.pow : simpl never.
Arguments N.modulo : simpl never.
Arguments N.eqb : simpl never.
Arguments N.ltb : simpl never.
Arguments N.leb : simpl never.
Arguments N.max : simpl never.
Arguments Z.add : simpl never.
Arguments Z.sub : simpl never.
Arguments Z.ltb : simpl never.
Arguments Z.eqb : simpl never.

(* ---- list helpers ---- *)
Lemma nodup_app_intro {A} (a b : list A) :
  NoDup a -> NoDup b -> (forall y, In y a -> ~ In y b) -> NoDup (a ++ b).
Proof.
  induction a as [|z a IH]; cbn [app]; intros Ha Hb Hd; [assumption|].
  inversion Ha as [|? ? Hz Ha']; subst. constructor.
  - rewrite in_app_iff. intros [H|H]; [contradiction|]. apply (Hd z); [left; reflexivity|assumption].
  - apply IH; auto. intros y Hy. apply Hd. right. assumption.
Qed.

Lemma perm_remove (i : N) (l : list N) :
  NoDup l -> In i l -> Permutation l (i :: List.remove N.eq_dec i l).
Proof.
  induction l as [|a l IH]; intros Hnd Hin; [destruct Hin|].
  inversion Hnd as [|? ? Ha Hl]; subst.
  cbn [List.remove]. destruct (N.eq_dec i a) as [->|Hne].
  - rewrite notin_remove by assumption. reflexivity.
  - destruct Hin as [->|Hin]; [congruence|].
    etransitivity; [apply perm_skip, IH; assumption|]. apply perm_swap.
Qed.

(* the slots a, a+1, ..., a+cnt-1 *)
Fixpoint nseq (a : N) (cnt : nat) : list N :=
  match cnt with O => [] | S c => a :: nseq (a + 1) c end.

Lemma nseq_in cnt : forall a x, In x (nseq a cnt) <-> a <= x /\ x < a + N.of_nat cnt.
Proof.
  induction cnt as [|c IH]; intros a x; cbn [nseq In]; [lia|].
  rewrite IH. lia.
Qed.
Lemma nseq_length cnt : forall a, length (nseq a cnt) = cnt.
Proof. induction cnt as [|c IH]; intros a; cbn [nseq length]; [reflexivity|]. rewrite IH. reflexivity. Qed.
Lemma nseq_nodup cnt : forall a, NoDup (nseq a cnt).
Proof.
  induction cnt as [|c IH]; intros a; cbn [nseq]; constructor; [|apply IH].
  rewrite nseq_in. lia.
Qed.

Lemma getn_repeat0 m j : 1 <= j -> j <= N.of_nat m -> getn (repeat node0 m) j = Ok node0.
Proof.
  intros H1 H2. unfold getn. destruct (N.eqb_spec j 0) as [?|_]; [lia|].
  rewrite nth_error_repeat by lia. reflexivity.
Qed.

Lemma getn_app_l ns ext j : j <= N.of_nat (length ns) -> getn (ns ++ ext) j = getn ns j.
Proof.
  intros H. unfold getn. destruct (N.eqb_spec j 0) as [?|Hnz]; [reflexivity|].
  rewrite nth_error_app1 by lia. reflexivity.
Qed.
Lemma getn_app_r ns ext j :
  N.of_nat (length ns) < j -> getn (ns ++ ext) j = getn ext (j - N.of_nat (length ns)).
Proof.
  intros H. unfold getn. destruct (N.eqb_spec j 0) as [?|Hnz]; [lia|].
  destruct (N.eqb_spec (j - N.of_nat (length ns)) 0) as [?|_]; [lia|].
  rewrite nth_error_app2 by lia.
  replace (N.to_nat (j - 1) - length ns)%nat with (N.to_nat (j - N.of_nat (length ns) - 1)) by lia.
  reflexivity.
Qed.

Section Width.
Variable bits : N.

Lemma cadd_ok a b : a + b < 2 ^ bits -> cadd bits a b = Ok (a + b).
Proof. intros H. unfold cadd, wmax. destruct (N.ltb_spec (a + b) (2 ^ bits)); [reflexivity|lia]. Qed.
Lemma csub_ok a b : b <= a -> csub a b = Ok (a - b).
Proof. intros H. unfold csub. destruct (N.leb_spec b a); [reflexivity|lia]. Qed.

(* the logical cursor: the u8 tree's cursor wraps to 0 when all 255 slots
   have been handed out *)
Definition lseqv (q : N) : N := if (q =? 0) && (bits =? 8) then 2 ^ bits else q.
Definition lseq (s : st) : N := lseqv (seq s).

Lemma lseqv_small q : 1 <= lseqv q -> lseqv q < 2 ^ bits -> lseqv q = q /\ 1 <= q.
Proof.
  unfold lseqv. destruct (N.eqb_spec q 0) as [->|Hq]; destruct (N.eqb_spec bits 8) as [Hb|Hb];
    cbn [andb]; lia.
Qed.
Lemma lseqv_ne q x : 1 <= x -> x < lseqv q -> x <> q.
Proof.
  unfold lseqv. destruct (N.eqb_spec q 0) as [->|Hq]; destruct (N.eqb_spec bits 8) as [Hb|Hb];
    cbn [andb]; lia.
Qed.

Lemma pow_pos_bits : 0 < 2 ^ bits.
Proof. assert (2 ^ bits <> 0) by (apply N.pow_nonzero; lia). lia. Qed.

Lemma seq_succ_ok a :
  a + 1 <= 2 ^ bits -> (bits <> 8 -> a + 1 < 2 ^ bits) ->
  exists sq, seq_succ bits a = Ok sq /\ lseqv sq = a + 1.
Proof.
  intros H1 H2. unfold seq_succ, lseqv, wmax. destruct (N.eqb_spec bits 8) as [Hb|Hb].
  - destruct (N.eq_dec (a + 1) (2 ^ bits)) as [He|He].
    + exists 0. rewrite He, N.mod_same by (pose proof pow_pos_bits; lia).
      split; [reflexivity|]. rewrite N.eqb_refl. cbn [andb]. lia.
    + exists (a + 1). rewrite N.mod_small by lia. split; [reflexivity|].
      destruct (N.eqb_spec (a + 1) 0) as [?|_]; [lia|]. reflexivity.
  - exists (a + 1). rewrite cadd_ok by (apply H2; assumption). split; [reflexivity|].
    rewrite andb_false_r. reflexivity.
Qed.

(* following the HEIGHT register from [h] visits exactly [fr], then reads [term] *)
Fixpoint fchain (ns : list node) (h : N) (fr : list N) (term : N) : Prop :=
  match fr with
  | [] => h = term
  | x :: l => h = x /\ exists n, getn ns x = Ok n /\ fchain ns (nh n) l term
  end.

Lemma fchain_frame ns ns' fr : forall h term,
  (forall x, In x fr -> getn ns' x = getn ns x) -> fchain ns h fr term -> fchain ns' h fr term.
Proof.
  induction fr as [|x fr IH]; intros h term Hsame; cbn [fchain]; [auto|].
  intros [Hx [n [Hn Hc]]]. split; [assumption|]. exists n. split.
  - rewrite Hsame; [assumption|left; reflexivity].
  - apply IH; [|assumption]. intros y Hy. apply Hsame. right. assumption.
Qed.

Definition free_rec (ns : list node) (x : N) : Prop :=
  exists n, getn ns x = Ok n /\ nl n = 0 /\ nr n = 0 /\ nk n = 0%Z /\ nv n = 0%Z.

Record alloc_inv (s : st) (live fr : list N) (term : N) : Prop := mkAI {
  ai_nodup : NoDup (live ++ fr);
  ai_range : forall x, In x (live ++ fr) -> 1 <= x /\ x < lseq s;
  ai_count : N.of_nat (length (live ++ fr)) = lseq s - 1;
  ai_size  : size s = N.of_nat (length live);
  ai_chain : fchain (nodes s) (flh s) fr term;
  ai_term  : lseq s <= cap s -> term = seq s;
  ai_free  : forall x, In x fr -> free_rec (nodes s) x;
  ai_zero  : forall j, lseq s <= j -> j <= N.of_nat (length (nodes s)) -> getn (nodes s) j = Ok node0;
  ai_lseq1 : 1 <= lseq s;
  ai_lseq2 : lseq s <= cap s + 1;
  ai_caplen : cap s <= N.of_nat (length (nodes s));
  ai_capw  : cap s < 2 ^ bits;
  ai_capw1 : bits <> 8 -> cap s + 1 < 2 ^ bits
}.

Lemma alloc_size_le_cap s live fr term : alloc_inv s live fr term -> size s <= cap s.
Proof.
  intros H. pose proof (ai_count _ _ _ _ H) as Hc. pose proof (ai_size _ _ _ _ H) as Hs.
  pose proof (ai_lseq1 _ _ _ _ H). pose proof (ai_lseq2 _ _ _ _ H).
  rewrite app_length in Hc. lia.
Qed.

(* 5 *)
Lemma alloc_full_iff s live fr term :
  alloc_inv s live fr term -> (is_full s = true <-> size s = cap s).
Proof.
  intros H. pose proof (alloc_size_le_cap _ _ _ _ H). unfold is_full. lia.
Qed.

(* what is still available: the free list plus the unbumped slots *)
Lemma alloc_available s live fr term :
  alloc_inv s live fr term ->
  cap s - size s = N.of_nat (length fr) + (cap s + 1 - lseq s).
Proof.
  intros H. pose proof (ai_count _ _ _ _ H) as Hc. pose proof (ai_size _ _ _ _ H) as Hs.
  pose proof (ai_lseq1 _ _ _ _ H). pose proof (ai_lseq2 _ _ _ _ H).
  rewrite app_length in Hc. lia.
Qed.

(* every slot below the cursor is live or free *)
Lemma alloc_cover s live fr term x :
  alloc_inv s live fr term -> 1 <= x -> x < lseq s -> In x (live ++ fr).
Proof.
  intros H H1 H2.
  pose proof (ai_nodup _ _ _ _ H) as Hnd. pose proof (ai_count _ _ _ _ H) as Hc.
  pose proof (ai_lseq1 _ _ _ _ H) as Hl1.
  assert (Hincl : incl (nseq 1 (N.to_nat (lseq s - 1))) (live ++ fr)).
  { apply NoDup_length_incl; [assumption| |].
    - rewrite nseq_length. lia.
    - intros y Hy. apply nseq_in. apply (ai_range _ _ _ _ H) in Hy. lia. }
  apply Hincl. apply nseq_in. lia.
Qed.

(* 6 *)
Lemma alloc_frame_gen s s' live fr term :
  alloc_inv s live fr term ->
  size s' = size s -> cap s' = cap s -> flh s' = flh s -> seq s' = seq s ->
  length (nodes s') = length (nodes s) ->
  (forall j, In j fr \/ lseq s <= j -> getn (nodes s') j = getn (nodes s) j) ->
  alloc_inv s' live fr term.
Proof.
  intros H Hsz Hcap Hflh Hseq Hlen Hsame.
  assert (Hls : lseq s' = lseq s) by (unfold lseq; rewrite Hseq; reflexivity).
  destruct H as [Hnd Hrg Hcnt Hsize Hch Htm Hfr Hz Hl1 Hl2 Hcl Hcw Hcw1].
  constructor; rewrite ?Hls, ?Hsz, ?Hcap, ?Hflh, ?Hseq, ?Hlen; auto.
  - apply (fchain_frame (nodes s)); [|assumption]. intros x Hx. apply Hsame. left. assumption.
  - intros x Hx. destruct (Hfr x Hx) as [n Hn]. exists n. rewrite Hsame; [assumption|left; assumption].
  - intros j Hj1 Hj2. rewrite Hsame; [|right; assumption]. apply Hz; assumption.
Qed.

Lemma alloc_frame s live fr term ns' :
  alloc_inv s live fr term -> length ns' = length (nodes s) ->
  (forall j, In j fr \/ lseq s <= j -> getn ns' j = getn (nodes s) j) ->
  alloc_inv (with_nodes s ns') live fr term.
Proof. intros H Hlen Hsame. eapply alloc_frame_gen; eauto. Qed.

Lemma alloc_with_root s live fr term x :
  alloc_inv s live fr term -> alloc_inv (with_root s x) live fr term.
Proof. intros H. eapply alloc_frame_gen; eauto. Qed.

(* 1 *)
Lemma alloc_initialize s0 capacity :
  (forall j, 1 <= j -> j <= N.of_nat (length (nodes s0)) -> getn (nodes s0) j = Ok node0) ->
  capacity <= N.of_nat (length (nodes s0)) -> capacity < 2 ^ bits ->
  (bits <> 8 -> capacity + 1 < 2 ^ bits) ->
  alloc_inv (initialize s0 capacity) [] [] 1.
Proof.
  intros Hz Hcl Hcw Hcw1.
  assert (Hls : lseq (initialize s0 capacity) = 1).
  { unfold lseq, lseqv, initialize. cbn [seq]. destruct (N.eqb_spec 1 0) as [?|_]; [lia|]. reflexivity. }
  constructor; rewrite ?Hls; cbn [initialize app length In size cap flh seq nodes fchain];
    auto; try lia; try tauto; try (constructor; fail).
Qed.

Lemma alloc_init capacity nrec :
  capacity <= nrec -> capacity < 2 ^ bits -> (bits <> 8 -> capacity + 1 < 2 ^ bits) ->
  alloc_inv (init_c capacity nrec) [] [] 1.
Proof.
  intros H1 H2 H3. unfold init_c. apply alloc_initialize; cbn [nodes]; auto.
  - intros j Hj1 Hj2. rewrite repeat_length in Hj2. apply getn_repeat0; lia.
  - rewrite repeat_length. lia.
Qed.

(* 2 *)
Lemma add_spec s live fr term key value :
  alloc_inv s live fr term -> size s < cap s ->
  exists s' new fr' term',
    add bits s key value = Ok (s', new) /\
    ~ In new live /\
    getn (nodes s') new = Ok (mkN 0 0 0 key value) /\
    same_outside (nodes s) (nodes s') [new] /\
    length (nodes s') = length (nodes s) /\
    root s' = root s /\ cap s' = cap s /\ size s' = size s + 1 /\
    alloc_inv s' (new :: live) fr' term' /\
    ((fr = new :: fr' /\ term' = term /\ seq s' = seq s) \/
     (fr = [] /\ fr' = [] /\ new = lseq s /\ new = seq s /\ lseq s' = lseq s + 1)).
Proof.
  intros H Hlt.
  pose proof H as [Hnd Hrg Hcnt Hsize Hch Htm Hfr Hz Hl1 Hl2 Hcl Hcw Hcw1].
  unfold add. destruct fr as [|x fr'].
  - (* bump *)
    cbn [fchain] in Hch. rewrite app_nil_r in Hcnt.
    assert (Hle : lseq s <= cap s) by lia.
    specialize (Htm Hle).
    destruct (lseqv_small (seq s)) as [Hls Hs1]; [exact Hl1|unfold lseq in Hle; lia|].
    fold (lseq s) in Hls.
    destruct (seq_succ_ok (seq s)) as [sq [Hsq Hlsq]]; [lia|intros Hb; specialize (Hcw1 Hb); lia|].
    assert (Hfs : flh s = seq s) by congruence.
    rewrite Hfs, N.eqb_refl, csub_ok by lia. cbn [bind].
    destruct (N.eqb_spec (seq s - 1) (cap s)) as [?|_]; [lia|].
    rewrite Hsq. cbn [bind with_flh with_seq nodes size].
    rewrite (Hz (seq s)) by lia. cbn [bind node0 nl nr].
    destruct (getn_in_range (nodes s) (seq s)) as [n0 Hn0]; [lia|lia|].
    destruct (setn_ok _ _ _ (mkN 0 0 0 key value) Hn0) as [ns' Hset].
    rewrite Hset. cbn [bind]. rewrite cadd_ok by lia. cbn [bind].
    assert (Hso : same_outside (nodes s) ns' [seq s]).
    { intros j Hj. eapply getn_setn_other; eauto. intros ->. apply Hj. left. reflexivity. }
    assert (Hnew : ~ In (seq s) live).
    { intros Hin. destruct (Hrg (seq s)) as [_ Hx]; [apply in_or_app; left; assumption|]. lia. }
    eexists _, (seq s), [], sq.
    split; [reflexivity|]. cbn [with_size with_nodes nodes root cap size].
    split; [assumption|]. split; [eapply getn_setn_same; eauto|]. split; [assumption|].
    split; [eapply setn_length; eauto|]. split; [reflexivity|]. split; [reflexivity|].
    split; [reflexivity|]. split.
    + match goal with |- alloc_inv ?st _ _ _ =>
        assert (Hls' : lseq st = seq s + 1) by (unfold lseq; cbn [seq with_size with_nodes with_flh with_seq]; assumption)
      end.
      constructor; rewrite ?Hls';
        cbn [size cap flh seq nodes fchain app length In with_size with_nodes with_flh with_seq];
        rewrite ?app_nil_r; cbn [length]; rewrite ?(setn_length _ _ _ _ Hset); auto; try lia.
      * constructor; [assumption|]. rewrite app_nil_r in Hnd. assumption.
      * intros y [<-|Hy]; [lia|]. destruct (Hrg y); [rewrite app_nil_r; assumption|]. lia.
      * intros j Hj1 Hj2. rewrite Hso; [apply Hz; lia|]. intros [?|[]]. lia.
    + right. repeat split; auto. unfold lseq at 1. cbn [seq with_size with_nodes with_flh with_seq]. lia.
  - (* pop *)
    cbn [fchain] in Hch. destruct Hch as [Hflh [n [Hn Hch]]].
    assert (Hxin : In x (live ++ x :: fr')) by (apply in_or_app; right; left; reflexivity).
    destruct (Hrg x Hxin) as [Hx1 Hx2].
    pose proof (lseqv_ne (seq s) x Hx1 Hx2) as Hxne.
    rewrite Hflh. destruct (N.eqb_spec x (seq s)) as [?|_]; [contradiction|].
    rewrite Hn. cbn [bind with_flh nodes size]. rewrite Hn. cbn [bind].
    destruct (Hfr x (or_introl eq_refl)) as [n' [Hn' [Hnl [Hnr _]]]].
    assert (n' = n) by congruence. subst n'. rewrite Hnl, Hnr.
    destruct (setn_ok _ _ _ (mkN 0 0 0 key value) Hn) as [ns' Hset].
    rewrite Hset. cbn [bind]. pose proof (alloc_size_le_cap _ _ _ _ H).
    rewrite cadd_ok by lia. cbn [bind].
    assert (Hso : same_outside (nodes s) ns' [x]).
    { intros j Hj. eapply getn_setn_other; eauto. intros ->. apply Hj. left. reflexivity. }
    pose proof (Permutation_middle live fr' x) as Hperm.
    assert (Hnd' : NoDup (x :: live ++ fr')) by (eapply Permutation_NoDup; [symmetry; exact Hperm|assumption]).
    apply NoDup_cons_iff in Hnd' as [Hxn Hnd''].
    rewrite in_app_iff in Hxn.
    eexists _, x, fr', term.
    split; [reflexivity|]. cbn [with_size with_nodes nodes root cap size].
    split; [tauto|]. split; [eapply getn_setn_same; eauto|]. split; [assumption|].
    split; [eapply setn_length; eauto|]. split; [reflexivity|]. split; [reflexivity|].
    split; [reflexivity|]. split.
    + match goal with |- alloc_inv ?st _ _ _ =>
        assert (Hls' : lseq st = lseq s) by reflexivity
      end.
      constructor; rewrite ?Hls'; cbn [size cap flh seq nodes with_size with_nodes with_flh with_seq];
        rewrite ?(setn_length _ _ _ _ Hset);
        auto; try lia.
      * cbn [app]. constructor; [rewrite in_app_iff; assumption|assumption].
      * intros y Hy. apply Hrg. eapply Permutation_in; [exact Hperm|exact Hy].
      * rewrite <- Hcnt. f_equal. apply (Permutation_length Hperm).
      * cbn [length]. lia.
      * apply (fchain_frame (nodes s)); [|assumption].
        intros y Hy. apply Hso. intros [<-|[]]. tauto.
      * intros y Hy. destruct (Hfr y (or_intror Hy)) as [m Hm]. exists m.
        rewrite Hso; [assumption|]. intros [<-|[]]. tauto.
      * intros j Hj1 Hj2. rewrite Hso; [apply Hz; assumption|]. intros [?|[]]. lia.
    + left. auto.
Qed.

(* 3 *)
Lemma remove_node_spec s live fr term i :
  alloc_inv s live fr term -> In i live ->
  exists n s',
    getn (nodes s) i = Ok n /\
    remove_node s i = Ok (s', Some (nv n)) /\
    getn (nodes s') i = Ok (mkN 0 0 (flh s) 0%Z 0%Z) /\
    same_outside (nodes s) (nodes s') [i] /\
    length (nodes s') = length (nodes s) /\
    root s' = root s /\ cap s' = cap s /\ seq s' = seq s /\ flh s' = i /\
    size s' + 1 = size s /\
    alloc_inv s' (List.remove N.eq_dec i live) (i :: fr) term.
Proof.
  intros H Hin.
  pose proof H as [Hnd Hrg Hcnt Hsize Hch Htm Hfr Hz Hl1 Hl2 Hcl Hcw Hcw1].
  destruct (Hrg i) as [Hi1 Hi2]; [apply in_or_app; left; assumption|].
  destruct (getn_in_range (nodes s) i) as [n Hn]; [lia|lia|].
  destruct (setn_ok _ _ _ (mkN 0 0 (flh s) 0%Z 0%Z) Hn) as [ns' Hset].
  assert (Hsz : 1 <= size s).
  { rewrite Hsize. destruct live; [destruct Hin|cbn [length]; lia]. }
  destruct (nodup_app _ _ Hnd) as [Hndl [Hndf Hdis]].
  pose proof (perm_remove i live Hndl Hin) as Hp.
  assert (Hperm : Permutation (live ++ fr) (List.remove N.eq_dec i live ++ i :: fr)).
  { etransitivity; [apply Permutation_app_tail; exact Hp|]. cbn [app]. apply Permutation_middle. }
  assert (Hso : same_outside (nodes s) ns' [i]).
  { intros j Hj. eapply getn_setn_other; eauto. intros ->. apply Hj. left. reflexivity. }
  exists n, (with_size (with_flh (with_nodes s ns') i) (size s - 1)).
  split; [assumption|]. split.
  { unfold remove_node. destruct (N.eqb_spec i 0) as [?|_]; [lia|].
    rewrite Hn. cbn [bind]. rewrite Hset. cbn [bind]. rewrite csub_ok by lia. reflexivity. }
  cbn [with_size with_flh with_nodes nodes root cap seq flh size].
  split; [eapply getn_setn_same; eauto|]. split; [assumption|].
  split; [eapply setn_length; eauto|]. split; [reflexivity|]. split; [reflexivity|].
  split; [reflexivity|]. split; [reflexivity|]. split; [lia|].
  match goal with |- alloc_inv ?st _ _ _ => assert (Hls' : lseq st = lseq s) by reflexivity end.
  constructor; rewrite ?Hls'; cbn [size cap flh seq nodes with_size with_nodes with_flh];
    rewrite ?(setn_length _ _ _ _ Hset); auto; try lia.
  - eapply Permutation_NoDup; [exact Hperm|assumption].
  - intros y Hy. apply Hrg. eapply Permutation_in; [symmetry; exact Hperm|exact Hy].
  - rewrite <- Hcnt. f_equal. symmetry. apply (Permutation_length Hperm).
  - apply Permutation_length in Hp. cbn [length] in Hp. lia.
  - cbn [fchain]. split; [reflexivity|]. eexists. split; [eapply getn_setn_same; eauto|].
    cbn [nh]. apply (fchain_frame (nodes s)); [|assumption].
    intros y Hy. apply Hso. intros [<-|[]]. apply (Hdis i Hin Hy).
  - intros y [<-|Hy].
    + eexists. split; [eapply getn_setn_same; eauto|]. cbn [nl nr nk nv]. auto.
    + destruct (Hfr y Hy) as [m Hm]. exists m. rewrite Hso; [assumption|].
      intros [<-|[]]. apply (Hdis i Hin Hy).
  - intros j Hj1 Hj2. rewrite Hso; [apply Hz; assumption|]. intros [?|[]]. lia.
Qed.

Lemma remove_node_zero s : remove_node s 0 = Ok (s, None).
Proof. reflexivity. Qed.

(* 4: from_bytes_mut *)
Lemma open_mut_same s :
  N.of_nat (length (nodes s)) <= cap s -> open_mut bits s = Ok s.
Proof.
  intros H. unfold open_mut. destruct (N.ltb_spec (cap s) (N.of_nat (length (nodes s)))); [lia|reflexivity].
Qed.

Lemma thread_loop_spec cnt : forall i ns fl fr term,
  i + N.of_nat cnt < 2 ^ bits -> i + N.of_nat cnt <= N.of_nat (length ns) ->
  (forall x, i < x -> x <= i + N.of_nat cnt -> getn ns x = Ok node0) ->
  (forall x, In x fr -> x <= i) ->
  fchain ns fl fr term ->
  exists ns' fl',
    thread_loop bits cnt i ns fl = Ok (ns', fl') /\
    length ns' = length ns /\
    fchain ns' fl' (rev (nseq (i + 1) cnt) ++ fr) term /\
    (forall x, x <= i \/ i + N.of_nat cnt < x -> getn ns' x = getn ns x) /\
    (forall x, i < x -> x <= i + N.of_nat cnt -> exists hh, getn ns' x = Ok (mkN 0 0 hh 0%Z 0%Z)) /\
    (cnt <> O -> fl' = i + N.of_nat cnt).
Proof.
  induction cnt as [|c IH]; intros i ns fl fr term Hw Hlen Hz Hfr Hch.
  - exists ns, fl. cbn [thread_loop nseq rev app]. repeat split; auto.
    + intros x Hx1 Hx2. lia.
    + congruence.
  - cbn [thread_loop]. rewrite cadd_ok by lia. cbn [bind].
    rewrite (Hz (i + 1)) by lia. cbn [bind].
    destruct (getn_in_range ns (i + 1)) as [n0 Hn0]; [lia|lia|].
    destruct (setn_ok _ _ _ (set_h node0 fl) Hn0) as [ns1 Hset]. rewrite Hset. cbn [bind].
    assert (Hso : forall x, x <> i + 1 -> getn ns1 x = getn ns x).
    { intros x Hx. eapply getn_setn_other; eauto. }
    pose proof (setn_length _ _ _ _ Hset) as Hlen1.
    destruct (IH (i + 1) ns1 (i + 1) ((i + 1) :: fr) term) as [ns' [fl' [Hth [Hlen' [Hch' [Hout [Hin Hfl]]]]]]].
    + lia.
    + lia.
    + intros x Hx1 Hx2. rewrite Hso by lia. apply Hz; lia.
    + intros x [<-|Hx]; [lia|]. specialize (Hfr x Hx). lia.
    + cbn [fchain]. split; [reflexivity|]. eexists. split; [eapply getn_setn_same; eauto|].
      cbn [set_h nh]. apply (fchain_frame ns); [|assumption].
      intros y Hy. apply Hso. specialize (Hfr y Hy). lia.
    + exists ns', fl'. split; [exact Hth|]. split; [lia|]. split; [|split; [|split]].
      * cbn [nseq rev]. rewrite <- app_assoc. exact Hch'.
      * intros x Hx. rewrite Hout by lia. apply Hso. lia.
      * intros x Hx1 Hx2. destruct (N.eq_dec x (i + 1)) as [->|Hne].
        -- rewrite Hout by lia. exists fl. eapply getn_setn_same; eauto.
        -- apply Hin; lia.
      * intros _. destruct c as [|c'].
        -- cbn [thread_loop] in Hth. injection Hth as _ <-. lia.
        -- rewrite Hfl by congruence. lia.
Qed.

Lemma open_mut_grow s live fr term :
  alloc_inv s live fr term ->
  cap s < N.of_nat (length (nodes s)) ->
  N.of_nat (length (nodes s)) + 1 < 2 ^ bits ->
  exists s' fr',
    open_mut bits s = Ok s' /\
    cap s' = N.of_nat (length (nodes s)) /\ root s' = root s /\ size s' = size s /\
    length (nodes s') = length (nodes s) /\
    (forall j, j < lseq s -> getn (nodes s') j = getn (nodes s) j) /\
    alloc_inv s' live fr' term /\
    ((seq s = flh s /\ fr = [] /\ fr' = [] /\
      s' = with_cap s (N.of_nat (length (nodes s)))) \/
     (seq s <> flh s /\
      fr' = rev (nseq (lseq s) (N.to_nat (N.of_nat (length (nodes s)) + 1 - lseq s))) ++ fr /\
      seq s' = N.of_nat (length (nodes s)) + 1 /\ flh s' = N.of_nat (length (nodes s)))).
Proof.
  intros H Hgrow Hw.
  pose proof H as [Hnd Hrg Hcnt Hsize Hch Htm Hfr Hz Hl1 Hl2 Hcl Hcw Hcw1].
  set (n := N.of_nat (length (nodes s))) in *.
  destruct (lseqv_small (seq s)) as [Hls Hs1]; [exact Hl1|unfold lseq in Hl2; lia|].
  fold (lseq s) in Hls.
  assert (Htr : trunc bits n = n) by (unfold trunc, wmax; apply N.mod_small; lia).
  unfold open_mut. fold n. destruct (N.ltb_spec (cap s) n) as [_|?]; [|lia].
  rewrite Htr. destruct (N.eqb_spec (seq s) (flh s)) as [Heq|Hne]; cbn [negb].
  - (* nothing to thread *)
    assert (Hfr0 : fr = []).
    { destruct fr as [|x fr']; [reflexivity|]. exfalso.
      cbn [fchain] in Hch. destruct Hch as [Hx _].
      destruct (Hrg x) as [_ Hx2]; [apply in_or_app; right; left; reflexivity|]. lia. }
    subst fr. cbn [fchain] in Hch.
    exists (with_cap s n), []. split; [reflexivity|].
    cbn [with_cap cap root size nodes]. do 4 (split; [reflexivity|]).
    split; [intros; reflexivity|]. split; [|left; auto].
    match goal with |- alloc_inv ?st _ _ _ => assert (Hls' : lseq st = lseq s) by reflexivity end.
    constructor; rewrite ?Hls'; cbn [size cap flh seq nodes with_cap]; fold n; auto; try lia.
  - (* thread the slots seq .. n in front of the free list *)
    rewrite csub_ok by lia. cbn [bind with_cap nodes flh root size cap].
    set (i := seq s - 1). set (cnt := N.to_nat (n - i)).
    assert (Hi : i + 1 = seq s) by (unfold i; lia).
    assert (Hc : i + N.of_nat cnt = n) by (unfold cnt, i; lia).
    destruct (thread_loop_spec cnt i (nodes s) (flh s) fr term)
      as [ns' [fl' [Hth [Hlen' [Hch' [Hout [Hin Hfl]]]]]]].
    + lia.
    + fold n. lia.
    + intros x Hx1 Hx2. apply Hz; fold n; lia.
    + intros x Hx. destruct (Hrg x) as [_ Hx2]; [apply in_or_app; right; assumption|]. lia.
    + assumption.
    + rewrite Hi in Hch'. rewrite Hfl in * by (unfold cnt, i; lia). rewrite Hc in *.
      rewrite Hth. cbn [bind]. rewrite cadd_ok by lia. cbn [bind].
      replace (N.to_nat (n + 1 - lseq s)) with cnt by (unfold cnt, i; lia).
      rewrite Hls.
      set (R := rev (nseq (seq s) cnt)) in *.
      assert (HinR : forall y, In y R <-> seq s <= y /\ y <= n).
      { intros y. unfold R. rewrite <- in_rev, nseq_in. lia. }
      assert (HlenR : length R = cnt) by (unfold R; rewrite rev_length, nseq_length; reflexivity).
      destruct (nodup_app _ _ Hnd) as [Hndl [Hndf Hdis]].
      exists (mkS (root s) (size s) n n (n + 1) ns'), (R ++ fr). split; [reflexivity|].
      cbn [cap root size nodes seq flh]. repeat (split; [auto; fail|]).
      split; [intros j Hj; apply Hout; lia|]. split; [|right; auto].
      assert (Hls' : forall r z c f ns0, lseq (mkS r z c f (n + 1) ns0) = n + 1).
      { intros. unfold lseq, lseqv. cbn [seq]. destruct (N.eqb_spec (n + 1) 0) as [?|_]; [lia|]. reflexivity. }
      constructor; rewrite ?Hls'; cbn [size cap flh seq nodes]; rewrite ?Hlen'; fold n; auto; try lia.
      * apply nodup_app_intro; [assumption| |].
        -- apply nodup_app_intro; [unfold R; apply NoDup_rev, nseq_nodup|assumption|].
           intros y Hy Hy'. apply HinR in Hy.
           destruct (Hrg y) as [_ Hy2]; [apply in_or_app; right; assumption|]. lia.
        -- intros y Hy Hy'. apply in_app_or in Hy'. destruct Hy' as [Hy'|Hy'].
           ++ apply HinR in Hy'. destruct (Hrg y) as [_ Hy2]; [apply in_or_app; left; assumption|]. lia.
           ++ apply (Hdis y Hy Hy').
      * intros y Hy. apply in_app_or in Hy. destruct Hy as [Hy|Hy].
        -- destruct (Hrg y); [apply in_or_app; left; assumption|]. lia.
        -- apply in_app_or in Hy. destruct Hy as [Hy|Hy].
           ++ apply HinR in Hy. lia.
           ++ destruct (Hrg y); [apply in_or_app; right; assumption|]. lia.
      * rewrite !app_length, HlenR. rewrite app_length in Hcnt. unfold cnt, i. lia.
      * intros y Hy. apply in_app_or in Hy. destruct Hy as [Hy|Hy].
        -- apply HinR in Hy. destruct (Hin y) as [hh Hhh]; [lia|lia|].
           eexists. split; [exact Hhh|]. cbn [nl nr nk nv]. auto.
        -- destruct (Hfr y Hy) as [m Hm]. exists m. rewrite Hout; [assumption|].
           destruct (Hrg y) as [_ Hy2]; [apply in_or_app; right; assumption|]. lia.
Qed.

(* the u8 tree may grow to exactly 2^bits - 1 records when nothing has to be
   threaded (no released slot, cursor = list head) *)
Lemma open_mut_grow_unthreaded s live fr term :
  alloc_inv s live fr term ->
  cap s < N.of_nat (length (nodes s)) ->
  N.of_nat (length (nodes s)) < 2 ^ bits ->
  (bits <> 8 -> N.of_nat (length (nodes s)) + 1 < 2 ^ bits) ->
  seq s = flh s ->
  fr = [] /\
  open_mut bits s = Ok (with_cap s (N.of_nat (length (nodes s)))) /\
  alloc_inv (with_cap s (N.of_nat (length (nodes s)))) live [] term.
Proof.
  intros H Hgrow Hw Hw1 Heq.
  pose proof H as [Hnd Hrg Hcnt Hsize Hch Htm Hfr Hz Hl1 Hl2 Hcl Hcw Hcw1].
  set (n := N.of_nat (length (nodes s))) in *.
  destruct (lseqv_small (seq s)) as [Hls Hs1]; [exact Hl1|unfold lseq in Hl2; lia|].
  fold (lseq s) in Hls.
  assert (Htr : trunc bits n = n) by (unfold trunc, wmax; apply N.mod_small; lia).
  assert (Hfr0 : fr = []).
  { destruct fr as [|x fr']; [reflexivity|]. exfalso.
    cbn [fchain] in Hch. destruct Hch as [Hx _].
    destruct (Hrg x) as [_ Hx2]; [apply in_or_app; right; left; reflexivity|]. lia. }
  subst fr. cbn [fchain] in Hch. split; [reflexivity|]. split.
  - unfold open_mut. fold n. destruct (N.ltb_spec (cap s) n) as [_|?]; [|lia].
    rewrite Htr, Heq, N.eqb_refl. reflexivity.
  - match goal with |- alloc_inv ?st _ _ _ => assert (Hls' : lseq st = lseq s) by reflexivity end.
    constructor; rewrite ?Hls'; cbn [size cap flh seq nodes with_cap]; fold n; auto; try lia.
Qed.

(* in both cases exactly the added records become available *)
Lemma open_mut_grow_available s s' :
  cap s' = N.of_nat (length (nodes s)) -> size s' = size s -> size s <= cap s ->
  cap s <= N.of_nat (length (nodes s)) ->
  cap s' - size s' = cap s - size s + (N.of_nat (length (nodes s)) - cap s).
Proof. intros. lia. Qed.

(* extending the buffer by zero-filled records keeps the invariant *)
Lemma alloc_ext s live fr term k :
  alloc_inv s live fr term -> alloc_inv (ext_nodes s k) live fr term.
Proof.
  intros H.
  pose proof H as [Hnd Hrg Hcnt Hsize Hch Htm Hfr Hz Hl1 Hl2 Hcl Hcw Hcw1].
  assert (Hls' : lseq (ext_nodes s k) = lseq s) by reflexivity.
  assert (Hlow : forall x, x < lseq s -> getn (nodes s ++ repeat node0 (N.to_nat k)) x = getn (nodes s) x).
  { intros x Hx. apply getn_app_l. lia. }
  constructor; rewrite ?Hls'; unfold ext_nodes; cbn [size cap flh seq nodes with_nodes]; auto.
  - apply (fchain_frame (nodes s)); [|assumption]. intros x Hx. apply Hlow.
    apply (Hrg x). apply in_or_app. right. assumption.
  - intros x Hx. destruct (Hfr x Hx) as [m Hm]. exists m. rewrite Hlow; [assumption|].
    apply (Hrg x). apply in_or_app. right. assumption.
  - intros j Hj1 Hj2. rewrite app_length, repeat_length in Hj2.
    destruct (N.le_gt_cases j (N.of_nat (length (nodes s)))) as [Hle|Hgt].
    + rewrite getn_app_l by assumption. apply Hz; assumption.
    + rewrite getn_app_r by assumption. apply getn_repeat0; lia.
  - rewrite app_length. lia.
Qed.

End Width.

(* ---- the invariant is satisfiable, at both widths ---- *)
Example alloc_init_u8 : alloc_inv 8 (init_c 255 255) [] [] 1.
Proof. apply alloc_init; [lia|reflexivity|congruence]. Qed.
Example alloc_init_u32 : alloc_inv 32 (init_c 1000 1200) [] [] 1.
Proof. apply alloc_init; [lia|reflexivity|intros _; reflexivity]. Qed.

(* ---- behaviour of the model at the edges of the hypotheses of
   [open_mut_grow] (witnesses) ---- *)
Definition hdr (r : res st) : res (N * N * N * N * N * nat) :=
  match r with
  | Ok s => Ok (root s, size s, cap s, flh s, seq s, length (nodes s))
  | Panic p => Panic p | Fuel => Fuel
  end.

(* u8: growing to exactly 255 records panics (checked `len as u8 + 1`) when a
   slot has been released (free list threaded), ... *)
Example u8_grow_to_255_threaded_panics :
  run_c 8 (init_c 2 2) [OInsert 1 1; OInsert 2 2; ORemove 1; OExt 253; OOpenMut]%Z =
  [Ok (RSlot (Some 1)); Ok (RSlot (Some 2)); Ok (RVal (Some 1%Z)); Ok RUnit; Panic PArith].
Proof. vm_compute. reflexivity. Qed.
(* ... and succeeds when nothing has been released *)
Example u8_grow_to_255_unthreaded_ok :
  hdr (final_c 8 (init_c 2 2) [OInsert 1 1; OInsert 2 2; OExt 253; OOpenMut]%Z) =
  Ok (1, 2, 255, 3, 3, 255%nat).
Proof. vm_compute. reflexivity. Qed.
(* u8: a buffer of 256 records truncates the capacity to 0 *)
Example u8_grow_to_256_capacity_0 :
  run_c 8 (init_c 255 255) [OExt 1; OOpenMut; OIsFull; OCapacity; OInsert 1 1]%Z =
  [Ok RUnit; Ok RUnit; Ok (RBool true); Ok (RNum 0); Ok (RSlot None)].
Proof. vm_compute. reflexivity. Qed.

Print Assumptions alloc_init.
Print Assumptions alloc_initialize.
Print Assumptions add_spec.
Print Assumptions remove_node_spec.
Print Assumptions open_mut_same.
Print Assumptions open_mut_grow.
Print Assumptions open_mut_grow_unthreaded.
Print Assumptions open_mut_grow_available.
Print Assumptions alloc_full_iff.
Print Assumptions alloc_frame.
Print Assumptions alloc_frame_gen.
Print Assumptions alloc_with_root.
Print Assumptions alloc_ext.
Print Assumptions alloc_available.
Print Assumptions alloc_cover.
Print Assumptions alloc_size_le_cap.
