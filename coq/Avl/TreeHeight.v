(* Layer T theory, part 3: the height bound of AVL trees (C06). *)
From Coq Require Import List NArith ZArith Lia.
From Stevia Require Import Avl.Tree Avl.TreeInv.
Import ListNotations.
Open Scope N_scope.
Arguments N.add : simpl never. Arguments N.sub : simpl never. Arguments N.max : simpl never.
Arguments N.mul : simpl never. Arguments N.div : simpl never. Arguments N.pow : simpl never.

(* least number of nodes of an AVL tree with h levels (Fibonacci-like) *)
Fixpoint minnodes (h : nat) : N :=
  match h with
  | O => 0
  | S O => 1
  | S (S h' as h1) => minnodes h1 + minnodes h' + 1
  end.

Lemma minnodes_0 : minnodes 0 = 0. Proof. reflexivity. Qed.
Lemma minnodes_1 : minnodes 1 = 1. Proof. reflexivity. Qed.
Lemma minnodes_SS n : minnodes (S (S n)) = minnodes (S n) + minnodes n + 1.
Proof. reflexivity. Qed.

(* strictly monotone (from 0 on, hence from 1 on) *)
Lemma minnodes_S_lt n : minnodes n < minnodes (S n).
Proof. destruct n as [|n]; [rewrite minnodes_0, minnodes_1; lia|]. rewrite minnodes_SS. lia. Qed.
Lemma minnodes_mono n m : (n <= m)%nat -> minnodes n <= minnodes m.
Proof.
  induction 1 as [|m Hle IH]; [lia|]. pose proof (minnodes_S_lt m). lia.
Qed.
Lemma minnodes_strict n m : (n < m)%nat -> minnodes n < minnodes m.
Proof.
  intros H. pose proof (minnodes_S_lt n). pose proof (minnodes_mono (S n) m H). lia.
Qed.
Lemma minnodes_strict_from_1 n m : (1 <= n)%nat -> (n < m)%nat -> minnodes n < minnodes m.
Proof. intros _. apply minnodes_strict. Qed.
Lemma minnodes_inj_le n m : minnodes n <= minnodes m -> (n <= m)%nat.
Proof.
  intros H. destruct (Nat.le_gt_cases n m) as [Hle|Hgt]; [exact Hle|].
  pose proof (minnodes_strict m n Hgt). lia.
Qed.

Lemma minnodes_node a b :
  (a <= b + 1)%nat -> (b <= a + 1)%nat ->
  minnodes (S (Nat.max a b)) <= 1 + minnodes a + minnodes b.
Proof.
  intros H1 H2. destruct (Nat.le_ge_cases a b) as [Hab|Hab].
  - rewrite Nat.max_r by assumption. destruct b as [|b'].
    + rewrite minnodes_1. lia.
    + rewrite minnodes_SS. assert (Hm : minnodes b' <= minnodes a) by (apply minnodes_mono; lia). lia.
  - rewrite Nat.max_l by assumption. destruct a as [|a'].
    + rewrite minnodes_1. lia.
    + rewrite minnodes_SS. assert (Hm : minnodes a' <= minnodes b) by (apply minnodes_mono; lia). lia.
Qed.

(* an AVL tree with [levels t] levels has at least [minnodes (levels t)] nodes;
   [hok] is not needed: [avl] speaks about the real level counts *)
Theorem avl_height_bound t : avl t -> minnodes (N.to_nat (levels t)) <= tsize t.
Proof.
  induction t as [|l IHl i k v h r IHr]; cbn [avl levels tsize]; [intros _; change (N.to_nat 0) with O; rewrite minnodes_0; lia|].
  intros (B1 & B2 & Al & Ar). specialize (IHl Al). specialize (IHr Ar).
  replace (N.to_nat (1 + N.max (levels l) (levels r)))
    with (S (Nat.max (N.to_nat (levels l)) (N.to_nat (levels r)))) by lia.
  assert (Hn := minnodes_node (N.to_nat (levels l)) (N.to_nat (levels r))).
  assert (Hn' : minnodes (S (Nat.max (N.to_nat (levels l)) (N.to_nat (levels r)))) <=
                1 + minnodes (N.to_nat (levels l)) + minnodes (N.to_nat (levels r)))
    by (apply Hn; clear - B1 B2; lia).
  clear - Hn' IHl IHr. lia.
Qed.

(* closed form: the number of nodes is exponential in the number of levels *)
Lemma minnodes_double h : 2 * (minnodes h + 1) <= minnodes (S (S h)) + 1.
Proof. rewrite minnodes_SS. pose proof (minnodes_S_lt h). lia. Qed.

Lemma half_SS h : N.of_nat (S (S h)) / 2 = N.of_nat h / 2 + 1.
Proof.
  replace (N.of_nat (S (S h))) with (N.of_nat h + 1 * 2) by lia.
  apply N.div_add. lia.
Qed.

Theorem minnodes_closed h : 2 ^ (N.of_nat h / 2) <= minnodes h + 1.
Proof.
  assert (H : 2 ^ (N.of_nat h / 2) <= minnodes h + 1 /\
              2 ^ (N.of_nat (S h) / 2) <= minnodes (S h) + 1).
  { induction h as [|h [IH1 IH2]].
    - split; vm_compute; discriminate.
    - split; [exact IH2|]. rewrite half_SS, N.pow_add_r, N.pow_1_r.
      pose proof (minnodes_double h). lia. }
  exact (proj1 H).
Qed.

Corollary avl_size_exp t : avl t -> 2 ^ (levels t / 2) <= tsize t + 1.
Proof.
  intros Ha. pose proof (avl_height_bound t Ha) as Hb.
  pose proof (minnodes_closed (N.to_nat (levels t))) as Hc. rewrite N2Nat.id in Hc. lia.
Qed.

(* linear-time computation of minnodes *)
Fixpoint mn_iter (h : nat) (a b : N) : N :=
  match h with O => a | S h' => mn_iter h' b (a + b + 1) end.
Lemma mn_iter_spec h : forall n, mn_iter h (minnodes n) (minnodes (S n)) = minnodes (h + n).
Proof.
  induction h as [|h IH]; intros n; [reflexivity|]. cbn [mn_iter].
  replace (minnodes n + minnodes (S n) + 1) with (minnodes (S (S n))) by (rewrite minnodes_SS; lia).
  rewrite IH. f_equal. lia.
Qed.
Lemma minnodes_iter h : minnodes h = mn_iter h 0 1.
Proof.
  pose proof (mn_iter_spec h 0) as H. rewrite minnodes_0, minnodes_1, Nat.add_0_r in H. symmetry. exact H.
Qed.

(* the generic corollary: fewer nodes than minnodes n  ==>  fewer than n levels *)
Lemma avl_levels_lt t n : avl t -> tsize t < minnodes n -> levels t < N.of_nat n.
Proof.
  intros Ha Hs. destruct (N.lt_ge_cases (levels t) (N.of_nat n)) as [Hlt|Hge]; [exact Hlt|].
  pose proof (avl_height_bound t Ha) as Hb.
  assert (Hm : minnodes n <= minnodes (N.to_nat (levels t))) by (apply minnodes_mono; lia).
  lia.
Qed.

Lemma minnodes_11 : minnodes 11 = 232. Proof. rewrite minnodes_iter. vm_compute. reflexivity. Qed.
Lemma minnodes_12 : minnodes 12 = 376. Proof. rewrite minnodes_iter. vm_compute. reflexivity. Qed.
Lemma minnodes_13 : minnodes 13 = 609. Proof. rewrite minnodes_iter. vm_compute. reflexivity. Qed.
Lemma minnodes_45 : minnodes 45 = 2971215072. Proof. rewrite minnodes_iter. vm_compute. reflexivity. Qed.
Lemma minnodes_46 : minnodes 46 = 4807526975. Proof. rewrite minnodes_iter. vm_compute. reflexivity. Qed.
Lemma minnodes_47 : minnodes 47 = 7778742048. Proof. rewrite minnodes_iter. vm_compute. reflexivity. Qed.

(* 8-bit node counts: at most 11 levels (minnodes 12 = 376 > 255; an AVL tree
   with 11 levels and 232 nodes exists, so this is tight) *)
Theorem avl_levels_u8_tight t : avl t -> tsize t < 256 -> levels t <= 11.
Proof.
  intros Ha Hs. assert (H : levels t < N.of_nat 12); [|lia].
  apply avl_levels_lt; [exact Ha|]. rewrite minnodes_12. lia.
Qed.
Theorem avl_levels_u8 t : avl t -> tsize t < 256 -> levels t <= 12.
Proof. intros Ha Hs. pose proof (avl_levels_u8_tight t Ha Hs). lia. Qed.

(* 32-bit node counts: at most 45 levels (minnodes 46 = 4807526975 >= 2^32,
   minnodes 45 = 2971215072 < 2^32) *)
Theorem avl_levels_u32_tight t : avl t -> tsize t < 2 ^ 32 -> levels t <= 45.
Proof.
  intros Ha Hs. assert (H : levels t < N.of_nat 46); [|lia].
  apply avl_levels_lt; [exact Ha|]. rewrite minnodes_46.
  change (2 ^ 32) with 4294967296 in Hs. lia.
Qed.
Theorem avl_levels_u32 t : avl t -> tsize t < 2 ^ 32 -> levels t <= 46.
Proof. intros Ha Hs. pose proof (avl_levels_u32_tight t Ha Hs). lia. Qed.

(* the bounds are tight: the sparsest AVL trees ("Fibonacci trees") *)
Fixpoint fibtree (h : nat) : itree :=
  match h with
  | O => E
  | S O => T E 0 0 0 0 E
  | S (S h' as h1) => T (fibtree h1) 0 0 0 (N.of_nat h1) (fibtree h')
  end.
Lemma fibtree_SS h : fibtree (S (S h)) = T (fibtree (S h)) 0 0 0 (N.of_nat (S h)) (fibtree h).
Proof. reflexivity. Qed.
Lemma fibtree_spec h :
  (levels (fibtree h) = N.of_nat h /\ tsize (fibtree h) = minnodes h /\ avl (fibtree h)) /\
  (levels (fibtree (S h)) = N.of_nat (S h) /\ tsize (fibtree (S h)) = minnodes (S h) /\ avl (fibtree (S h))).
Proof.
  induction h as [|h [(L1 & S1 & A1) (L2 & S2 & A2)]].
  - split; (split; [reflexivity|split; [reflexivity|]]); cbn [fibtree avl levels]; [exact I|].
    repeat split; lia.
  - split; [repeat split; assumption|].
    rewrite fibtree_SS. cbn [levels tsize avl]. rewrite L1, L2, S1, S2, minnodes_SS.
    repeat split; try assumption; lia.
Qed.
Lemma fibtree_tight_u8 : avl (fibtree 11) /\ tsize (fibtree 11) < 256 /\ levels (fibtree 11) = 11.
Proof.
  destruct (fibtree_spec 11) as [(L & S & A) _]. rewrite S, L, minnodes_11. split; [exact A|]. split; [lia|reflexivity].
Qed.
