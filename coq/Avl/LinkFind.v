(* The read-only descents of layer C against layer T: find / get / contains /
   lowest / get_mut, and the search phases of insert and remove expressed as
   context decompositions. *)
From Coq Require Import List NArith ZArith Bool Lia ZifyBool.
From Stevia Require Import Base.Res Avl.Impl Avl.Tree Avl.Rep.
Import ListNotations.
Open Scope N_scope.

Arguments N.add : simpl never.
Arguments N.sub : simpl never.
Arguments N.mul : simpl never.
Arguments N.eqb : simpl never.
Arguments N.ltb : simpl never.
Arguments N.leb : simpl never.
Arguments N.max : simpl never.
Arguments Z.add : simpl never.
Arguments Z.sub : simpl never.
Arguments Z.ltb : simpl never.
Arguments Z.gtb : simpl never.
Arguments Z.eqb : simpl never.

(* ------------------------------------------------------------------ *)
(* depth, node count, fuel                                             *)

Fixpoint depth (t : itree) : nat :=
  match t with E => O | T l _ _ _ _ r => S (Nat.max (depth l) (depth r)) end.

Lemma depth_le_idxs t : (depth t <= length (idxs t))%nat.
Proof.
  induction t as [|l IHl i k v h r IHr]; cbn [depth idxs]; [lia|].
  rewrite app_length. cbn [length]. lia.
Qed.

Lemma depth_levels t : N.of_nat (depth t) = levels t.
Proof.
  induction t as [|l IHl i k v h r IHr]; cbn [depth levels]; [reflexivity|]. lia.
Qed.

(* pigeonhole: distinct slots in [1, length ns] *)
Lemma rep_count ns t : rep ns t -> NoDup (idxs t) -> (length (idxs t) <= length ns)%nat.
Proof.
  intros Hrep Hnd.
  set (all := map (fun n => N.of_nat (S n)) (List.seq 0 (length ns))).
  assert (Hlen : length all = length ns) by (unfold all; rewrite map_length, seq_length; reflexivity).
  rewrite <- Hlen. apply NoDup_incl_length; [assumption|].
  intros j Hj. destruct (rep_idxs_range ns t j Hrep Hj) as [H1 H2].
  unfold all. apply in_map_iff. exists (N.to_nat (j - 1)). split; [lia|].
  apply in_seq. lia.
Qed.

Lemma fuel_enough s t : rep (nodes s) t -> NoDup (idxs t) -> (depth t < fuel_of s)%nat.
Proof.
  intros Hrep Hnd. unfold fuel_of.
  pose proof (rep_count _ _ Hrep Hnd). pose proof (depth_le_idxs t). lia.
Qed.

(* ------------------------------------------------------------------ *)
(* small facts                                                         *)

Lemma rep_root_getn ns l i k v h r :
  rep ns (T l i k v h r) ->
  exists n, getn ns i = Ok n /\ nl n = idx l /\ nr n = idx r /\ nh n = h /\ nk n = k /\ nv n = v.
Proof. cbn [rep]. intros [H _]. exact H. Qed.

Lemma rep_sub_l ns l i k v h r : rep ns (T l i k v h r) -> rep ns l.
Proof. cbn [rep]. tauto. Qed.
Lemma rep_sub_r ns l i k v h r : rep ns (T l i k v h r) -> rep ns r.
Proof. cbn [rep]. tauto. Qed.

Lemma t_find_in t key i v : t_find t key = Some (i, v) -> In i (idxs t).
Proof.
  induction t as [|l IHl j k w h r IHr]; cbn [t_find idxs]; [discriminate|].
  destruct (key <? k)%Z.
  - intros H. apply in_or_app. left. auto.
  - destruct (k <? key)%Z.
    + intros H. apply in_or_app. right. right. auto.
    + intros [= <- <-]. apply in_or_app. right. left. reflexivity.
Qed.

Lemma t_find_holds ns t key i v :
  rep ns t -> t_find t key = Some (i, v) ->
  exists n, getn ns i = Ok n /\ nk n = key /\ nv n = v.
Proof.
  induction t as [|l IHl j k w h r IHr]; cbn [t_find rep]; [discriminate|].
  intros [[n [Hn [_ [_ [_ [Hk Hv]]]]]] [Hl Hr]].
  destruct (Z.ltb_spec key k) as [H1|H1]; [auto|].
  destruct (Z.ltb_spec k key) as [H2|H2]; [auto|].
  intros [= <- <-]. exists n. repeat split; auto. lia.
Qed.

(* ------------------------------------------------------------------ *)
(* 1. find / get / contains                                            *)

Lemma find_loop_spec ns t : forall fuel key log,
  rep ns t -> (depth t < fuel)%nat ->
  find_loop fuel ns key (idx t) log = Ok (option_map fst (t_find t key), log ++ t_log t key).
Proof.
  induction t as [|l IHl i k v h r IHr]; intros fuel key log Hrep Hf.
  - destruct fuel as [|f]; [cbn [depth] in Hf; lia|].
    cbn [find_loop idx t_find t_log option_map]. rewrite app_nil_r. reflexivity.
  - destruct fuel as [|f]; [lia|]. cbn [depth] in Hf.
    destruct (rep_root_getn _ _ _ _ _ _ _ Hrep) as [n [Hn [Hl [Hr [_ [Hk _]]]]]].
    pose proof (getn_nonzero _ _ _ Hn) as Hnz.
    cbn [find_loop idx t_find t_log]. destruct (N.eqb_spec i 0) as [?|_]; [contradiction|].
    rewrite Hn. cbn [bind]. rewrite Hk, Hl, Hr. rewrite Z.gtb_ltb.
    destruct (key <? k)%Z.
    + rewrite IHl; [|eapply rep_sub_l; eauto|lia]. rewrite <- app_assoc. reflexivity.
    + destruct (k <? key)%Z.
      * rewrite IHr; [|eapply rep_sub_r; eauto|lia]. rewrite <- app_assoc. reflexivity.
      * reflexivity.
Qed.

Lemma find_spec s t key :
  rep (nodes s) t -> NoDup (idxs t) -> root s = idx t ->
  find s key = Ok (option_map fst (t_find t key), t_log t key).
Proof.
  intros Hrep Hnd Hroot. unfold find. rewrite Hroot.
  rewrite (find_loop_spec _ t); auto. apply fuel_enough; auto.
Qed.

Lemma get_spec s t key :
  rep (nodes s) t -> NoDup (idxs t) -> root s = idx t ->
  get s key = Ok (option_map snd (t_find t key), t_log t key).
Proof.
  intros Hrep Hnd Hroot. unfold get. rewrite (find_spec s t); auto. cbn [bind].
  destruct (t_find t key) as [[i v]|] eqn:Hfind; cbn [option_map fst snd]; [|reflexivity].
  destruct (t_find_holds _ _ _ _ _ Hrep Hfind) as [n [Hn [_ Hv]]].
  rewrite Hn. cbn [bind]. rewrite Hv. reflexivity.
Qed.

Lemma contains_spec s t key :
  rep (nodes s) t -> NoDup (idxs t) -> root s = idx t ->
  contains s key =
  Ok (match t_find t key with Some _ => true | None => false end, t_log t key).
Proof.
  intros Hrep Hnd Hroot. unfold contains. rewrite (find_spec s t); auto. cbn [bind].
  destruct (t_find t key); reflexivity.
Qed.

(* ------------------------------------------------------------------ *)
(* 2. lowest                                                           *)

Lemma lowest_loop_spec ns l : forall fuel i k v h r,
  rep ns (T l i k v h r) -> (depth (T l i k v h r) < fuel)%nat ->
  exists j n, lowest_loop fuel ns i = Ok j /\ getn ns j = Ok n /\
              t_lowest (T l i k v h r) = Some (nk n).
Proof.
  induction l as [|ll IHll li lk lv lh lr _]; intros fuel i k v h r Hrep Hf;
    (destruct fuel as [|f]; [lia|]);
    destruct (rep_root_getn _ _ _ _ _ _ _ Hrep) as [n [Hn [Hl [_ [_ [Hk _]]]]]].
  - exists i, n. cbn [lowest_loop]. rewrite Hn. cbn [bind]. rewrite Hl. cbn [idx t_lowest].
    rewrite N.eqb_refl, Hk. auto.
  - pose proof (rep_sub_l _ _ _ _ _ _ _ Hrep) as Hrl.
    cbn [depth] in Hf.
    destruct (IHll f li lk lv lh lr Hrl) as [j [m [Hj [Hm Hlow]]]]; [cbn [depth]; lia|].
    exists j, m. cbn [lowest_loop]. rewrite Hn. cbn [bind]. rewrite Hl. cbn [idx].
    pose proof (rep_idx_nz _ _ _ _ _ _ _ Hrl) as Hnz.
    destruct (N.eqb_spec li 0) as [?|_]; [contradiction|].
    split; [exact Hj|]. split; [exact Hm|]. exact Hlow.
Qed.

Lemma lowest_spec s t :
  rep (nodes s) t -> NoDup (idxs t) -> root s = idx t -> lowest s = Ok (t_lowest t).
Proof.
  intros Hrep Hnd Hroot. unfold lowest. rewrite Hroot.
  destruct t as [|l i k v h r].
  - reflexivity.
  - pose proof (rep_idx_nz _ _ _ _ _ _ _ Hrep) as Hnz. cbn [idx].
    destruct (N.eqb_spec i 0) as [?|_]; [contradiction|].
    destruct (lowest_loop_spec _ l (fuel_of s) i k v h r Hrep) as [j [n [Hj [Hn Hlow]]]].
    { apply fuel_enough; auto. }
    rewrite Hj. cbn [bind]. rewrite Hn. cbn [bind]. rewrite Hlow. reflexivity.
Qed.

(* ------------------------------------------------------------------ *)
(* 3. get_mut followed by a write                                      *)

Lemma t_update_idx t key v' : idx (t_update t key v') = idx t.
Proof.
  destruct t as [|l i k v h r]; cbn [t_update idx]; [reflexivity|].
  destruct (key <? k)%Z; [reflexivity|]. destruct (k <? key)%Z; reflexivity.
Qed.
Lemma t_update_idxs t key v' : idxs (t_update t key v') = idxs t.
Proof.
  induction t as [|l IHl i k v h r IHr]; cbn [t_update idxs]; [reflexivity|].
  destruct (key <? k)%Z; [cbn [idxs]; rewrite IHl; reflexivity|].
  destruct (k <? key)%Z; cbn [idxs]; [rewrite IHr|]; reflexivity.
Qed.
Lemma t_update_keys t key v' : keys (t_update t key v') = keys t.
Proof.
  induction t as [|l IHl i k v h r IHr]; cbn [t_update keys]; [reflexivity|].
  destruct (key <? k)%Z; [cbn [keys]; rewrite IHl; reflexivity|].
  destruct (k <? key)%Z; cbn [keys]; [rewrite IHr|]; reflexivity.
Qed.
Lemma t_update_absent t key v' : t_find t key = None -> t_update t key v' = t.
Proof.
  induction t as [|l IHl i k v h r IHr]; cbn [t_update t_find]; [reflexivity|].
  destruct (key <? k)%Z; [intros H; rewrite IHl; auto|].
  destruct (k <? key)%Z; [intros H; rewrite IHr; auto|discriminate].
Qed.

Lemma rep_t_update ns ns' t key j v n v' :
  rep ns t -> NoDup (idxs t) -> t_find t key = Some (j, v) ->
  getn ns j = Ok n -> setn ns j (set_v n v') = Ok ns' ->
  rep ns' (t_update t key v').
Proof.
  intros Hrep Hnd Hfind Hn Hset. revert Hrep Hnd Hfind.
  assert (Hso : same_outside ns ns' [j]).
  { intros x Hx. eapply getn_setn_other; eauto. intros ->. apply Hx. left. reflexivity. }
  induction t as [|l IHl i k w h r IHr]; cbn [t_find]; [discriminate|].
  intros Hrep Hnd Hfind. cbn [idxs] in Hnd.
  destruct (nodup_split _ _ _ Hnd) as [Hil [Hir [Hndl [Hndr Hdis]]]].
  destruct Hrep as [Hh [Hl Hr]]. cbn [t_update].
  destruct (key <? k)%Z; [|destruct (k <? key)%Z].
  - pose proof (t_find_in _ _ _ _ Hfind) as Hj.
    cbn [rep]. rewrite t_update_idx. split; [|split].
    + destruct Hh as [m Hm]. exists m. rewrite Hso; [exact Hm|].
      intros [<-|[]]. contradiction.
    + apply IHl; auto.
    + eapply rep_frame; eauto. intros x Hx [<-|[]]. eapply Hdis; eauto.
  - pose proof (t_find_in _ _ _ _ Hfind) as Hj.
    cbn [rep]. rewrite t_update_idx. split; [|split].
    + destruct Hh as [m Hm]. exists m. rewrite Hso; [exact Hm|].
      intros [<-|[]]. contradiction.
    + eapply rep_frame; eauto. intros x Hx [<-|[]]. eapply Hdis; eauto.
    + apply IHr; auto.
  - injection Hfind as <- <-. cbn [rep]. split; [|split].
    + destruct Hh as [m [Hm [H1 [H2 [H3 [H4 H5]]]]]].
      assert (m = n) by congruence. subst m.
      exists (set_v n v'). split; [eapply getn_setn_same; eauto|].
      cbn [set_v nl nr nh nk nv]. auto.
    + eapply rep_frame; eauto. intros x Hx [<-|[]]. contradiction.
    + eapply rep_frame; eauto. intros x Hx [<-|[]]. contradiction.
Qed.

Lemma get_mut_set_spec s t key v' :
  rep (nodes s) t -> NoDup (idxs t) -> root s = idx t ->
  match t_find t key with
  | Some (i, v) =>
    exists ns', get_mut_set s key v' = Ok (with_nodes s ns', Some v, t_log t key) /\
                rep ns' (t_update t key v') /\
                same_outside (nodes s) ns' [i] /\
                length ns' = length (nodes s)
  | None => get_mut_set s key v' = Ok (s, None, t_log t key) /\ t_update t key v' = t
  end.
Proof.
  intros Hrep Hnd Hroot. unfold get_mut_set. rewrite (find_spec s t); auto. cbn [bind].
  destruct (t_find t key) as [[i v]|] eqn:Hfind; cbn [option_map fst].
  - destruct (t_find_holds _ _ _ _ _ Hrep Hfind) as [n [Hn [_ Hv]]].
    destruct (setn_ok _ _ _ (set_v n v') Hn) as [ns' Hset].
    exists ns'. rewrite Hn. cbn [bind]. rewrite Hset. cbn [bind]. rewrite Hv.
    split; [reflexivity|]. split; [eapply rep_t_update; eauto|]. split.
    + intros x Hx. eapply getn_setn_other; eauto. intros ->. apply Hx. left. reflexivity.
    + eapply setn_length; eauto.
  - split; [reflexivity|]. apply t_update_absent; auto.
Qed.

(* ------------------------------------------------------------------ *)
(* 4/5. the search phases of insert and remove as context decompositions *)

(* where the search for [key] stops: the context and the subtree rooted at
   the node holding [key], or an empty subtree when the key is absent (then
   the innermost frame of the context is the would-be parent) *)
Fixpoint t_locate (t : itree) (key : Z) (c : ctx) : ctx * itree :=
  match t with
  | E => (c, E)
  | T l i k v h r =>
    if (key <? k)%Z then t_locate l key (FL i k v r :: c)
    else if (k <? key)%Z then t_locate r key (FR l i k v :: c)
    else (c, t)
  end.

(* the descent of [insert] for an absent key: the context of the node under
   which the new leaf is hung, that node, and the side; None when the key
   is present (or the tree is empty) *)
Fixpoint t_descend (t : itree) (key : Z) (c : ctx) : option (ctx * itree * dir) :=
  match t with
  | E => None
  | T l i k v h r =>
    if (key <? k)%Z then
      match l with E => Some (c, t, L) | T _ _ _ _ _ _ => t_descend l key (FL i k v r :: c) end
    else if (k <? key)%Z then
      match r with E => Some (c, t, R) | T _ _ _ _ _ _ => t_descend r key (FR l i k v :: c) end
    else None
  end.

(* [fill] forgets the stored height of the frame's node (it is recomputed on
   the way up), so decompositions are exact only up to stored heights *)
Fixpoint erase (t : itree) : itree :=
  match t with E => E | T l i k v _ r => T (erase l) i k v 0 (erase r) end.

Lemma erase_idx t : idx (erase t) = idx t.
Proof. destruct t; reflexivity. Qed.
Lemma erase_idxs t : idxs (erase t) = idxs t.
Proof. induction t as [|l IHl i k v h r IHr]; cbn [erase idxs]; congruence. Qed.
Lemma erase_keys t : keys (erase t) = keys t.
Proof. induction t as [|l IHl i k v h r IHr]; cbn [erase keys]; congruence. Qed.
Lemma erase_inorder t : inorder (erase t) = inorder t.
Proof. induction t as [|l IHl i k v h r IHr]; cbn [erase inorder]; congruence. Qed.

Lemma erase_plug c : forall t t', erase t = erase t' -> erase (plug c t) = erase (plug c t').
Proof.
  induction c as [|f c IH]; intros t t' H; cbn [plug]; [exact H|].
  apply IH. destruct f; cbn [fill erase]; rewrite H; reflexivity.
Qed.

Lemma t_locate_plug t : forall key c c' t',
  t_locate t key c = (c', t') -> erase (plug c' t') = erase (plug c t).
Proof.
  induction t as [|l IHl i k v h r IHr]; intros key c c' t'; cbn [t_locate].
  - intros [= <- <-]. reflexivity.
  - destruct (key <? k)%Z; [|destruct (k <? key)%Z].
    + intros H. rewrite (IHl _ _ _ _ H). cbn [plug fill]. apply erase_plug. reflexivity.
    + intros H. rewrite (IHr _ _ _ _ H). cbn [plug fill]. apply erase_plug. reflexivity.
    + intros [= <- <-]. reflexivity.
Qed.

Lemma t_descend_plug t : forall key c cp tp d,
  t_descend t key c = Some (cp, tp, d) -> erase (plug cp tp) = erase (plug c t).
Proof.
  induction t as [|l IHl i k v h r IHr]; intros key c cp tp d; cbn [t_descend]; [discriminate|].
  destruct (key <? k)%Z; [|destruct (k <? key)%Z; [|discriminate]].
  - destruct l as [|ll li lk lv lh lr]; [intros [= <- <- <-]; reflexivity|].
    intros H. rewrite (IHl _ _ _ _ _ H). cbn [plug fill]. apply erase_plug. reflexivity.
  - destruct r as [|rl ri rk rv rh rr]; [intros [= <- <- <-]; reflexivity|].
    intros H. rewrite (IHr _ _ _ _ _ H). cbn [plug fill]. apply erase_plug. reflexivity.
Qed.

(* the bottom node of the insert descent, and the side the key belongs on *)
Lemma t_descend_bottom t : forall key c cp tp d,
  t_descend t key c = Some (cp, tp, d) ->
  exists lp p kp vp hp rp, tp = T lp p kp vp hp rp /\
    match d with
    | L => lp = E /\ (key < kp)%Z
    | R => rp = E /\ (kp < key)%Z
    end.
Proof.
  induction t as [|l IHl i k v h r IHr]; intros key c cp tp d; cbn [t_descend]; [discriminate|].
  destruct (Z.ltb_spec key k) as [H1|H1]; [|destruct (Z.ltb_spec k key) as [H2|H2]; [|discriminate]].
  - destruct l as [|ll li lk lv lh lr]; [|apply IHl].
    intros [= <- <- <-]. exists E, i, k, v, h, r. auto.
  - destruct r as [|rl ri rk rv rh rr]; [|apply IHr].
    intros [= <- <- <-]. exists l, i, k, v, h, E. auto.
Qed.

Lemma t_descend_some_absent t : forall key c x,
  t_descend t key c = Some x -> t_find t key = None.
Proof.
  induction t as [|l IHl i k v h r IHr]; intros key c x; cbn [t_descend t_find]; [discriminate|].
  destruct (key <? k)%Z; [|destruct (k <? key)%Z; [|discriminate]].
  - destruct l as [|ll li lk lv lh lr]; [reflexivity|apply IHl].
  - destruct r as [|rl ri rk rv rh rr]; [reflexivity|apply IHr].
Qed.

Lemma t_descend_none_present t : forall key c,
  t <> E -> t_descend t key c = None -> exists i v, t_find t key = Some (i, v).
Proof.
  induction t as [|l IHl i k v h r IHr]; intros key c Hne; [congruence|].
  cbn [t_descend t_find].
  destruct (key <? k)%Z; [|destruct (k <? key)%Z; [|eauto]].
  - destruct l as [|ll li lk lv lh lr]; [discriminate|apply IHl; discriminate].
  - destruct r as [|rl ri rk rv rh rr]; [discriminate|apply IHr; discriminate].
Qed.

Lemma t_descend_iff t key c :
  t <> E -> (t_descend t key c = None <-> t_find t key <> None).
Proof.
  intros Hne. split.
  - intros H. destruct (t_descend_none_present _ _ _ Hne H) as [i [v Hf]]. congruence.
  - intros H. destruct (t_descend t key c) as [x|] eqn:Hd; [|reflexivity].
    apply t_descend_some_absent in Hd. contradiction.
Qed.

(* the frame that the search would push below a node on side d *)
Definition frame_of (t : itree) (d : dir) : list frame :=
  match t with
  | E => []
  | T l i k v _ r => match d with L => [FL i k v r] | R => [FR l i k v] end
  end.

Lemma t_descend_locate t : forall key c cp tp d,
  t_descend t key c = Some (cp, tp, d) -> t_locate t key c = (frame_of tp d ++ cp, E).
Proof.
  induction t as [|l IHl i k v h r IHr]; intros key c cp tp d; cbn [t_descend t_locate]; [discriminate|].
  destruct (key <? k)%Z; [|destruct (k <? key)%Z; [|discriminate]].
  - destruct l as [|ll li lk lv lh lr]; [|apply IHl].
    intros [= <- <- <-]. reflexivity.
  - destruct r as [|rl ri rk rv rh rr]; [|apply IHr].
    intros [= <- <- <-]. reflexivity.
Qed.

Lemma t_locate_found t : forall key c c' t',
  t_locate t key c = (c', t') ->
  match t' with
  | E => t_find t key = None
  | T l' i' k' v' _ _ => k' = key /\ t_find t key = Some (i', v')
  end.
Proof.
  induction t as [|l IHl i k v h r IHr]; intros key c c' t'; cbn [t_locate t_find].
  - intros [= <- <-]. reflexivity.
  - destruct (Z.ltb_spec key k) as [H1|H1]; [apply IHl|].
    destruct (Z.ltb_spec k key) as [H2|H2]; [apply IHr|].
    intros [= <- <-]. split; [lia|reflexivity].
Qed.

(* the array represents the decomposition reached by the search *)
Lemma t_locate_rep ns rt t : forall key c c' t',
  rep ns t -> rep_ctx ns c (idx t) rt -> t_locate t key c = (c', t') ->
  rep ns t' /\ rep_ctx ns c' (idx t') rt.
Proof.
  induction t as [|l IHl i k v h r IHr]; intros key c c' t' Hrep Hctx; cbn [t_locate].
  - intros [= <- <-]. auto.
  - destruct Hrep as [Hh [Hl Hr]].
    destruct (key <? k)%Z; [|destruct (k <? key)%Z].
    + apply IHl; auto. cbn [rep_ctx]. eauto.
    + apply IHr; auto. cbn [rep_ctx]. eauto.
    + intros [= <- <-]. cbn [rep]. auto.
Qed.

Lemma t_descend_rep ns rt t : forall key c cp tp d,
  rep ns t -> rep_ctx ns c (idx t) rt -> t_descend t key c = Some (cp, tp, d) ->
  rep ns tp /\ rep_ctx ns cp (idx tp) rt.
Proof.
  induction t as [|l IHl i k v h r IHr]; intros key c cp tp d Hrep Hctx; cbn [t_descend]; [discriminate|].
  pose proof Hrep as Hrep0. destruct Hrep as [Hh [Hl Hr]].
  destruct (key <? k)%Z; [|destruct (k <? key)%Z; [|discriminate]].
  - destruct l as [|ll li lk lv lh lr]; [intros [= <- <- <-]; auto|].
    apply IHl; auto. cbn [rep_ctx]. eauto.
  - destruct r as [|rl ri rk rv rh rr]; [intros [= <- <- <-]; auto|].
    apply IHr; auto. cbn [rep_ctx]. eauto.
Qed.

(* [rebal] ignores the stored height of the node it is applied to *)
Lemma hp_nonneg t : (0 <= hp t)%Z.
Proof. destruct t; cbn [hp]; lia. Qed.

Lemma rebal_top_irrel l i k v h h' r : rebal (T l i k v h r) = rebal (T l i k v h' r).
Proof.
  cbn [rebal]. destruct (Z.ltb_spec 1 (bfac l r)) as [H1|H1].
  - destruct l as [|ll li lk lv lh lr].
    + exfalso. unfold bfac in H1. cbn [hp] in H1. pose proof (hp_nonneg r). lia.
    + destruct (bfac ll lr <? 0)%Z; [|reflexivity].
      cbn [rotl]. destruct lr; reflexivity.
  - destruct (Z.ltb_spec (bfac l r) (-1)) as [H2|H2]; [|reflexivity].
    destruct r as [|rl ri rk rv rh rr].
    + exfalso. unfold bfac in H2. cbn [hp] in H2. pose proof (hp_nonneg l). lia.
    + destruct (0 <? bfac rl rr)%Z; [|reflexivity].
      cbn [rotr]. destruct rl; reflexivity.
Qed.

(* hanging the new leaf under the bottom node of the descent and rebalancing
   up the context is T-level insertion *)
Definition hang (tp : itree) (d : dir) (new : N) (key value : Z) : itree :=
  match tp with
  | E => E
  | T lp p kp vp hp rp =>
    match d with
    | L => T (T E new key value 0 E) p kp vp hp rp
    | R => T lp p kp vp hp (T E new key value 0 E)
    end
  end.

Lemma t_insert_descend new value t : forall key c cp tp d,
  t_descend t key c = Some (cp, tp, d) ->
  plug_rebal c (t_insert t new key value) = plug_rebal cp (rebal (hang tp d new key value)).
Proof.
  induction t as [|l IHl i k v h r IHr]; intros key c cp tp d; cbn [t_descend]; [discriminate|].
  cbn [t_insert].
  destruct (key <? k)%Z; [|destruct (k <? key)%Z; [|discriminate]].
  - destruct l as [|ll li lk lv lh lr]; [intros [= <- <- <-]; reflexivity|].
    intros H. rewrite <- (IHl _ _ _ _ _ H). cbn [plug_rebal fill].
    rewrite (rebal_top_irrel _ i k v h 0 r). reflexivity.
  - destruct r as [|rl ri rk rv rh rr]; [intros [= <- <- <-]; reflexivity|].
    intros H. rewrite <- (IHr _ _ _ _ _ H). cbn [plug_rebal fill].
    rewrite (rebal_top_irrel l i k v h 0 _). reflexivity.
Qed.

(* ---- the loops ---- *)

Section Width.
Variable bits : N.

(* what [insert_loop] does once it stands on the node [p] whose child on the
   side [d] is empty *)
Definition insert_tail (s : st) (key value : Z) (p : N) (d : dir)
           (path : list anc) (log : list Z) : res (st * option N * list anc * list Z) :=
  if is_full s then Ok (s, None, path, log) else
  '(s1, new) <- add bits s key value ;;
  ns <- update_child bits (nodes s1) p d new ;;
  Ok (with_nodes s1 ns, Some new, path, log).

Lemma insert_loop_spec s key value t : forall fuel c log,
  rep (nodes s) t -> t <> E -> (depth t < fuel)%nat ->
  insert_loop bits fuel s key value (idx t) (path_of c (idx t)) log =
  match t_descend t key c with
  | None =>
    Ok (s, None,
        path_of (fst (t_locate t key c)) (idx (snd (t_locate t key c))),
        log ++ t_log t key)
  | Some (cp, tp, d) =>
    insert_tail s key value (idx tp) d (path_of cp (idx tp)) (log ++ t_log t key)
  end.
Proof.
  induction t as [|l IHl i k v h r IHr]; intros fuel c log Hrep Hne Hf; [congruence|].
  destruct fuel as [|f]; [lia|]. cbn [depth] in Hf.
  destruct (rep_root_getn _ _ _ _ _ _ _ Hrep) as [n [Hn [Hl [Hr [_ [Hk _]]]]]].
  cbn [insert_loop idx t_descend t_locate t_log]. rewrite Hn. cbn [bind].
  rewrite Hk, Hl, Hr, Z.gtb_ltb.
  destruct (key <? k)%Z; [|destruct (k <? key)%Z].
  - destruct l as [|ll li lk lv lh lr].
    + cbn [idx]. rewrite N.eqb_refl. reflexivity.
    + pose proof (rep_sub_l _ _ _ _ _ _ _ Hrep) as Hrl.
      pose proof (rep_idx_nz _ _ _ _ _ _ _ Hrl) as Hnz. cbn [idx].
      destruct (N.eqb_spec li 0) as [?|_]; [contradiction|].
      specialize (IHl f (FL i k v r :: c) (log ++ [k]) Hrl ltac:(discriminate) ltac:(lia)).
      cbn [path_of fidx fdir idx] in IHl. rewrite IHl.
      destruct (t_descend (T ll li lk lv lh lr) key (FL i k v r :: c)) as [[[cp tp] d]|];
        rewrite <- app_assoc; reflexivity.
  - destruct r as [|rl ri rk rv rh rr].
    + cbn [idx]. rewrite N.eqb_refl. reflexivity.
    + pose proof (rep_sub_r _ _ _ _ _ _ _ Hrep) as Hrr.
      pose proof (rep_idx_nz _ _ _ _ _ _ _ Hrr) as Hnz. cbn [idx].
      destruct (N.eqb_spec ri 0) as [?|_]; [contradiction|].
      specialize (IHr f (FR l i k v :: c) (log ++ [k; k]) Hrr ltac:(discriminate) ltac:(lia)).
      cbn [path_of fidx fdir idx] in IHr. rewrite IHr.
      destruct (t_descend (T rl ri rk rv rh rr) key (FR l i k v :: c)) as [[[cp tp] d]|];
        rewrite <- app_assoc; reflexivity.
  - reflexivity.
Qed.

(* the three cases of the statement, separately *)
Lemma insert_loop_present s key value t fuel c log :
  rep (nodes s) t -> t <> E -> (depth t < fuel)%nat -> t_find t key <> None ->
  exists path, insert_loop bits fuel s key value (idx t) (path_of c (idx t)) log =
               Ok (s, None, path, log ++ t_log t key).
Proof.
  intros Hrep Hne Hf Hfind. rewrite insert_loop_spec by assumption.
  apply (t_descend_iff t key c Hne) in Hfind. rewrite Hfind. eauto.
Qed.

Lemma insert_loop_full s key value t fuel c log :
  rep (nodes s) t -> t <> E -> (depth t < fuel)%nat -> t_find t key = None ->
  is_full s = true ->
  exists path, insert_loop bits fuel s key value (idx t) (path_of c (idx t)) log =
               Ok (s, None, path, log ++ t_log t key).
Proof.
  intros Hrep Hne Hf Hfind Hfull. rewrite insert_loop_spec by assumption.
  destruct (t_descend t key c) as [[[cp tp] d]|] eqn:Hd.
  - unfold insert_tail. rewrite Hfull. eauto.
  - eauto.
Qed.

Lemma insert_loop_absent s key value t fuel c log :
  rep (nodes s) t -> t <> E -> (depth t < fuel)%nat -> t_find t key = None ->
  is_full s = false ->
  exists cp lp p kp vp hp rp d,
    t_descend t key c = Some (cp, T lp p kp vp hp rp, d) /\
    erase (plug cp (T lp p kp vp hp rp)) = erase (plug c t) /\
    match d with L => lp = E /\ (key < kp)%Z | R => rp = E /\ (kp < key)%Z end /\
    insert_loop bits fuel s key value (idx t) (path_of c (idx t)) log =
    ('(s1, new) <- add bits s key value ;;
     ns <- update_child bits (nodes s1) p d new ;;
     Ok (with_nodes s1 ns, Some new, path_of cp p, log ++ t_log t key)).
Proof.
  intros Hrep Hne Hf Hfind Hfull. rewrite insert_loop_spec by assumption.
  destruct (t_descend t key c) as [[[cp tp] d]|] eqn:Hd.
  - destruct (t_descend_bottom _ _ _ _ _ _ Hd) as [lp [p [kp [vp [hp [rp [-> Hside]]]]]]].
    exists cp, lp, p, kp, vp, hp, rp, d. split; [reflexivity|].
    split; [eapply t_descend_plug; eauto|]. split; [exact Hside|].
    unfold insert_tail. rewrite Hfull. reflexivity.
  - apply (t_descend_iff t key c Hne) in Hd. contradiction.
Qed.

End Width.

Lemma remove_descent_spec ns key t : forall fuel c log,
  rep ns t -> (depth t < fuel)%nat ->
  remove_descent fuel ns key (idx t) (path_of c (idx t)) log =
  Ok (idx (snd (t_locate t key c)),
      path_of (fst (t_locate t key c)) (idx (snd (t_locate t key c))),
      log ++ t_log t key).
Proof.
  induction t as [|l IHl i k v h r IHr]; intros fuel c log Hrep Hf.
  - destruct fuel as [|f]; [cbn [depth] in Hf; lia|].
    cbn [remove_descent idx t_locate t_log fst snd]. rewrite app_nil_r. reflexivity.
  - destruct fuel as [|f]; [lia|]. cbn [depth] in Hf.
    destruct (rep_root_getn _ _ _ _ _ _ _ Hrep) as [n [Hn [Hl [Hr [_ [Hk _]]]]]].
    pose proof (getn_nonzero _ _ _ Hn) as Hnz.
    cbn [remove_descent idx t_locate t_log].
    destruct (N.eqb_spec i 0) as [?|_]; [contradiction|].
    rewrite Hn. cbn [bind]. rewrite Hk, Hl, Hr, Z.gtb_ltb.
    destruct (key <? k)%Z; [|destruct (k <? key)%Z].
    + specialize (IHl f (FL i k v r :: c) (log ++ [k]) (rep_sub_l _ _ _ _ _ _ _ Hrep) ltac:(lia)).
      cbn [path_of fidx fdir] in IHl. rewrite IHl, <- app_assoc. reflexivity.
    + specialize (IHr f (FR l i k v :: c) (log ++ [k; k]) (rep_sub_r _ _ _ _ _ _ _ Hrep) ltac:(lia)).
      cbn [path_of fidx fdir] in IHr. rewrite IHr, <- app_assoc. reflexivity.
    + reflexivity.
Qed.

(* ---- the left spine ---- *)
Fixpoint t_leftspine (t : itree) : list N :=
  match t with E => [] | T l i _ _ _ _ => i :: t_leftspine l end.

(* (leftmost slot, its parent); [par] is returned when the root is leftmost *)
Fixpoint t_leftmost (t : itree) (par : N) : N * N :=
  match t with
  | E => (0, par)
  | T l i _ _ _ _ => match l with E => (i, par) | T _ _ _ _ _ _ => t_leftmost l i end
  end.

(* the (Some parent, Some L, child) entries along a chain of slots *)
Fixpoint lpath (sp : list N) : list anc :=
  match sp with
  | a :: tl => match tl with b :: _ => (Some a, Some L, b) :: lpath tl | [] => [] end
  | [] => []
  end.

Lemma leftmost_loop_spec ns l : forall fuel i k v h r par ip,
  rep ns (T l i k v h r) -> (depth (T l i k v h r) < fuel)%nat ->
  leftmost_loop fuel ns i par ip =
  Ok (fst (t_leftmost (T l i k v h r) par), snd (t_leftmost (T l i k v h r) par),
      ip ++ lpath (t_leftspine (T l i k v h r))).
Proof.
  induction l as [|ll IHll li lk lv lh lr _]; intros fuel i k v h r par ip Hrep Hf;
    (destruct fuel as [|f]; [lia|]);
    destruct (rep_root_getn _ _ _ _ _ _ _ Hrep) as [n [Hn [Hl _]]];
    cbn [leftmost_loop]; rewrite Hn; cbn [bind]; rewrite Hl; cbn [idx].
  - rewrite N.eqb_refl. cbn [t_leftmost t_leftspine lpath fst snd]. rewrite app_nil_r. reflexivity.
  - pose proof (rep_sub_l _ _ _ _ _ _ _ Hrep) as Hrl.
    pose proof (rep_idx_nz _ _ _ _ _ _ _ Hrl) as Hnz.
    destruct (N.eqb_spec li 0) as [?|_]; [contradiction|].
    cbn [depth] in Hf.
    rewrite (IHll f li lk lv lh lr i (ip ++ [(Some i, Some L, li)]) Hrl) by (cbn [depth]; lia).
    cbn [t_leftmost t_leftspine lpath]. rewrite <- app_assoc. reflexivity.
Qed.

Lemma t_leftmost_last t par : fst (t_leftmost t par) = last (t_leftspine t) 0.
Proof.
  revert par. induction t as [|l IHl i k v h r _]; intros par; [reflexivity|].
  cbn [t_leftmost t_leftspine]. destruct l as [|ll li lk lv lh lr]; [reflexivity|].
  rewrite IHl. reflexivity.
Qed.

(* the node detached by [t_remove_min] is the one the loop stops at *)
Lemma t_remove_min_leftmost l : forall i k v h r par,
  fst (fst (fst (t_remove_min l i k v h r))) = fst (t_leftmost (T l i k v h r) par).
Proof.
  induction l as [|ll IHll li lk lv lh lr _]; intros i k v h r par; [reflexivity|].
  cbn [t_remove_min t_leftmost].
  specialize (IHll li lk lv lh lr i).
  destruct (t_remove_min ll li lk lv lh lr) as [[[mi mk_] mv] l']. exact IHll.
Qed.

(* the left spine as a context: the path of the leftmost node is the path of
   the subtree's root followed by the inner path *)
Fixpoint t_minctx (t : itree) (c : ctx) : ctx * itree :=
  match t with
  | E => (c, E)
  | T l i k v _ r => match l with E => (c, t) | T _ _ _ _ _ _ => t_minctx l (FL i k v r :: c) end
  end.

Lemma t_minctx_path t : forall c,
  path_of (fst (t_minctx t c)) (idx (snd (t_minctx t c))) =
  path_of c (idx t) ++ lpath (t_leftspine t).
Proof.
  induction t as [|l IHl i k v h r _]; intros c; [cbn; rewrite app_nil_r; reflexivity|].
  cbn [t_minctx t_leftspine]. destruct l as [|ll li lk lv lh lr].
  - cbn [fst snd lpath t_leftspine]. rewrite app_nil_r. reflexivity.
  - rewrite IHl. cbn [path_of fidx fdir idx t_leftspine lpath]. rewrite <- app_assoc. reflexivity.
Qed.

Lemma t_minctx_plug t : forall c, erase (plug (fst (t_minctx t c)) (snd (t_minctx t c))) = erase (plug c t).
Proof.
  induction t as [|l IHl i k v h r _]; intros c; [reflexivity|].
  cbn [t_minctx]. destruct l as [|ll li lk lv lh lr]; [reflexivity|].
  rewrite IHl. cbn [plug fill]. apply erase_plug. reflexivity.
Qed.

Lemma t_minctx_leftmost t : forall c, idx (snd (t_minctx t c)) = last (t_leftspine t) 0.
Proof.
  induction t as [|l IHl i k v h r _]; intros c; [reflexivity|].
  cbn [t_minctx t_leftspine]. destruct l as [|ll li lk lv lh lr]; [reflexivity|].
  rewrite IHl. reflexivity.
Qed.

(* ---- the loops as [insert] / [remove] call them ---- *)
Lemma insert_loop_top bits s key value t :
  rep (nodes s) t -> NoDup (idxs t) -> root s = idx t -> t <> E ->
  insert_loop bits (fuel_of s) s key value (root s) [(None, None, root s)] [] =
  match t_descend t key [] with
  | None =>
    Ok (s, None,
        path_of (fst (t_locate t key [])) (idx (snd (t_locate t key []))), t_log t key)
  | Some (cp, tp, d) =>
    insert_tail bits s key value (idx tp) d (path_of cp (idx tp)) (t_log t key)
  end.
Proof.
  intros Hrep Hnd Hroot Hne. rewrite Hroot.
  change [(None, None, idx t)] with (path_of [] (idx t)).
  rewrite insert_loop_spec; auto. apply fuel_enough; auto.
Qed.

Lemma remove_descent_top s key t :
  rep (nodes s) t -> NoDup (idxs t) -> root s = idx t ->
  remove_descent (fuel_of s) (nodes s) key (root s) [(None, None, root s)] [] =
  Ok (idx (snd (t_locate t key [])),
      path_of (fst (t_locate t key [])) (idx (snd (t_locate t key []))),
      t_log t key).
Proof.
  intros Hrep Hnd Hroot. rewrite Hroot.
  change [(None, None, idx t)] with (path_of [] (idx t)).
  rewrite remove_descent_spec; auto. apply fuel_enough; auto.
Qed.

(* fuel for a loop started inside a represented tree *)
Lemma depth_plug_ge c : forall t, (depth t <= depth (plug c t))%nat.
Proof.
  induction c as [|f c IH]; intros t; cbn [plug]; [lia|].
  etransitivity; [|apply IH]. destruct f; cbn [fill depth]; lia.
Qed.
Lemma depth_erase t : depth (erase t) = depth t.
Proof. induction t as [|l IHl i k v h r IHr]; cbn [erase depth]; congruence. Qed.

Print Assumptions rep_count.
Print Assumptions fuel_enough.
Print Assumptions find_loop_spec.
Print Assumptions find_spec.
Print Assumptions get_spec.
Print Assumptions contains_spec.
Print Assumptions lowest_spec.
Print Assumptions get_mut_set_spec.
Print Assumptions insert_loop_spec.
Print Assumptions insert_loop_present.
Print Assumptions insert_loop_full.
Print Assumptions insert_loop_absent.
Print Assumptions insert_loop_top.
Print Assumptions remove_descent_spec.
Print Assumptions remove_descent_top.
Print Assumptions leftmost_loop_spec.
Print Assumptions t_insert_descend.
Print Assumptions t_locate_rep.
Print Assumptions t_descend_rep.
Print Assumptions t_minctx_path.
Print Assumptions t_remove_min_leftmost.
