(* Link C <-> T <-> S under the master invariant, part 2: the read-only
   operations, get_mut, open_mut, buffer extension, initialisation, and the
   step theorem for every operation except ORemove. *)
From Coq Require Import List NArith ZArith Bool Lia ZifyBool Permutation.
From Stevia Require Import Base.Res Avl.Impl Avl.Tree Avl.Rep Avl.Spec Avl.LinkPrim Avl.LinkRebal.
From Stevia Require Import Avl.TreeInv Avl.SmapFacts Avl.TreeOps Avl.TreeHeight Avl.LinkFind Avl.Alloc Avl.Inv.
From Stevia Require Import Avl.LinkInsert.
Import ListNotations.
Open Scope N_scope.

Arguments N.add : simpl never.
Arguments N.sub : simpl never.
Arguments N.mul : simpl never.
Arguments N.pow : simpl never.
Arguments N.modulo : simpl never.
Arguments N.eqb : simpl never.
Arguments N.ltb : simpl never.
Arguments N.leb : simpl never.
Arguments N.max : simpl never.
Arguments Z.add : simpl never.
Arguments Z.sub : simpl never.
Arguments Z.ltb : simpl never.
Arguments Z.gtb : simpl never.
Arguments Z.eqb : simpl never.
Arguments N.of_nat : simpl never.

Section Steps.
Variable bits : N.

(* ------------------------------------------------------------------ *)
(* 3. read-only operations                                             *)

Theorem get_inv_spec s t fr term key :
  Inv bits s t fr term -> get s key = Ok (sm_find (inorder t) key, t_log t key).
Proof.
  intros H.
  rewrite (get_spec s t key (inv_rep _ _ _ _ _ H) (inv_nodup _ _ _ _ _ H) (inv_root _ _ _ _ _ H)).
  rewrite (t_find_inorder t key (inv_bst _ _ _ _ _ H)). reflexivity.
Qed.

Theorem contains_inv_spec s t fr term key :
  Inv bits s t fr term ->
  contains s key =
  Ok (match sm_find (inorder t) key with Some _ => true | None => false end, t_log t key).
Proof.
  intros H.
  rewrite (contains_spec s t key (inv_rep _ _ _ _ _ H) (inv_nodup _ _ _ _ _ H) (inv_root _ _ _ _ _ H)).
  rewrite <- (t_find_inorder t key (inv_bst _ _ _ _ _ H)).
  destruct (t_find t key) as [x|]; reflexivity.
Qed.

Theorem lowest_inv_spec s t fr term :
  Inv bits s t fr term ->
  lowest s = Ok (match inorder t with [] => None | (k, _) :: _ => Some k end).
Proof.
  intros H.
  rewrite (lowest_spec s t (inv_rep _ _ _ _ _ H) (inv_nodup _ _ _ _ _ H) (inv_root _ _ _ _ _ H)).
  rewrite t_lowest_inorder. destruct (inorder t) as [|[k v] m]; reflexivity.
Qed.

Theorem header_inv_spec s t fr term :
  Inv bits s t fr term ->
  len s = N.of_nat (length (inorder t)) /\
  is_empty s = (N.of_nat (length (inorder t)) =? 0) /\
  is_full s = (cap s <=? N.of_nat (length (inorder t))) /\
  capacity s = cap s /\
  (is_full s = true <-> N.of_nat (length (inorder t)) = cap s) /\
  N.of_nat (length (inorder t)) <= cap s.
Proof.
  intros H. pose proof (inv_size _ _ _ _ _ H) as Hs. pose proof (inv_alloc _ _ _ _ _ H) as Ha.
  unfold len, is_empty, is_full, capacity. rewrite Hs.
  pose proof (alloc_size_le_cap _ _ _ _ _ Ha). rewrite Hs in *.
  repeat split; try reflexivity; lia.
Qed.

(* ------------------------------------------------------------------ *)
(* 4. get_mut + write                                                  *)

Theorem get_mut_inv_spec s t fr term key v' :
  Inv bits s t fr term ->
  exists s',
    get_mut_set s key v' = Ok (s', sm_find (inorder t) key, t_log t key) /\
    Inv bits s' (t_update t key v') fr term /\
    inorder (t_update t key v') = sm_update (inorder t) key v' /\
    idxs (t_update t key v') = idxs t /\
    root s' = root s /\ size s' = size s /\ cap s' = cap s /\ flh s' = flh s /\ seq s' = seq s /\
    length (nodes s') = length (nodes s).
Proof.
  intros H.
  pose proof (inv_rep _ _ _ _ _ H) as Hrep. pose proof (inv_root _ _ _ _ _ H) as Hroot.
  pose proof (inv_bst _ _ _ _ _ H) as Hbst. pose proof (inv_alloc _ _ _ _ _ H) as Ha.
  pose proof (inv_nodup _ _ _ _ _ H) as Hnd.
  pose proof (get_mut_set_spec s t key v' Hrep Hnd Hroot) as Hg.
  pose proof (t_find_inorder t key Hbst) as Hfi.
  pose proof (t_update_inorder t key v' Hbst) as Hui.
  destruct (t_find t key) as [[i v]|] eqn:Ef.
  - destruct Hg as (ns' & Hget & Hrep' & Hso & Hlen). cbn [option_map snd] in Hfi.
    exists (with_nodes s ns'). rewrite <- Hfi.
    split; [exact Hget|]. split; [|cbn [with_nodes root size cap flh seq nodes]; auto 10 using LinkFind.t_update_idxs].
    constructor; cbn [with_nodes nodes root].
    + exact Hrep'.
    + rewrite t_update_idx. exact Hroot.
    + apply t_update_hok. exact (inv_hok _ _ _ _ _ H).
    + apply t_update_avl. exact (inv_avl _ _ _ _ _ H).
    + apply t_update_bst. exact Hbst.
    + rewrite LinkFind.t_update_idxs. apply alloc_frame; [exact Ha|exact Hlen|].
      intros j Hj. apply Hso. intros [<-|[]].
      pose proof (t_find_in t key i v Ef) as Hin.
      destruct Hj as [Hj|Hj].
      * pose proof (ai_nodup _ _ _ _ _ Ha) as Hnd1. apply nodup_app in Hnd1.
        destruct Hnd1 as (_ & _ & Hd1). exact (Hd1 i Hin Hj).
      * destruct (ai_range _ _ _ _ _ Ha i) as [_ Hlt]; [apply in_or_app; left; exact Hin|]. lia.
  - destruct Hg as [Hget Hupd]. cbn [option_map] in Hfi. exists s. rewrite <- Hfi, Hupd in *.
    split; [exact Hget|]. split; [exact H|]. auto 10.
Qed.

(* ------------------------------------------------------------------ *)
(* 5. open_mut, extension                                              *)

(* either no growth is pending, or the grown capacity (+1 for the cursor)
   fits the index width *)
Definition sizecond (s : st) : Prop :=
  N.of_nat (length (nodes s)) <= cap s \/ N.of_nat (length (nodes s)) + 1 < 2 ^ bits.

Lemma sizecond_mono s s' :
  length (nodes s') = length (nodes s) -> cap s <= cap s' -> sizecond s -> sizecond s'.
Proof. unfold sizecond. intros -> Hc [Hs|Hs]; [left; lia|right; exact Hs]. Qed.

Theorem open_mut_inv_spec s t fr term :
  Inv bits s t fr term -> sizecond s ->
  exists s' fr',
    open_mut bits s = Ok s' /\ Inv bits s' t fr' term /\
    cap s' = N.max (cap s) (N.of_nat (length (nodes s))) /\
    cap s' = N.of_nat (length (nodes s)) /\
    length (nodes s') = length (nodes s) /\
    (N.of_nat (length (nodes s)) <= cap s -> s' = s /\ fr' = fr).
Proof.
  intros H Hsc. pose proof (inv_alloc _ _ _ _ _ H) as Ha.
  pose proof (ai_caplen _ _ _ _ _ Ha) as Hcl.
  destruct (N.le_gt_cases (N.of_nat (length (nodes s))) (cap s)) as [Hle|Hgt].
  - exists s, fr. split; [apply open_mut_same; exact Hle|]. split; [exact H|].
    repeat split; lia.
  - destruct Hsc as [Hsc|Hsc]; [lia|].
    destruct (open_mut_grow bits s (idxs t) fr term Ha Hgt Hsc)
      as (s' & fr' & Hom & Hcap & Hroot & Hsize & Hlen & Hsame & Ha' & _).
    exists s', fr'. split; [exact Hom|]. split.
    + constructor.
      * apply (rep_ext (nodes s)); [|exact (inv_rep _ _ _ _ _ H)].
        intros j Hj. apply Hsame.
        apply (ai_range _ _ _ _ _ Ha j). apply in_or_app. left. exact Hj.
      * rewrite Hroot. exact (inv_root _ _ _ _ _ H).
      * exact (inv_hok _ _ _ _ _ H).
      * exact (inv_avl _ _ _ _ _ H).
      * exact (inv_bst _ _ _ _ _ H).
      * exact Ha'.
    + repeat split; lia.
Qed.

Theorem ext_inv s t fr term n :
  Inv bits s t fr term -> Inv bits (ext_nodes s n) t fr term.
Proof.
  intros H. constructor.
  - unfold ext_nodes. cbn [with_nodes nodes]. apply rep_app. exact (inv_rep _ _ _ _ _ H).
  - exact (inv_root _ _ _ _ _ H).
  - exact (inv_hok _ _ _ _ _ H).
  - exact (inv_avl _ _ _ _ _ H).
  - exact (inv_bst _ _ _ _ _ H).
  - apply alloc_ext. exact (inv_alloc _ _ _ _ _ H).
Qed.

(* ------------------------------------------------------------------ *)
(* 7. initialisation                                                   *)

Theorem inv_init capacity :
  capacity < 2 ^ bits -> (bits <> 8 -> capacity + 1 < 2 ^ bits) ->
  Inv bits (init_c capacity capacity) E [] 1 /\
  abs_of (init_c capacity capacity) E = spec_init capacity.
Proof.
  intros H1 H2. split.
  - constructor; cbn [rep idx hok avl bst idxs]; auto.
    apply alloc_init; [lia|exact H1|exact H2].
  - unfold abs_of, init_c, initialize, spec_init. cbn [cap nodes inorder].
    rewrite repeat_length, N2Nat.id. reflexivity.
Qed.

(* ------------------------------------------------------------------ *)
(* 6. the step theorem                                                 *)

Definition not_remove (o : op) : Prop := match o with ORemove _ => False | _ => True end.

Lemma abs_claim s s1 t :
  cap s1 = N.max (cap s) (N.of_nat (length (nodes s))) -> length (nodes s1) = length (nodes s) ->
  abs_of s1 t = s_claim (abs_of s t).
Proof. intros Hc Hl. unfold abs_of, s_claim. cbn [scap sents snrec]. rewrite Hc, Hl. reflexivity. Qed.

Theorem step_refines_noremove s t fr term o :
  Inv bits s t fr term -> okbits bits -> sizecond s -> not_remove o ->
  (forall n, o = OExt n -> sizecond (ext_nodes s n)) ->
  exists s' out log t' fr' term',
    step_c bits s o = Ok (s', out, log) /\
    Inv bits s' t' fr' term' /\
    (abs_of s' t', out_abs out) = spec_step (abs_of s t) o /\
    sizecond s'.
Proof.
  intros H Hb Hsc Hnr Hext.
  destruct (open_mut_inv_spec s t fr term H Hsc)
    as (s1 & fr1 & Hom & H1 & Hcap1 & _ & Hlen1 & _).
  pose proof (abs_claim s s1 t Hcap1 Hlen1) as Hclaim.
  assert (Hsc1 : sizecond s1) by (apply (sizecond_mono s); [exact Hlen1|lia|exact Hsc]).
  destruct o as [k v|k|k|k v|k|k| | | | | |n| | ]; cbn [not_remove] in Hnr; [|contradiction|..].
  - (* OInsert *)
    destruct (insert_spec bits s1 t fr1 term k v H1 Hb) as (Hpres & Hfullc & Habs).
    pose proof (t_find_inorder t k (inv_bst _ _ _ _ _ H)) as Hfi.
    cbn [step_c spec_step]. rewrite Hom, <- Hclaim. unfold s_len. cbn [bind abs_of sents scap snrec].
    destruct (t_find t k) as [[i v0]|] eqn:Ef; cbn [option_map snd] in Hfi; rewrite <- Hfi.
    + rewrite Hpres by discriminate. cbn [bind].
      exists s1, (RSlot None), (t_log t k), t, fr1, term. auto.
    + destruct (header_inv_spec _ _ _ _ H1) as (_ & _ & Hif & _). rewrite <- Hif.
      destruct (is_full s1) eqn:Efull.
      * rewrite Hfullc by reflexivity. cbn [bind].
        exists s1, (RSlot None), (t_log t k), t, fr1, term. auto.
      * destruct (Habs eq_refl eq_refl)
          as (s2 & new & fr2 & term2 & Hins & H2 & _ & Hcap2 & Hlen2 & _).
        rewrite Hins. cbn [bind].
        exists s2, (RSlot (Some new)), (t_log t k), (t_insert t new k v), fr2, term2.
        split; [reflexivity|]. split; [exact H2|]. split.
        -- unfold abs_of. cbn [out_abs]. rewrite (t_insert_inorder t new k v (inv_bst _ _ _ _ _ H)), Hcap2, Hlen2. reflexivity.
        -- apply (sizecond_mono s1); [exact Hlen2|lia|exact Hsc1].
  - (* OGet *)
    cbn [step_c spec_step]. rewrite (get_inv_spec _ _ _ _ k H). cbn [bind].
    exists s, (RVal (sm_find (inorder t) k)), (t_log t k), t, fr, term. auto.
  - (* OGetMut *)
    destruct (get_mut_inv_spec s1 t fr1 term k v H1)
      as (s2 & Hget & H2 & Hio & _ & _ & _ & Hcap2 & _ & _ & Hlen2).
    cbn [step_c spec_step]. rewrite Hom, <- Hclaim. cbn [bind abs_of sents scap snrec].
    rewrite Hget. cbn [bind].
    exists s2, (RVal (sm_find (inorder t) k)), (t_log t k), (t_update t k v), fr1, term.
    split; [reflexivity|]. split; [exact H2|]. split.
    + unfold abs_of. cbn [out_abs]. rewrite Hio, Hcap2, Hlen2. reflexivity.
    + apply (sizecond_mono s1); [exact Hlen2|lia|exact Hsc1].
  - (* OGetMut0 *)
    cbn [step_c spec_step]. rewrite Hom, <- Hclaim. cbn [bind abs_of sents scap snrec].
    rewrite (get_inv_spec _ _ _ _ k H1). cbn [bind].
    exists s1, (RVal (sm_find (inorder t) k)), (t_log t k), t, fr1, term. auto.
  - (* OContains *)
    cbn [step_c spec_step]. rewrite (contains_inv_spec _ _ _ _ k H). cbn [bind abs_of sents].
    eexists s, _, _, t, fr, term. split; [reflexivity|]. auto.
  - (* OLowest *)
    cbn [step_c spec_step]. rewrite (lowest_inv_spec _ _ _ _ H). cbn [bind abs_of sents].
    eexists s, _, _, t, fr, term. split; [reflexivity|]. auto.
  - (* OLen *)
    destruct (header_inv_spec _ _ _ _ H) as (Hl & _).
    cbn [step_c spec_step]. unfold s_len. cbn [abs_of sents]. rewrite Hl.
    eexists s, _, _, t, fr, term. split; [reflexivity|]. auto.
  - (* OIsEmpty *)
    destruct (header_inv_spec _ _ _ _ H) as (_ & He & _).
    cbn [step_c spec_step]. unfold s_len. cbn [abs_of sents]. rewrite He.
    eexists s, _, _, t, fr, term. split; [reflexivity|]. auto.
  - (* OIsFull *)
    destruct (header_inv_spec _ _ _ _ H) as (_ & _ & Hf & _).
    cbn [step_c spec_step]. unfold s_len. cbn [abs_of sents scap]. rewrite Hf.
    eexists s, _, _, t, fr, term. split; [reflexivity|]. auto.
  - (* OCapacity *)
    cbn [step_c spec_step abs_of scap]. unfold capacity.
    eexists s, _, _, t, fr, term. split; [reflexivity|]. auto.
  - (* OExt *)
    cbn [step_c spec_step abs_of scap sents snrec].
    eexists (ext_nodes s n), _, _, t, fr, term. split; [reflexivity|].
    split; [apply ext_inv; exact H|]. split; [|apply Hext; reflexivity].
    unfold abs_of, ext_nodes. cbn [with_nodes cap nodes out_abs]. rewrite app_length, repeat_length.
    replace (N.of_nat (length (nodes s) + N.to_nat n)) with (N.of_nat (length (nodes s)) + n) by lia.
    reflexivity.
  - (* OOpenMut *)
    cbn [step_c spec_step]. rewrite Hom, <- Hclaim. cbn [bind].
    exists s1, RUnit, [], t, fr1, term. auto.
  - (* OOpenRo *)
    cbn [step_c spec_step].
    exists s, RUnit, [], t, fr, term. auto.
Qed.

(* ------------------------------------------------------------------ *)
(* histories without ORemove                                           *)

(* the size condition, read off the abstract state *)
Definition ssizecond (a : sst) : Prop := snrec a <= scap a \/ snrec a + 1 < 2 ^ bits.

Lemma sizecond_abs s t : sizecond s <-> ssizecond (abs_of s t).
Proof. unfold sizecond, ssizecond, abs_of. cbn [scap snrec]. tauto. Qed.

Fixpoint run_ok (a : sst) (ops : list op) : Prop :=
  match ops with
  | [] => True
  | o :: r => not_remove o /\ ssizecond (fst (spec_step a o)) /\ run_ok (fst (spec_step a o)) r
  end.

Theorem run_refines_noremove ops : forall s t fr term,
  Inv bits s t fr term -> okbits bits -> sizecond s -> run_ok (abs_of s t) ops ->
  exists outs, run_c bits s ops = map Ok outs /\ map out_abs outs = run_s (abs_of s t) ops.
Proof.
  induction ops as [|o r IH]; intros s t fr term H Hb Hsc Hok.
  - exists []. split; reflexivity.
  - cbn [run_ok] in Hok. destruct Hok as (Hnr & Hss & Hrest).
    destruct (step_refines_noremove s t fr term o H Hb Hsc Hnr)
      as (s' & out & log & t' & fr' & term' & Hstep & H' & Habs & Hsc').
    { intros n ->. cbn [spec_step fst] in Hss. unfold ssizecond in Hss. cbn [scap snrec abs_of] in Hss.
      unfold sizecond, ext_nodes. cbn [with_nodes cap nodes]. rewrite app_length, repeat_length.
      replace (N.of_nat (length (nodes s) + N.to_nat n)) with (N.of_nat (length (nodes s)) + n) by lia.
      exact Hss. }
    rewrite <- Habs in Hrest. cbn [fst] in Hrest.
    destruct (IH s' t' fr' term' H' Hb Hsc' Hrest) as (outs & Hrc & Hrs).
    exists (out :: outs). cbn [run_c run_s map]. rewrite Hstep, <- Habs, Hrc, Hrs. split; reflexivity.
Qed.

End Steps.

Print Assumptions get_inv_spec.
Print Assumptions contains_inv_spec.
Print Assumptions lowest_inv_spec.
Print Assumptions header_inv_spec.
Print Assumptions get_mut_inv_spec.
Print Assumptions open_mut_inv_spec.
Print Assumptions ext_inv.
Print Assumptions inv_init.
Print Assumptions step_refines_noremove.
Print Assumptions run_refines_noremove.

(* the hypotheses are satisfiable: the u8 tree with all 255 records *)
Example steps_u8_255 :
  Inv 8 (init_c 255 255) E [] 1 /\ okbits 8 /\ sizecond 8 (init_c 255 255).
Proof.
  split; [apply inv_init; [reflexivity|congruence]|]. split; [left; reflexivity|].
  left. unfold init_c, initialize. cbn [nodes cap]. rewrite repeat_length. lia.
Qed.
Example steps_u32 :
  Inv 32 (init_c 1000 1000) E [] 1 /\ okbits 32 /\ sizecond 32 (init_c 1000 1000).
Proof.
  split; [apply inv_init; [reflexivity|intros _; reflexivity]|]. split; [right; reflexivity|].
  left. unfold init_c, initialize. cbn [nodes cap]. rewrite repeat_length. lia.
Qed.
