(* Handle sessions.  [Spec.step_c] re-opens the mutable view before every
   mutating operation; that is what a program does that re-interprets the
   bytes on every call, and it equals a long-lived handle whenever opening
   is idempotent (no growth pending).  Here the handle is explicit: a
   mutable view stays open across operations until the buffer is extended or
   a view is opened anew, and [from_bytes_mut] (with its adoption of spare
   records) runs only when there is no live handle.  This also covers a tree
   initialised with a capacity smaller than the record count of its buffer
   and used through the same handle.  Definitions only. *)
From Coq Require Import List NArith ZArith Bool.
From Stevia Require Import Base.Res Avl.Impl Avl.Spec.
Import ListNotations.
Open Scope N_scope.

(* does the operation need the mutable view *)
Definition needs_mut (o : op) : bool :=
  match o with
  | OInsert _ _ | ORemove _ | OGetMut _ _ | OGetMut0 _ => true
  | _ => false
  end.

(* ---------------- spec with an explicit handle ---------------- *)
(* the operation itself, on a view that is already open: no claim of spare records *)
Definition spec_op (s : sst) (o : op) : sst * out :=
  match o with
  | OInsert k v =>
    match sm_find (sents s) k with
    | Some _ => (s, RSlot None)
    | None => if scap s <=? s_len s then (s, RSlot None)
              else (mkSS (scap s) (sm_insert (sents s) k v) (snrec s), RSlot (Some 0))
    end
  | ORemove k => (mkSS (scap s) (sm_remove (sents s) k) (snrec s), RVal (sm_find (sents s) k))
  | OGet k => (s, RVal (sm_find (sents s) k))
  | OGetMut k v => (mkSS (scap s) (sm_update (sents s) k v) (snrec s), RVal (sm_find (sents s) k))
  | OGetMut0 k => (s, RVal (sm_find (sents s) k))
  | OContains k => (s, RBool (match sm_find (sents s) k with Some _ => true | None => false end))
  | OLowest => (s, RVal (match sents s with [] => None | (k, _) :: _ => Some k end))
  | OLen => (s, RNum (s_len s))
  | OIsEmpty => (s, RBool (s_len s =? 0))
  | OIsFull => (s, RBool (scap s <=? s_len s))
  | OCapacity => (s, RNum (scap s))
  | OExt n => (mkSS (scap s) (sents s) (snrec s + n), RUnit)
  | OOpenMut => (s_claim s, RUnit)
  | OOpenRo => (s, RUnit)
  end.

Record ssess := mkSSess { a_st : sst; a_live : bool }.

Definition spec_step_sess (x : ssess) (o : op) : ssess * out :=
  match o with
  | OExt _ | OOpenRo => let '(s, r) := spec_op (a_st x) o in (mkSSess s false, r)
  | OOpenMut => (mkSSess (s_claim (a_st x)) true, RUnit)
  | _ =>
    if needs_mut o then
      let s0 := if a_live x then a_st x else s_claim (a_st x) in
      let '(s, r) := spec_op s0 o in (mkSSess s true, r)
    else
      let '(s, r) := spec_op (a_st x) o in (mkSSess s (a_live x), r)
  end.

Fixpoint run_s_sess (x : ssess) (ops : list op) : list out :=
  match ops with
  | [] => []
  | o :: r => let '(x', y) := spec_step_sess x o in y :: run_s_sess x' r
  end.

(* ---------------- concrete with an explicit handle ---------------- *)
Section W.
Variable bits : N.

Record sess := mkSess { c_st : st; c_live : bool }.

(* the mutable view: the live handle, or a fresh [from_bytes_mut] *)
Definition claim (x : sess) : res st :=
  if c_live x then Ok (c_st x) else open_mut bits (c_st x).

Definition step_sess (x : sess) (o : op) : res (sess * out * list Z) :=
  match o with
  | OInsert k v =>
    s1 <- claim x ;;
    '(s2, r, log) <- insert bits s1 k v ;; Ok (mkSess s2 true, RSlot r, log)
  | ORemove k =>
    s1 <- claim x ;;
    '(s2, r, log) <- remove bits s1 k ;; Ok (mkSess s2 true, RVal r, log)
  | OGet k => '(r, log) <- get (c_st x) k ;; Ok (x, RVal r, log)
  | OGetMut k v =>
    s1 <- claim x ;;
    '(s2, r, log) <- get_mut_set s1 k v ;; Ok (mkSess s2 true, RVal r, log)
  | OGetMut0 k =>
    s1 <- claim x ;;
    '(r, log) <- get s1 k ;; Ok (mkSess s1 true, RVal r, log)
  | OContains k => '(r, log) <- contains (c_st x) k ;; Ok (x, RBool r, log)
  | OLowest => r <- lowest (c_st x) ;; Ok (x, RVal r, [])
  | OLen => Ok (x, RNum (len (c_st x)), [])
  | OIsEmpty => Ok (x, RBool (is_empty (c_st x)), [])
  | OIsFull => Ok (x, RBool (is_full (c_st x)), [])
  | OCapacity => Ok (x, RNum (capacity (c_st x)), [])
  | OExt n => Ok (mkSess (ext_nodes (c_st x) n) false, RUnit, [])
  | OOpenMut => s1 <- open_mut bits (c_st x) ;; Ok (mkSess s1 true, RUnit, [])
  | OOpenRo => Ok (mkSess (c_st x) false, RUnit, [])
  end.

Fixpoint run_sess (x : sess) (ops : list op) : list (res out) :=
  match ops with
  | [] => []
  | o :: r =>
    match step_sess x o with
    | Ok (x', y, _) => Ok y :: run_sess x' r
    | Panic p => [Panic p]
    | Fuel => [Fuel]
    end
  end.

Fixpoint final_sess (x : sess) (ops : list op) : res sess :=
  match ops with
  | [] => Ok x
  | o :: r => '(x', _, _) <- step_sess x o ;; final_sess x' r
  end.

(* a tree created over a zero-filled buffer of [nrec] records and initialised with [capacity];
   [keep]: the handle that ran [initialize] stays in use *)
Definition init_sess (capacity nrec : N) (keep : bool) : sess := mkSess (init_c capacity nrec) keep.
End W.

Definition spec_init_sess (capacity nrec : N) (keep : bool) : ssess := mkSSess (mkSS capacity [] nrec) keep.
