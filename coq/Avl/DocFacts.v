(* C10 / C04 for the AVL trees: states satisfying the master invariant are
   representable in the byte format; the independent reader [decode_doc]
   applied to their encoding recovers the header words, the tree (hence the
   contents the API reports), the free chain and the never-used slots, and
   finds the buffer well formed; slots returned by [insert] hold the entry;
   live entries never move; [data_len]; drop and re-open. *)
From Coq Require Import List NArith ZArith Bool Lia ZifyBool Permutation Arith Sorting.Sorted.
From Stevia Require Import Base.Res Base.Bytes Avl.Impl Avl.Tree Avl.Rep Avl.Spec Avl.LinkPrim.
From Stevia Require Import Avl.TreeInv Avl.SmapFacts Avl.TreeOps Avl.TreeHeight Avl.TreeProps.
From Stevia Require Import Avl.LinkFind Avl.Alloc Avl.Inv Avl.LinkInsert Avl.LinkSteps.
From Stevia Require Import Avl.Format Hash.FormatFacts Avl.FormatFacts Avl.Balance.
Import ListNotations.
Open Scope N_scope.

Arguments N.add : simpl never.
Arguments N.sub : simpl never.
Arguments N.mul : simpl never.
Arguments N.div : simpl never.
Arguments N.pow : simpl never.
Arguments N.modulo : simpl never.
Arguments N.eqb : simpl never.
Arguments N.ltb : simpl never.
Arguments N.leb : simpl never.
Arguments N.max : simpl never.
Arguments Z.add : simpl never.
Arguments Z.sub : simpl never.
Arguments Z.mul : simpl never.
Arguments Z.pow : simpl never.
Arguments Z.ltb : simpl never.
Arguments Z.leb : simpl never.
Arguments Z.gtb : simpl never.
Arguments Z.eqb : simpl never.
Arguments N.of_nat : simpl never.
Arguments N.to_nat : simpl never.

(* index width in bits of a tree whose index words are [wbytes] bytes *)
Definition bits_of (wbytes : nat) : N := 8 * N.of_nat wbytes.

(* the reader's tree for a tree of layer T *)
Fixpoint dt_of (t : itree) : dtree :=
  match t with E => DE | T l i k v h r => DT (dt_of l) i k v h (dt_of r) end.

Lemma d_inorder_dt_of t : d_inorder (dt_of t) = triples t.
Proof.
  induction t as [|l IHl i k v h r IHr]; [reflexivity|].
  cbn [dt_of d_inorder triples]. rewrite IHl, IHr. reflexivity.
Qed.
Lemma d_levels_dt_of t : d_levels (dt_of t) = levels t.
Proof.
  induction t as [|l IHl i k v h r IHr]; [reflexivity|].
  cbn [dt_of d_levels levels]. rewrite IHl, IHr. reflexivity.
Qed.
Lemma d_balanced_dt_of t : avl t -> hok t -> d_balanced (dt_of t) = true.
Proof.
  induction t as [|l IHl i k v h r IHr]; [reflexivity|].
  cbn [avl hok]. intros (B1 & B2 & Al & Ar) (Hh & Hl & Hr).
  cbn [dt_of d_balanced]. rewrite !d_levels_dt_of, (IHl Al Hl), (IHr Ar Hr).
  cbn [levels] in Hh. rewrite !andb_true_r. lia.
Qed.
(* conversely: what the reader's balance check means *)
Lemma d_balanced_sound t : d_balanced (dt_of t) = true -> avl t /\ hok t.
Proof.
  induction t as [|l IHl i k v h r IHr]; [cbn; auto|].
  cbn [dt_of d_balanced]. rewrite !d_levels_dt_of, !andb_true_iff.
  intros ((((B1 & B2) & Hh) & Dl) & Dr). destruct (IHl Dl) as [Al Hl]. destruct (IHr Dr) as [Ar Hr].
  cbn [avl hok levels]. repeat split; try assumption; lia.
Qed.

Lemma sorted_keys_of_sorted l : StronglySorted Z.lt l -> sorted_keys l = true.
Proof.
  induction 1 as [|a l Hs IH Hf]; [reflexivity|].
  destruct l as [|b r]; [reflexivity|].
  change (sorted_keys (a :: b :: r)) with ((a <? b)%Z && sorted_keys (b :: r)).
  rewrite IH. inversion Hf as [|? ? Hab _]; subst. rewrite andb_true_r. lia.
Qed.
Lemma sorted_keys_sound l : sorted_keys l = true -> StronglySorted Z.lt l.
Proof.
  induction l as [|a l IH]; [constructor|].
  destruct l as [|b r]; [intros _; constructor; constructor|].
  change (sorted_keys (a :: b :: r)) with ((a <? b)%Z && sorted_keys (b :: r)).
  rewrite andb_true_iff. intros [Hab Hs]. specialize (IH Hs). constructor; [exact IH|].
  constructor; [lia|]. inversion IH as [|? ? _ Hf]; subst.
  eapply Forall_impl; [|exact Hf]. cbv beta. intros c Hc. lia.
Qed.

Lemma nodupb_of_nodup l : NoDup l -> nodupb l = true.
Proof.
  induction 1 as [|a l Ha _ IH]; [reflexivity|]. cbn [nodupb]. rewrite IH, andb_true_r.
  apply negb_true_iff. apply not_true_is_false. intros He. apply existsb_exists in He.
  destruct He as (y & Hy & Hay). apply Ha. apply N.eqb_eq in Hay. subst. exact Hy.
Qed.

Lemma getn_rec_at s i n : getn (nodes s) i = Ok n <-> rec_at s i = Some n.
Proof.
  unfold getn, rec_at. destruct (i =? 0); [split; discriminate|].
  destruct (nth_error (nodes s) (N.to_nat (i - 1))) as [x|]; split; intros HH;
    try discriminate; injection HH as <-; reflexivity.
Qed.

(* following the links from the root reads the tree *)
Lemma walk_rep s t : forall fuel,
  rep (nodes s) t -> (depth t < fuel)%nat -> walk fuel s (idx t) = Some (dt_of t).
Proof.
  induction t as [|l IHl i k v h r IHr]; intros fuel Hrep Hf; (destruct fuel as [|f]; [lia|]).
  - reflexivity.
  - cbn [rep] in Hrep. destruct Hrep as ((n & Hn & El & Er & Eh & Ek & Ev) & Hl & Hr).
    cbn [depth] in Hf. cbn [idx walk dt_of].
    pose proof (getn_nonzero _ _ _ Hn) as Hnz. destruct (N.eqb_spec i 0) as [?|_]; [contradiction|].
    apply getn_rec_at in Hn. rewrite Hn, El, Er, (IHl f Hl), (IHr f Hr) by lia.
    rewrite Ek, Ev, Eh. reflexivity.
Qed.

(* following the height registers from the free-list head reads the chain *)
Lemma free_chain_fchain s fr : forall h term,
  fchain (nodes s) h fr term -> free_chain (length fr) s h = Some fr.
Proof.
  induction fr as [|x fr IH]; intros h term; cbn [fchain length free_chain]; [reflexivity|].
  intros (-> & n & Hn & Hc). apply getn_rec_at in Hn. rewrite Hn, (IH _ _ Hc). reflexivity.
Qed.

Lemma fchain_next ns fr : forall h term, fchain ns h fr term ->
  forall x, In x fr -> exists n, getn ns x = Ok n /\ (In (nh n) fr \/ nh n = term).
Proof.
  induction fr as [|x0 fr IH]; intros h term; cbn [fchain]; [intros _ x []|].
  intros (_ & n & Hn & Hc) x [<-|Hx].
  - exists n. split; [exact Hn|]. destruct fr as [|y fr']; cbn [fchain] in Hc.
    + right. exact Hc.
    + left. right. left. symmetry. exact (proj1 Hc).
  - destruct (IH _ _ Hc x Hx) as (n' & Hn' & Hcase). exists n'. split; [exact Hn'|].
    destruct Hcase as [Hin|Ht]; [left; right; exact Hin|right; exact Ht].
Qed.

Lemma idx_in_idxs t : idx t = 0 \/ In (idx t) (idxs t).
Proof. destruct t as [|l i k v h r]; [left; reflexivity|right]. cbn [idx idxs]. apply in_or_app. right. left. reflexivity. Qed.

(* the record of a triple of the tree *)
Lemma rep_triple ns t slot k v : rep ns t -> In (slot, k, v) (triples t) ->
  exists n, getn ns slot = Ok n /\ nk n = k /\ nv n = v.
Proof.
  induction t as [|l IHl i k0 v0 h r IHr]; cbn [rep triples]; [intros _ []|].
  intros ((n & Hn & _ & _ & _ & Ek & Ev) & Hl & Hr) Hin. apply in_app_or in Hin.
  destruct Hin as [Hin|[Heq|Hin]]; [apply IHl; assumption| |apply IHr; assumption].
  injection Heq as <- <- <-. exists n. auto.
Qed.

Section Doc.
Variable wbytes : nat.
Variable lay : layout.
Hypothesis Hw : wbytes = 1%nat \/ wbytes = 4%nat.
Hypothesis Hk : 0 < ksz lay.
Hypothesis Hv : 0 < vsz lay.

Local Notation bits := (bits_of wbytes).
Local Notation encode := (encode wbytes lay).
Local Notation decode := (decode wbytes lay).
Local Notation decode_doc := (decode_doc wbytes lay).
Local Notation st_ok := (st_ok wbytes lay).
Local Notation node_ok := (node_ok wbytes lay).
Local Notation word_ok := (word_ok wbytes).
Local Notation data_len := (data_len wbytes lay).
Local Notation rec_len := (rec_len wbytes lay).

Lemma okbits_w : okbits bits.
Proof. unfold okbits, bits_of. destruct Hw as [-> | ->]; [left|right]; reflexivity. Qed.

Lemma lseq_eq s : Format.lseq wbytes s = Alloc.lseq bits s.
Proof.
  unfold Format.lseq, Alloc.lseq, lseqv, bits_of.
  destruct Hw as [-> | ->]; destruct (seq s =? 0); reflexivity.
Qed.

(* ------------------------------------------------------------------ *)
(* 5. representable states                                             *)

(* the keys and values stored in the tree fit the key / value field types *)
Definition kv_fits (t : itree) : Prop :=
  forall slot k v, In (slot, k, v) (triples t) ->
    zval_ok (fsigned (kty lay)) (N.to_nat (ksz lay)) k /\
    zval_ok (fsigned (vty lay)) (N.to_nat (vsz lay)) v.

(* NOT implied by [alloc_inv] as it stands: the bump cursor and the
   terminator of the free chain fit an index word.  (For the u8 tree
   [alloc_inv] admits seq = 256 with capacity 255; the terminator is only
   tied to [seq] while lseq <= cap.) *)
Definition hdr_fits (s : st) (term : N) : Prop := seq s < 2 ^ bits /\ term < 2 ^ bits.

Lemma live_node_ok ns t :
  rep ns t -> hmax t < 2 ^ bits -> (forall x, In x (idxs t) -> x < 2 ^ bits) -> kv_fits t ->
  forall i, In i (idxs t) -> exists n, getn ns i = Ok n /\ node_ok n.
Proof.
  assert (P0 : 0 < 2 ^ bits) by (apply pow_pos_bits).
  induction t as [|l IHl i0 k v h r IHr]; cbn [rep hmax idxs]; [intros _ _ _ _ i []|].
  intros ((n & Hn & El & Er & Eh & Ek & Ev) & Hl & Hr) Hh Hx Hkv i Hi.
  assert (Hxl : forall x, In x (idxs l) -> x < 2 ^ bits) by (intros x Hin; apply Hx, in_or_app; left; exact Hin).
  assert (Hxr : forall x, In x (idxs r) -> x < 2 ^ bits)
    by (intros x Hin; apply Hx, in_or_app; right; right; exact Hin).
  apply in_app_or in Hi. destruct Hi as [Hi|[<-|Hi]].
  - apply IHl; auto; [lia|]. intros slot k' v' Hin. apply (Hkv slot). cbn [triples]. apply in_or_app. left. exact Hin.
  - exists n. split; [exact Hn|]. unfold FormatFacts.node_ok, FormatFacts.word_ok.
    fold (bits_of wbytes). rewrite El, Er, Eh, Ek, Ev.
    split; [destruct (idx_in_idxs l) as [-> | Hin]; [exact P0|apply Hxl; exact Hin]|].
    split; [destruct (idx_in_idxs r) as [-> | Hin]; [exact P0|apply Hxr; exact Hin]|].
    split; [lia|]. apply (Hkv i0). cbn [triples]. apply in_or_app. right. left. reflexivity.
  - apply IHr; auto; [lia|]. intros slot k' v' Hin. apply (Hkv slot). cbn [triples].
    apply in_or_app. right. right. exact Hin.
Qed.

Theorem inv_st_ok s t fr term :
  Inv bits s t fr term -> kv_fits t -> hdr_fits s term -> st_ok s.
Proof.
  intros H Hkv [Hseq Hterm]. pose proof okbits_w as Hb.
  pose proof (inv_alloc _ _ _ _ _ H) as Ha.
  pose proof Ha as [Hnd Hrg Hcnt Hsize Hch Htm Hfr Hz Hl1 Hl2 Hcl Hcw Hcw1].
  assert (P0 : 0 < 2 ^ bits) by (apply pow_pos_bits).
  assert (Hslot : forall x, In x (idxs t ++ fr) -> x < 2 ^ bits).
  { intros x Hx. destruct (Hrg x Hx). lia. }
  unfold FormatFacts.st_ok, FormatFacts.word_ok. fold (bits_of wbytes).
  split.
  { rewrite (inv_root _ _ _ _ _ H). destruct (idx_in_idxs t) as [-> | Hin]; [exact P0|].
    apply Hslot, in_or_app. left. exact Hin. }
  split; [pose proof (alloc_size_le_cap _ _ _ _ _ Ha); lia|].
  split; [exact Hcw|].
  split.
  { destruct fr as [|x fr']; cbn [fchain] in Hch; [rewrite Hch; exact Hterm|].
    destruct Hch as [-> _]. apply Hslot, in_or_app. right. left. reflexivity. }
  split; [exact Hseq|].
  (* the records *)
  apply Forall_forall. intros n Hn. apply In_nth_error in Hn. destruct Hn as [j Hj].
  assert (Hjl : (j < length (nodes s))%nat) by (apply nth_error_Some; congruence).
  assert (Hg : getn (nodes s) (N.of_nat j + 1) = Ok n).
  { unfold getn. destruct (N.eqb_spec (N.of_nat j + 1) 0) as [?|_]; [lia|].
    replace (N.to_nat (N.of_nat j + 1 - 1)) with j by lia. rewrite Hj. reflexivity. }
  destruct (N.lt_ge_cases (N.of_nat j + 1) (Alloc.lseq bits s)) as [Hlt|Hge].
  - pose proof (alloc_cover _ _ _ _ _ (N.of_nat j + 1) Ha) as Hc.
    assert (Hin : In (N.of_nat j + 1) (idxs t ++ fr)) by (apply Hc; lia).
    apply in_app_or in Hin. destruct Hin as [Hin|Hin].
    + destruct (live_node_ok (nodes s) t (inv_rep _ _ _ _ _ H)) with (i := N.of_nat j + 1)
        as (n' & Hn' & Hok); try assumption.
      * pose proof (hok_hmax t (inv_hok _ _ _ _ _ H)). pose proof (inv_levels _ _ _ _ _ H Hb).
        pose proof (lvbound_small _ Hb). lia.
      * intros x Hx. apply Hslot, in_or_app. left. exact Hx.
      * rewrite Hg in Hn'. injection Hn' as <-. exact Hok.
    + destruct (Hfr _ Hin) as (n1 & Hn1 & Z1 & Z2 & Z3 & Z4).
      destruct (fchain_next _ _ _ _ Hch _ Hin) as (n2 & Hn2 & Hnext).
      rewrite Hg in Hn1, Hn2. injection Hn1 as <-. injection Hn2 as <-.
      pose proof (node0_ok wbytes lay Hw Hk Hv) as (_ & _ & _ & K0 & V0). cbn [node0 nk nv] in K0, V0.
      unfold FormatFacts.node_ok, FormatFacts.word_ok. fold (bits_of wbytes).
      rewrite Z1, Z2, Z3, Z4. repeat split; try assumption.
      destruct Hnext as [Hnx| ->]; [|exact Hterm]. apply Hslot, in_or_app. right. exact Hnx.
  - rewrite Hz in Hg by lia. injection Hg as <-. apply node0_ok; assumption.
Qed.

(* where [hdr_fits] does follow from the invariant: while the bump cursor
   has not passed the capacity (then the terminator is the cursor), and, for
   the cursor alone, in the u32 tree *)
Lemma seq_le_lseq s : seq s <= Alloc.lseq bits s.
Proof. clear Hw Hk Hv.
  unfold Alloc.lseq, lseqv. destruct (N.eqb_spec (seq s) 0) as [->|_]; cbn [andb]; [apply N.le_0_l|lia].
Qed.
Theorem hdr_fits_room s t fr term :
  Inv bits s t fr term -> Alloc.lseq bits s <= cap s -> hdr_fits s term.
Proof. clear Hw Hk Hv.
  intros H Hle. pose proof (inv_alloc _ _ _ _ _ H) as Ha.
  pose proof (ai_capw _ _ _ _ _ Ha) as Hc. pose proof (seq_le_lseq s) as Hs.
  unfold hdr_fits. rewrite (ai_term _ _ _ _ _ Ha Hle). lia.
Qed.
Theorem seq_fits_u32 s t fr term :
  Inv bits s t fr term -> wbytes = 4%nat -> seq s < 2 ^ bits.
Proof. clear Hw Hk Hv.
  intros H E. pose proof (inv_alloc _ _ _ _ _ H) as Ha.
  pose proof (ai_lseq2 _ _ _ _ _ Ha) as H2. pose proof (seq_le_lseq s) as Hs.
  assert (Hne : bits <> 8) by (unfold bits_of; rewrite E; discriminate).
  pose proof (ai_capw1 _ _ _ _ _ Ha Hne). lia.
Qed.
(* with an empty free chain the terminator is the free-list head word *)
Theorem hdr_fits_nofree s t term :
  Inv bits s t [] term -> seq s < 2 ^ bits -> flh s < 2 ^ bits -> hdr_fits s term.
Proof. clear Hw Hk Hv.
  intros H Hs Hf. pose proof (ai_chain _ _ _ _ _ (inv_alloc _ _ _ _ _ H)) as Hc. cbn [fchain] in Hc.
  unfold hdr_fits. rewrite <- Hc. auto.
Qed.

(* ------------------------------------------------------------------ *)
(* 6. the independent reader                                           *)

Definition never_of (s : st) : list N :=
  filter (fun i => Alloc.lseq bits s <=? i) (map N.of_nat (List.seq 1 (length (nodes s)))).

Lemma never_of_in s i : In i (never_of s) <-> Alloc.lseq bits s <= i /\ 1 <= i <= N.of_nat (length (nodes s)).
Proof.
  unfold never_of. rewrite filter_In, in_map_iff. split.
  - intros ((j & <- & Hj) & Hle). apply in_seq in Hj. lia.
  - intros (Hle & H1 & H2). split; [|lia]. exists (N.to_nat i). split; [lia|]. apply in_seq. lia.
Qed.

Lemma never_of_nodup s : NoDup (never_of s).
Proof.
  unfold never_of. apply NoDup_filter. apply FinFun.Injective_map_NoDup; [|apply seq_NoDup].
  intros a b Hab. lia.
Qed.

Lemma nfree_eq s t fr term :
  Inv bits s t fr term ->
  N.to_nat (Alloc.lseq bits s - 1 - N.of_nat (length (idxs t))) = length fr /\
  N.of_nat (length fr) = Alloc.lseq bits s - 1 - size s.
Proof.
  intros H. pose proof (inv_alloc _ _ _ _ _ H) as Ha.
  pose proof (ai_count _ _ _ _ _ Ha) as Hc. pose proof (ai_size _ _ _ _ _ Ha) as Hs.
  rewrite app_length in Hc. lia.
Qed.

(* the well-formedness verdict, over the classes the reader found *)
Definition wf_of (s : st) (live fr never : list N) : bool :=
  let nlive := N.of_nat (length live) in
  let sq := Format.lseq wbytes s in
  nodupb (live ++ fr)
  && forallb (fun i => (1 <=? i) && (i <? sq)) (live ++ fr)
  && (nlive =? size s) && (nlive + 1 <=? sq) && (sq <=? cap s + 1)
  && (cap s <=? N.of_nat (length (nodes s)))
  && forallb (fun i => match rec_at s i with Some n => is_zero_node n | None => false end) never
  && forallb (fun i => match rec_at s i with
                       | Some n => (nl n =? 0) && (nr n =? 0) && (nk n =? 0)%Z && (nv n =? 0)%Z
                       | None => false end) fr.

(* the reader's result on an encoded invariant state, explicitly *)
Theorem decode_doc_inv s t fr term :
  Inv bits s t fr term -> st_ok s ->
  decode_doc (encode s) =
  Some (mkDoc [root s; size s; cap s; flh s; seq s] (dt_of t) fr (never_of s)
              (wf_of s (idxs t) fr (never_of s)) (sorted_keys (keys t)) (d_balanced (dt_of t))).
Proof.
  intros H Hok. unfold Format.decode_doc.
  rewrite (decode_encode wbytes lay Hw Hk Hv s Hok).
  pose proof (inv_rep _ _ _ _ _ H) as Hrep.
  assert (Hfuel : (depth t < S (length (nodes s)))%nat).
  { apply (fuel_enough s t Hrep). exact (inv_nodup _ _ _ _ _ H). }
  rewrite (inv_root _ _ _ _ _ H), (walk_rep s t _ Hrep Hfuel). cbv zeta.
  rewrite d_inorder_dt_of.
  change (map (fun x : N * Z * Z => fst (fst x)) (triples t)) with (map tr_slot (triples t)).
  change (map (fun x : N * Z * Z => snd (fst x)) (triples t)) with (map tr_key (triples t)).
  rewrite <- idxs_triples, <- keys_triples, lseq_eq.
  rewrite (proj1 (nfree_eq s t fr term H)).
  rewrite (free_chain_fchain s fr _ _ (ai_chain _ _ _ _ _ (inv_alloc _ _ _ _ _ H))).
  unfold wf_of, never_of. rewrite lseq_eq. reflexivity.
Qed.

Lemma wf_of_inv s t fr term : Inv bits s t fr term -> wf_of s (idxs t) fr (never_of s) = true.
Proof.
  intros H. pose proof (inv_alloc _ _ _ _ _ H) as Ha.
  pose proof Ha as [Hnd Hrg Hcnt Hsize Hch Htm Hfr Hz Hl1 Hl2 Hcl Hcw Hcw1].
  unfold wf_of. cbv zeta. rewrite lseq_eq.
  rewrite (nodupb_of_nodup _ Hnd). cbn [andb].
  assert (F1 : forallb (fun i => (1 <=? i) && (i <? Alloc.lseq bits s)) (idxs t ++ fr) = true).
  { apply forallb_forall. intros x Hx. destruct (Hrg x Hx). lia. }
  rewrite F1. cbn [andb].
  assert (F2 : forallb (fun i => match rec_at s i with Some n => is_zero_node n | None => false end)
                       (never_of s) = true).
  { apply forallb_forall. intros x Hx. apply never_of_in in Hx. destruct Hx as (X1 & X2 & X3).
    pose proof (Hz x X1 X3) as Hg. apply getn_rec_at in Hg. rewrite Hg. reflexivity. }
  rewrite F2.
  assert (F3 : forallb (fun i => match rec_at s i with
                                 | Some n => (nl n =? 0) && (nr n =? 0) && (nk n =? 0)%Z && (nv n =? 0)%Z
                                 | None => false end) fr = true).
  { apply forallb_forall. intros x Hx. destruct (Hfr x Hx) as (n & Hn & Z1 & Z2 & Z3 & Z4).
    apply getn_rec_at in Hn. rewrite Hn, Z1, Z2, Z3, Z4. reflexivity. }
  rewrite F3. rewrite app_length in Hcnt. rewrite !andb_true_r. lia.
Qed.

(* every slot of the buffer is in exactly one of the three classes *)
Lemma classes_nodup s t fr term : Inv bits s t fr term -> NoDup (idxs t ++ fr ++ never_of s).
Proof.
  intros H. pose proof (inv_alloc _ _ _ _ _ H) as Ha. rewrite app_assoc.
  apply nodup_app_intro; [exact (ai_nodup _ _ _ _ _ Ha)|apply never_of_nodup|].
  intros y Hy Hn. apply never_of_in in Hn. destruct (ai_range _ _ _ _ _ Ha y Hy). lia.
Qed.
Lemma classes_cover s t fr term i : Inv bits s t fr term ->
  (In i (idxs t ++ fr ++ never_of s) <-> 1 <= i <= N.of_nat (length (nodes s))).
Proof.
  intros H. pose proof (inv_alloc _ _ _ _ _ H) as Ha. rewrite app_assoc, in_app_iff, never_of_in.
  pose proof (ai_lseq1 _ _ _ _ _ Ha) as L1. pose proof (ai_lseq2 _ _ _ _ _ Ha) as L2.
  pose proof (ai_caplen _ _ _ _ _ Ha) as L3.
  split.
  - intros [Hi|Hi]; [destruct (ai_range _ _ _ _ _ Ha i Hi) as [R1 R2]; lia|lia].
  - intros [I1 I2]. destruct (N.lt_ge_cases i (Alloc.lseq bits s)) as [Hlt|Hge]; [left|right; lia].
    apply (alloc_cover _ _ _ _ _ i Ha); assumption.
Qed.

(* the full statement about the reader *)
Definition avl_doc_statement : Prop := forall s t fr term,
  Inv bits s t fr term -> kv_fits t -> hdr_fits s term ->
  exists d, decode_doc (encode s) = Some d /\
    d_hdr d = [root s; size s; cap s; flh s; seq s] /\
    d_tree d = dt_of t /\
    d_inorder (d_tree d) = triples t /\
    map tr_kv (d_inorder (d_tree d)) = inorder t /\
    (forall key, get s key = Ok (sm_find (map tr_kv (d_inorder (d_tree d))) key, t_log t key)) /\
    d_free d = fr /\ N.of_nat (length fr) = Alloc.lseq bits s - 1 - size s /\
    (forall i, In i (d_never d) <-> Alloc.lseq bits s <= i /\ 1 <= i <= N.of_nat (length (nodes s))) /\
    d_wf d = true /\ d_bst d = true /\ d_bal d = true /\
    NoDup (idxs t ++ fr ++ d_never d) /\
    (forall i, In i (idxs t ++ fr ++ d_never d) <-> 1 <= i <= N.of_nat (length (nodes s))) /\
    N.of_nat (length (encode s)) = data_len (N.of_nat (length (nodes s))).

Theorem avl_doc : avl_doc_statement.
Proof.
  intros s t fr term H Hkv Hhf. pose proof (inv_st_ok s t fr term H Hkv Hhf) as Hok.
  eexists. split; [apply (decode_doc_inv s t fr term H Hok)|]. cbn [d_hdr d_tree d_free d_never d_wf d_bst d_bal].
  split; [reflexivity|]. split; [reflexivity|]. rewrite d_inorder_dt_of.
  split; [reflexivity|]. split; [symmetry; apply inorder_triples|].
  split; [intros key; rewrite <- inorder_triples; apply (get_inv_spec bits s t fr term key H)|].
  split; [reflexivity|]. split; [apply (nfree_eq s t fr term H)|].
  split; [intros i; apply never_of_in|].
  split; [apply (wf_of_inv s t fr term H)|].
  split; [apply sorted_keys_of_sorted; apply bst_sorted; exact (inv_bst _ _ _ _ _ H)|].
  split; [apply d_balanced_dt_of; [exact (inv_avl _ _ _ _ _ H)|exact (inv_hok _ _ _ _ _ H)]|].
  split; [apply (classes_nodup s t fr term H)|].
  split; [intros i; apply (classes_cover s t fr term i H)|].
  apply encode_data_len; assumption.
Qed.

(* ------------------------------------------------------------------ *)
(* 8. data_len                                                         *)

Theorem inv_data_len s t fr term :
  Inv bits s t fr term ->
  N.of_nat (length (encode s)) = data_len (N.of_nat (length (nodes s))) /\
  (N.of_nat (length (nodes s)) <= cap s -> N.of_nat (length (encode s)) = data_len (cap s)) /\
  data_len (cap s) <= N.of_nat (length (encode s)).
Proof.
  intros H. pose proof (ai_caplen _ _ _ _ _ (inv_alloc _ _ _ _ _ H)) as Hc.
  pose proof (encode_data_len wbytes lay Hw Hk Hv s) as He.
  split; [exact He|]. split.
  - intros Hle. rewrite He. f_equal. lia.
  - rewrite He. unfold Format.data_len. apply N.add_le_mono_l. apply N.mul_le_mono_r. exact Hc.
Qed.

End Doc.

(* ------------------------------------------------------------------ *)
(* 7. the slot returned by insert; live entries never move             *)

Lemma t_update_triples_other t key v' slot k v :
  In (slot, k, v) (triples t) -> k <> key -> In (slot, k, v) (triples (t_update t key v')).
Proof.
  induction t as [|l IHl i k0 v0 h r IHr]; cbn [triples t_update]; [intros []|].
  intros Hin Hne. destruct (Z.ltb_spec key k0) as [H1|H1]; [|destruct (Z.ltb_spec k0 key) as [H2|H2]];
    cbn [triples]; apply in_app_or in Hin; apply in_or_app.
  - destruct Hin as [Hin|Hin]; [left; apply IHl; assumption|right; exact Hin].
  - destruct Hin as [Hin|[Heq|Hin]]; [left; exact Hin|right; left; exact Heq|right; right; apply IHr; assumption].
  - destruct Hin as [Hin|[Heq|Hin]]; [left; exact Hin| |right; right; exact Hin].
    injection Heq as <- <- <-. lia.
Qed.
Lemma t_update_find t key v' slot v :
  t_find t key = Some (slot, v) -> t_find (t_update t key v') key = Some (slot, v').
Proof.
  induction t as [|l IHl i k0 v0 h r IHr]; cbn [t_find t_update]; [discriminate|].
  destruct (key <? k0)%Z eqn:E1; [cbn [t_find]; rewrite E1; exact IHl|].
  destruct (k0 <? key)%Z eqn:E2; cbn [t_find]; rewrite E1, E2; [exact IHr|].
  intros [= <- _]. reflexivity.
Qed.

Section Moves.
Variable bits : N.

(* the index returned by [insert] is the record that holds the entry *)
Theorem insert_slot_holds s t fr term key value s' new log :
  Inv bits s t fr term -> okbits bits ->
  insert bits s key value = Ok (s', Some new, log) ->
  exists fr' term',
    Inv bits s' (t_insert t new key value) fr' term' /\
    In (new, key, value) (triples (t_insert t new key value)) /\
    t_find (t_insert t new key value) key = Some (new, value) /\
    ~ In new (idxs t) /\
    (exists n, getn (nodes s') new = Ok n /\ rec_at s' new = Some n /\ nk n = key /\ nv n = value) /\
    (forall slot k v, In (slot, k, v) (triples t) -> In (slot, k, v) (triples (t_insert t new key value))).
Proof.
  intros H Hb Hi. destruct (insert_spec bits s t fr term key value H Hb) as (H1 & H2 & H3).
  destruct (t_find t key) as [x|] eqn:Ef; [rewrite H1 in Hi by discriminate; discriminate|].
  destruct (is_full s) eqn:Efull; [rewrite (H2 eq_refl eq_refl) in Hi; discriminate|].
  destruct (H3 eq_refl eq_refl) as (s2 & new2 & fr' & term' & Hi2 & HI & Hnew & _).
  rewrite Hi in Hi2. injection Hi2 as <- <- _.
  pose proof (inv_bst _ _ _ _ _ H) as Hbst.
  assert (Hnk : ~ In key (keys t)) by (apply (t_find_none_iff t key Hbst); exact Ef).
  destruct (t_insert_correct t new key value (inv_hok _ _ _ _ _ H) (inv_avl _ _ _ _ _ H) Hbst Hnk)
    as (_ & _ & Hbst' & _ & _ & _ & _ & _ & (l1 & l2 & _ & E2) & _ & Hkeep).
  assert (Hin : In (new, key, value) (triples (t_insert t new key value))).
  { rewrite E2. apply in_or_app. right. left. reflexivity. }
  exists fr', term'. split; [exact HI|]. split; [exact Hin|].
  split; [apply (t_find_iff _ _ _ _ Hbst'); exact Hin|]. split; [exact Hnew|].
  split; [|exact Hkeep].
  destruct (rep_triple _ _ _ _ _ (inv_rep _ _ _ _ _ HI) Hin) as (n & Hn & Ek & Ev).
  exists n. split; [exact Hn|]. split; [apply getn_rec_at; exact Hn|]. auto.
Qed.

(* a refused insertion changes nothing *)
Theorem insert_refused_same s t fr term key value s' log :
  Inv bits s t fr term -> okbits bits ->
  insert bits s key value = Ok (s', None, log) -> s' = s.
Proof.
  intros H Hb Hi. destruct (insert_spec bits s t fr term key value H Hb) as (H1 & H2 & H3).
  destruct (t_find t key) as [x|] eqn:Ef; [rewrite H1 in Hi by discriminate; injection Hi as <- _; reflexivity|].
  destruct (is_full s) eqn:Efull; [rewrite (H2 eq_refl eq_refl) in Hi; injection Hi as <- _; reflexivity|].
  destruct (H3 eq_refl eq_refl) as (s2 & new2 & fr' & term' & Hi2 & _).
  rewrite Hi in Hi2. discriminate.
Qed.

(* live entries never move: insert *)
Theorem insert_never_moves s t fr term key value :
  Inv bits s t fr term -> okbits bits ->
  exists s' r t' fr' term',
    insert bits s key value = Ok (s', r, t_log t key) /\ Inv bits s' t' fr' term' /\
    (forall slot k v, In (slot, k, v) (triples t) -> In (slot, k, v) (triples t') /\
       exists n, getn (nodes s') slot = Ok n /\ nk n = k /\ nv n = v).
Proof.
  intros H Hb. destruct (insert_spec bits s t fr term key value H Hb) as (H1 & H2 & H3).
  assert (Hsame : forall slot k v, In (slot, k, v) (triples t) -> In (slot, k, v) (triples t) /\
            exists n, getn (nodes s) slot = Ok n /\ nk n = k /\ nv n = v).
  { intros slot k v Hin. split; [exact Hin|]. apply (rep_triple _ t); [exact (inv_rep _ _ _ _ _ H)|exact Hin]. }
  destruct (t_find t key) as [x|] eqn:Ef.
  { exists s, None, t, fr, term. split; [apply H1; discriminate|]. split; [exact H|exact Hsame]. }
  destruct (is_full s) eqn:Efull.
  { exists s, None, t, fr, term. split; [apply H2; reflexivity|]. split; [exact H|exact Hsame]. }
  destruct (H3 eq_refl eq_refl) as (s' & new & fr' & term' & Hi & HI & _).
  destruct (insert_slot_holds s t fr term key value s' new _ H Hb Hi) as (_ & _ & _ & _ & _ & _ & _ & Hkeep).
  exists s', (Some new), (t_insert t new key value), fr', term'.
  split; [exact Hi|]. split; [exact HI|]. intros slot k v Hin. split; [apply Hkeep; exact Hin|].
  apply (rep_triple _ (t_insert t new key value)); [exact (inv_rep _ _ _ _ _ HI)|apply Hkeep; exact Hin].
Qed.

(* live entries never move: get_mut + write (only the value of [key] changes) *)
Theorem get_mut_never_moves s t fr term key v' :
  Inv bits s t fr term ->
  exists s',
    get_mut_set s key v' = Ok (s', sm_find (inorder t) key, t_log t key) /\
    Inv bits s' (t_update t key v') fr term /\
    (forall slot k v, In (slot, k, v) (triples t) -> k <> key ->
       In (slot, k, v) (triples (t_update t key v')) /\
       exists n, getn (nodes s') slot = Ok n /\ nk n = k /\ nv n = v) /\
    (forall slot v, t_find t key = Some (slot, v) ->
       t_find (t_update t key v') key = Some (slot, v') /\
       exists n, getn (nodes s') slot = Ok n /\ nk n = key /\ nv n = v').
Proof.
  intros H. destruct (get_mut_inv_spec bits s t fr term key v' H) as (s' & Hg & HI & _).
  exists s'. split; [exact Hg|]. split; [exact HI|]. split.
  - intros slot k v Hin Hne. pose proof (t_update_triples_other t key v' slot k v Hin Hne) as Hin'.
    split; [exact Hin'|]. apply (rep_triple _ (t_update t key v')); [exact (inv_rep _ _ _ _ _ HI)|exact Hin'].
  - intros slot v Hf. pose proof (t_update_find t key v' slot v Hf) as Hf'. split; [exact Hf'|].
    apply (rep_triple _ (t_update t key v')); [exact (inv_rep _ _ _ _ _ HI)|].
    apply t_find_In. exact Hf'.
Qed.

Section Remove.
Hypothesis Hremove : remove_spec_statement bits.

(* live entries never move: remove (every entry but the removed one stays
   in its slot; the removed slot heads the free chain) *)
Theorem remove_never_moves s t fr term key :
  Inv bits s t fr term -> okbits bits ->
  exists s' r t' fr' term',
    remove bits s key = Ok (s', r, t_log t key) /\ Inv bits s' t' fr' term' /\
    r = option_map snd (t_find t key) /\
    (forall slot v, t_find t key = Some (slot, v) -> fr' = slot :: fr /\ t' = t_remove t key) /\
    (t_find t key = None -> s' = s /\ t' = t) /\
    (forall slot k v, In (slot, k, v) (triples t) -> k <> key ->
       In (slot, k, v) (triples t') /\
       exists n, getn (nodes s') slot = Ok n /\ nk n = k /\ nv n = v).
Proof.
  intros H Hb. destruct (Hremove s t fr term key H Hb) as (R1 & R2).
  destruct (t_find t key) as [[slot v]|] eqn:Ef.
  - destruct (R2 slot v eq_refl) as (s' & fr' & term' & Hr & HI & Hfr & _).
    destruct (t_remove_correct t key slot v (inv_hok _ _ _ _ _ H) (inv_avl _ _ _ _ _ H) (inv_bst _ _ _ _ _ H) Ef)
      as (_ & _ & _ & _ & _ & _ & _ & _ & _ & _ & Hkeep & _).
    exists s', (Some v), (t_remove t key), fr', term'.
    split; [exact Hr|]. split; [exact HI|]. split; [reflexivity|].
    split; [intros slot0 v0 [= <- <-]; auto|]. split; [discriminate|].
    intros slot0 k0 v0 Hin Hne. split; [apply Hkeep; assumption|].
    apply (rep_triple _ (t_remove t key)); [exact (inv_rep _ _ _ _ _ HI)|apply Hkeep; assumption].
  - exists s, None, t, fr, term. split; [apply R1; reflexivity|]. split; [exact H|].
    split; [reflexivity|]. split; [discriminate|]. split; [auto|].
    intros slot0 k0 v0 Hin _. split; [exact Hin|].
    apply (rep_triple _ t); [exact (inv_rep _ _ _ _ _ H)|exact Hin].
Qed.
End Remove.

(* ------------------------------------------------------------------ *)
(* 9. histories interrupted by dropping the handle                     *)

Lemma final_c_app ops1 : forall s s1 ops2,
  final_c bits s ops1 = Ok s1 -> final_c bits s (ops1 ++ ops2) = final_c bits s1 ops2.
Proof.
  induction ops1 as [|o r IH]; intros s s1 ops2; cbn [final_c app]; [intros [= <-]; reflexivity|].
  destruct (step_c bits s o) as [[[s' x] lg]|p|]; cbn [bind]; [|discriminate|discriminate].
  apply IH.
Qed.
Lemma run_c_app ops1 : forall s s1 ops2,
  final_c bits s ops1 = Ok s1 -> run_c bits s (ops1 ++ ops2) = run_c bits s ops1 ++ run_c bits s1 ops2.
Proof.
  induction ops1 as [|o r IH]; intros s s1 ops2; cbn [final_c run_c app]; [intros [= <-]; reflexivity|].
  destruct (step_c bits s o) as [[[s' x] lg]|p|]; cbn [bind]; [|discriminate|discriminate].
  intros Hf. rewrite (IH s' s1 ops2 Hf). reflexivity.
Qed.
End Moves.

Section Reopen.
Variable wbytes : nat.
Variable lay : layout.
Hypothesis Hw : wbytes = 1%nat \/ wbytes = 4%nat.
Hypothesis Hk : 0 < ksz lay.
Hypothesis Hv : 0 < vsz lay.
Local Notation bits := (bits_of wbytes).

(* the header is the five index-width words root, size, capacity, free-list
   head, sequence *)
Theorem inv_header_words s t fr term :
  Inv bits s t fr term -> kv_fits lay t -> hdr_fits wbytes s term ->
  word wbytes (encode wbytes lay s) 0 = root s /\ word wbytes (encode wbytes lay s) 1 = size s /\
  word wbytes (encode wbytes lay s) 2 = cap s /\ word wbytes (encode wbytes lay s) 3 = flh s /\
  word wbytes (encode wbytes lay s) 4 = seq s.
Proof.
  intros H Hkv Hhf. apply encode_words; try assumption.
  apply (inv_st_ok wbytes lay Hw Hk Hv s t fr term); assumption.
Qed.

(* every entry of the tree is, in the bytes, the record addressed by its
   1-based slot: left, right, height words, then key and value fields *)
Theorem inv_entry_bytes s t fr term slot k v :
  Inv bits s t fr term -> In (slot, k, v) (triples t) ->
  exists n, rec_at s slot = Some n /\ nk n = k /\ nv n = v /\
    sub (encode wbytes lay s) (rec_off wbytes lay slot) (rec_len wbytes lay) = enc_node wbytes lay n /\
    (kv_fits lay t -> hdr_fits wbytes s term ->
     dec_node wbytes lay (sub (encode wbytes lay s) (rec_off wbytes lay slot) (rec_len wbytes lay)) = n).
Proof.
  intros H Hin. destruct (rep_triple _ _ _ _ _ (inv_rep _ _ _ _ _ H) Hin) as (n & Hn & Ek & Ev).
  apply getn_rec_at in Hn. exists n. split; [exact Hn|]. split; [exact Ek|]. split; [exact Ev|].
  split; [apply encode_rec_at; assumption|]. intros Hkv Hhf.
  apply encode_rec_at_dec; try assumption. apply (inv_st_ok wbytes lay Hw Hk Hv s t fr term); assumption.
Qed.

(* the index returned by a tree insertion is the record holding that entry *)
Theorem insert_slot_bytes s t fr term key value s' new log :
  Inv bits s t fr term ->
  insert bits s key value = Ok (s', Some new, log) ->
  exists n, rec_at s' new = Some n /\ nk n = key /\ nv n = value /\
    sub (encode wbytes lay s') (rec_off wbytes lay new) (rec_len wbytes lay) = enc_node wbytes lay n.
Proof.
  intros H Hi.
  destruct (insert_slot_holds bits s t fr term key value s' new log H (okbits_w wbytes Hw) Hi)
    as (fr' & term' & _ & _ & _ & _ & (n & _ & Hn & Ek & Ev) & _).
  exists n. split; [exact Hn|]. split; [exact Ek|]. split; [exact Ev|]. apply encode_rec_at; assumption.
Qed.

(* the handle re-opened from the bytes (read-only view) IS the state *)
Theorem inv_decode_encode s t fr term :
  Inv bits s t fr term -> kv_fits lay t -> hdr_fits wbytes s term ->
  decode wbytes lay (encode wbytes lay s) = Some s.
Proof.
  intros H Hkv Hhf. apply decode_encode; try assumption. apply (inv_st_ok wbytes lay Hw Hk Hv s t fr term); assumption.
Qed.

(* the mutable view of a buffer whose size still matches the capacity is
   the same state again: no byte is written *)
Theorem inv_reopen_mut_same s t fr term :
  Inv bits s t fr term -> kv_fits lay t -> hdr_fits wbytes s term ->
  N.of_nat (length (nodes s)) <= cap s ->
  exists s0, decode wbytes lay (encode wbytes lay s) = Some s0 /\
    open_mut bits s0 = Ok s0 /\ encode wbytes lay s0 = encode wbytes lay s.
Proof.
  intros H Hkv Hhf Hle. exists s. split; [apply (inv_decode_encode s t fr term); assumption|].
  split; [apply open_mut_same; exact Hle|reflexivity].
Qed.

(* in general the mutable view keeps the tree (contents, slots) and claims
   the new records *)
Theorem inv_reopen_mut s t fr term :
  Inv bits s t fr term -> kv_fits lay t -> hdr_fits wbytes s term -> sizecond bits s ->
  exists s0 s' fr',
    decode wbytes lay (encode wbytes lay s) = Some s0 /\ open_mut bits s0 = Ok s' /\
    Inv bits s' t fr' term /\ cap s' = N.of_nat (length (nodes s)) /\
    length (nodes s') = length (nodes s) /\
    (N.of_nat (length (nodes s)) <= cap s -> s' = s /\ fr' = fr).
Proof.
  intros H Hkv Hhf Hsc.
  destruct (open_mut_inv_spec bits s t fr term H Hsc) as (s' & fr' & Ho & HI & _ & Hc & Hl & Hsame).
  exists s, s', fr'. split; [apply (inv_decode_encode s t fr term); assumption|]. auto.
Qed.

(* a history interrupted at any point by dropping the handle and re-opening
   from the bytes continues exactly as the uninterrupted one *)
Theorem reopen_continues s ops1 s1 t fr term ops2 :
  final_c bits s ops1 = Ok s1 ->
  Inv bits s1 t fr term -> kv_fits lay t -> hdr_fits wbytes s1 term ->
  exists s1', decode wbytes lay (encode wbytes lay s1) = Some s1' /\
    run_c bits s (ops1 ++ ops2) = run_c bits s ops1 ++ run_c bits s1' ops2 /\
    final_c bits s (ops1 ++ ops2) = final_c bits s1' ops2.
Proof.
  intros Hf H Hkv Hhf. exists s1. split; [apply (inv_decode_encode s1 t fr term); assumption|].
  split; [apply run_c_app; exact Hf|apply final_c_app; exact Hf].
Qed.

End Reopen.

(* ------------------------------------------------------------------ *)
(* [hdr_fits] is needed: the invariant as it stands admits a u8 state whose
   free record carries a terminator that does not fit a byte (the cursor has
   passed the capacity, so nothing ties the terminator to it); its encoding
   does not decode to the same state. *)
Example term_not_bounded_by_inv :
  let s := mkS 0 0 1 1 2 [mkN 0 0 999 0 0] in
  Inv 8 s E [1] 999 /\ decode 1 ex_lay8 (encode 1 ex_lay8 s) <> Some s.
Proof.
  cbv zeta. split.
  - constructor; cbn [rep hok avl bst idx idxs]; auto.
    constructor; cbn [app idxs].
    + constructor; [intros []|constructor].
    + intros x [<-|[]]. vm_compute. split; [discriminate|reflexivity].
    + reflexivity.
    + reflexivity.
    + cbn [fchain]. split; [reflexivity|]. eexists. split; [vm_compute; reflexivity|reflexivity].
    + vm_compute. intros HH. exfalso. apply HH. reflexivity.
    + intros x [<-|[]]. eexists. split; [vm_compute; reflexivity|]. repeat split.
    + intros j H1 H2. exfalso. change (Alloc.lseq 8 (mkS 0 0 1 1 2 [mkN 0 0 999 0 0])) with 2 in H1.
      change (N.of_nat (length (nodes (mkS 0 0 1 1 2 [mkN 0 0 999 0 0])))) with 1 in H2. lia.
    + vm_compute. discriminate.
    + vm_compute. discriminate.
    + vm_compute. discriminate.
    + reflexivity.
    + intros HH. exfalso. apply HH. reflexivity.
  - vm_compute. discriminate.
Qed.

(* ------------------------------------------------------------------ *)
(* the example state of Avl/Balance.v, u8 keys and i32 values: its bytes and
   what the independent reader finds *)
Example ex_doc :
  kv_fits ex_lay8 ex_tree /\ hdr_fits 1 ex_state 9 /\
  decode_doc 1 ex_lay8 (encode 1 ex_lay8 ex_state) =
  Some (mkDoc [4; 7; 10; 2; 9]
          (DT (DT (DT DE 1 10 100 0 DE) 3 30 300 1 DE) 4 40 400 3
              (DT (DT (DT DE 8 45 450 0 DE) 5 50 500 1 DE) 6 60 600 2 (DT DE 7 70 700 0 DE)))
          [2] [9; 10] true true true).
Proof.
  split; [|split; [split; reflexivity|vm_compute; reflexivity]].
  intros slot k v Hin. cbn [ex_tree triples app In] in Hin.
  repeat (destruct Hin as [Hin|Hin]; [injection Hin as <- <- <-; split; vm_compute; split; solve [discriminate|reflexivity]|]).
  destruct Hin.
Qed.

Print Assumptions inv_st_ok.
Print Assumptions hdr_fits_room.
Print Assumptions seq_fits_u32.
Print Assumptions hdr_fits_nofree.
Print Assumptions decode_doc_inv.
Print Assumptions avl_doc.
Print Assumptions inv_data_len.
Print Assumptions insert_slot_holds.
Print Assumptions insert_refused_same.
Print Assumptions insert_never_moves.
Print Assumptions get_mut_never_moves.
Print Assumptions remove_never_moves.
Print Assumptions inv_header_words.
Print Assumptions inv_entry_bytes.
Print Assumptions insert_slot_bytes.
Print Assumptions inv_decode_encode.
Print Assumptions inv_reopen_mut_same.
Print Assumptions inv_reopen_mut.
Print Assumptions reopen_continues.
