(* Layer C: function-by-function transcription of
     src/collections/avl_tree.rs      (bits = 32)
     src/collections/u8_avl_tree.rs   (bits = 8)
   Mutation through &mut self is state passing; loops run on explicit fuel;
   every panic site of the Rust code (with overflow checks on) is an explicit
   [Panic] outcome.  The state is the concrete representation: the header
   words and the record array. *)
From Coq Require Import List NArith ZArith Bool.
From Stevia Require Import Base.Res.
Import ListNotations.
Open Scope N_scope.

Record node := mkN { nl : N; nr : N; nh : N; nk : Z; nv : Z }.
Definition node0 : node := mkN 0 0 0 0%Z 0%Z.

Record st := mkS { root : N; size : N; cap : N; flh : N; seq : N; nodes : list node }.

Inductive dir := L | R.

(* (parent, branch, child) : the Rust [Ancestor] *)
Definition anc := (option N * option dir * N)%type.

(* node!(array, index) = array[(index - 1) as usize] *)
Definition getn (ns : list node) (i : N) : res node :=
  if i =? 0 then Panic PArith else
  match nth_error ns (N.to_nat (i - 1)) with Some n => Ok n | None => Panic POob end.

Definition setn (ns : list node) (i : N) (x : node) : res (list node) :=
  if i =? 0 then Panic PArith else
  if (N.to_nat (i - 1) <? length ns)%nat then Ok (set_nth ns (N.to_nat (i - 1)) x)
  else Panic POob.

Definition set_l (n : node) x := mkN x (nr n) (nh n) (nk n) (nv n).
Definition set_r (n : node) x := mkN (nl n) x (nh n) (nk n) (nv n).
Definition set_h (n : node) x := mkN (nl n) (nr n) x (nk n) (nv n).
Definition set_v (n : node) x := mkN (nl n) (nr n) (nh n) (nk n) x.

Definition with_nodes (s : st) ns := mkS (root s) (size s) (cap s) (flh s) (seq s) ns.
Definition with_root (s : st) x := mkS x (size s) (cap s) (flh s) (seq s) (nodes s).
Definition with_size (s : st) x := mkS (root s) x (cap s) (flh s) (seq s) (nodes s).
Definition with_cap (s : st) x := mkS (root s) (size s) x (flh s) (seq s) (nodes s).
Definition with_flh (s : st) x := mkS (root s) (size s) (cap s) x (seq s) (nodes s).
Definition with_seq (s : st) x := mkS (root s) (size s) (cap s) (flh s) x (nodes s).

Section Width.
(* index width in bits: 8 or 32 *)
Variable bits : N.

Definition wmax : N := 2 ^ bits.
Definition cadd (a b : N) : res N := if a + b <? wmax then Ok (a + b) else Panic PArith.
Definition csub (a b : N) : res N := if b <=? a then Ok (a - b) else Panic PArith.
(* `x as uN` from usize *)
Definition trunc (a : N) : N := a mod wmax.
(* The u8 tree bumps its cursor with wrapping_add (repair of D5); the u32
   tree with a checked + *)
Definition seq_succ (a : N) : res N :=
  if bits =? 8 then Ok ((a + 1) mod wmax) else cadd a 1.

(* `h as iN` *)
Definition as_signed (h : N) : Z :=
  if h <? 2 ^ (bits - 1) then Z.of_N h else (Z.of_N h - Z.of_N wmax)%Z.
Definition smax : Z := (Z.of_N (2 ^ (bits - 1)) - 1)%Z.
Definition smin : Z := (- Z.of_N (2 ^ (bits - 1)))%Z.
Definition sck (z : Z) : res Z := if ((smin <=? z) && (z <=? smax))%Z then Ok z else Panic PArith.

(* ---------------------------------------------------------------- *)
(* read-only interface                                              *)

Definition len (s : st) : N := size s.
Definition capacity (s : st) : N := cap s.
Definition is_full (s : st) : bool := cap s <=? size s.
Definition is_empty (s : st) : bool := size s =? 0.

(* find: returns the slot, and the log of keys the sought key was compared
   with (`<` then, if that is false, `>`: one or two comparisons per node) *)
Fixpoint find_loop (fuel : nat) (ns : list node) (key : Z) (cur : N) (log : list Z)
  : res (option N * list Z) :=
  match fuel with
  | O => Fuel
  | S f =>
    if cur =? 0 then Ok (None, log) else
    n <- getn ns cur ;;
    let current := nk n in
    if (key <? current)%Z then find_loop f ns key (nl n) (log ++ [current])
    else if (key >? current)%Z then find_loop f ns key (nr n) (log ++ [current; current])
    else Ok (Some cur, log ++ [current; current])
  end.

Definition fuel_of (s : st) : nat := S (length (nodes s)).

Definition find (s : st) (key : Z) : res (option N * list Z) :=
  find_loop (fuel_of s) (nodes s) key (root s) [].

Definition get (s : st) (key : Z) : res (option Z * list Z) :=
  '(r, log) <- find s key ;;
  match r with
  | None => Ok (None, log)
  | Some i => n <- getn (nodes s) i ;; Ok (Some (nv n), log)
  end.

Definition contains (s : st) (key : Z) : res (bool * list Z) :=
  '(r, log) <- find s key ;;
  Ok (match r with Some _ => true | None => false end, log).

Fixpoint lowest_loop (fuel : nat) (ns : list node) (cur : N) : res N :=
  match fuel with
  | O => Fuel
  | S f =>
    n <- getn ns cur ;;
    if nl n =? 0 then Ok cur else lowest_loop f ns (nl n)
  end.

Definition lowest (s : st) : res (option Z) :=
  if root s =? 0 then Ok None else
  i <- lowest_loop (fuel_of s) (nodes s) (root s) ;;
  n <- getn (nodes s) i ;; Ok (Some (nk n)).

(* get_mut followed by a write of [v'] through the returned reference *)
Definition get_mut_set (s : st) (key : Z) (v' : Z) : res (st * option Z * list Z) :=
  '(r, log) <- find s key ;;
  match r with
  | None => Ok (s, None, log)
  | Some i =>
    n <- getn (nodes s) i ;;
    ns <- setn (nodes s) i (set_v n v') ;;
    Ok (with_nodes s ns, Some (nv n), log)
  end.

(* ---------------------------------------------------------------- *)
(* allocator                                                        *)

Definition initialize (s : st) (capacity : N) : st :=
  mkS 0 0 capacity 1 1 (nodes s).

(* from_bytes_mut: header logic, including the growth branch.
   [threads] is the loop `for i in (sequence - 1)..nodes.len() as uN`
   (repair of D3: upstream started at `current`) *)
Fixpoint thread_loop (cnt : nat) (i : N) (ns : list node) (fl : N) : res (list node * N) :=
  match cnt with
  | O => Ok (ns, fl)
  | S c =>
    index <- cadd i 1 ;;
    n <- getn ns index ;;
    ns' <- setn ns index (set_h n fl) ;;
    thread_loop c (i + 1) ns' index
  end.

Definition open_mut (s : st) : res st :=
  let current := cap s in
  let n := N.of_nat (length (nodes s)) in
  if current <? n then
    let s1 := with_cap s (trunc n) in
    if negb (seq s =? flh s) then
      start <- csub (seq s) 1 ;;
      let stop := trunc n in
      '(ns, fl) <- thread_loop (N.to_nat (stop - start)) start (nodes s1) (flh s1) ;;
      sq <- cadd (trunc n) 1 ;;
      Ok (mkS (root s1) (size s1) (cap s1) fl sq ns)
    else Ok s1
  else Ok s.

(* add *)
Definition add (s : st) (key value : Z) : res (st * N) :=
  let free_node := flh s in
  let sequence := seq s in
  s1 <- (if free_node =? sequence then
           sm1 <- csub sequence 1 ;;
           if sm1 =? cap s then Panic PExplicit else
           sq <- seq_succ sequence ;;
           Ok (with_flh (with_seq s sq) sq)
         else
           n <- getn (nodes s) free_node ;;
           Ok (with_flh s (nh n))) ;;
  n <- getn (nodes s1) free_node ;;
  ns <- setn (nodes s1) free_node (mkN (nl n) (nr n) 0 key value) ;;
  sz <- cadd (size s1) 1 ;;
  Ok (with_size (with_nodes s1 ns) sz, free_node).

(* remove_node *)
Definition remove_node (s : st) (index : N) : res (st * option Z) :=
  if index =? 0 then Ok (s, None) else
  n <- getn (nodes s) index ;;
  let value := nv n in
  ns <- setn (nodes s) index (mkN 0 0 (flh s) 0%Z 0%Z) ;;
  sz <- csub (size s) 1 ;;
  Ok (with_size (with_flh (with_nodes s ns) index) sz, Some value).

(* ---------------------------------------------------------------- *)
(* heights and rotations (operate on the record array)              *)

Definition hreg (ns : list node) (c : N) : res N :=
  if c =? 0 then Ok 0 else x <- getn ns c ;; Ok (nh x).

Definition update_height (ns : list node) (i : N) : res (list node) :=
  n <- getn ns i ;;
  let l := nl n in let r := nr n in
  h <- (if (l =? 0) && (r =? 0) then Ok 0 else
        lh <- hreg ns l ;; rh <- hreg ns r ;; cadd (N.max lh rh) 1) ;;
  setn ns i (set_h n h).

Definition update_child (ns : list node) (p : N) (d : dir) (c : N) : res (list node) :=
  n <- getn ns p ;;
  ns1 <- setn ns p (match d with L => set_l n c | R => set_r n c end) ;;
  update_height ns1 p.

Definition side_height (ns : list node) (c : N) : res Z :=
  if c =? 0 then Ok 0%Z else
  x <- getn ns c ;; sck (as_signed (nh x) + 1)%Z.

Definition balance_factor (ns : list node) (left right : N) : res Z :=
  lh <- side_height ns left ;;
  rh <- side_height ns right ;;
  sck (lh - rh)%Z.

Definition left_rotate (ns : list node) (index : N) : res (list node * N) :=
  n <- getn ns index ;; let right := nr n in
  rn <- getn ns right ;; let right_left := nl rn in
  ns1 <- update_child ns index R right_left ;;
  ns2 <- update_child ns1 right L index ;;
  Ok (ns2, right).

Definition right_rotate (ns : list node) (index : N) : res (list node * N) :=
  n <- getn ns index ;; let left := nl n in
  ln <- getn ns left ;; let left_right := nr ln in
  ns1 <- update_child ns index L left_right ;;
  ns2 <- update_child ns1 left R index ;;
  Ok (ns2, left).

Definition expect_dir (b : option dir) : res dir :=
  match b with Some d => Ok d | None => Panic PUnwrap end.

(* one iteration of the loop in [rebalance] *)
Definition rebalance_step (s : st) (a : anc) : res st :=
  let '(parent, branch, child) := a in
  let ns := nodes s in
  cn <- getn ns child ;;
  let left := nl cn in let right := nr cn in
  bf <- balance_factor ns left right ;;
  '(ns1, index) <-
    (if (1 <? bf)%Z then
       ln <- getn ns left ;;
       lbf <- balance_factor ns (nl ln) (nr ln) ;;
       ns' <- (if (lbf <? 0)%Z then
                 '(nsa, idx) <- left_rotate ns left ;;
                 update_child nsa child L idx
               else Ok ns) ;;
       '(nsb, idx) <- right_rotate ns' child ;;
       Ok (nsb, Some idx)
     else if (bf <? -1)%Z then
       rn <- getn ns right ;;
       rbf <- balance_factor ns (nl rn) (nr rn) ;;
       ns' <- (if (0 <? rbf)%Z then
                 '(nsa, idx) <- right_rotate ns right ;;
                 update_child nsa child R idx
               else Ok ns) ;;
       '(nsb, idx) <- left_rotate ns' child ;;
       Ok (nsb, Some idx)
     else
       ns' <- update_height ns child ;; Ok (ns', None)) ;;
  match index with
  | None => Ok (with_nodes s ns1)
  | Some index =>
    match parent with
    | Some p =>
      d <- expect_dir branch ;;
      ns2 <- update_child ns1 p d index ;;
      Ok (with_nodes s ns2)
    | None =>
      ns2 <- update_height ns1 index ;;
      Ok (with_root (with_nodes s ns2) index)
    end
  end.

Fixpoint rebalance_list (s : st) (rpath : list anc) : res st :=
  match rpath with
  | [] => Ok s
  | a :: rest => s' <- rebalance_step s a ;; rebalance_list s' rest
  end.

(* rebalance(path): the path is visited in reverse order *)
Definition rebalance (s : st) (path : list anc) : res st := rebalance_list s (rev path).

(* ---------------------------------------------------------------- *)
(* insert                                                           *)

(* The descent loop of [insert].  Returns the new state, the slot (None =
   refused), the path for rebalancing and the comparison log. *)
Fixpoint insert_loop (fuel : nat) (s : st) (key value : Z) (reference_node : N)
         (path : list anc) (log : list Z) : res (st * option N * list anc * list Z) :=
  match fuel with
  | O => Fuel
  | S f =>
    n <- getn (nodes s) reference_node ;;
    let current_key := nk n in
    let parent := reference_node in
    if (key <? current_key)%Z then
      let next := nl n in
      let log := log ++ [current_key] in
      if next =? 0 then
        if is_full s then Ok (s, None, path, log) else
        '(s1, new) <- add s key value ;;
        ns <- update_child (nodes s1) parent L new ;;
        Ok (with_nodes s1 ns, Some new, path, log)
      else insert_loop f s key value next (path ++ [(Some parent, Some L, next)]) log
    else if (key >? current_key)%Z then
      let next := nr n in
      let log := log ++ [current_key; current_key] in
      if next =? 0 then
        if is_full s then Ok (s, None, path, log) else
        '(s1, new) <- add s key value ;;
        ns <- update_child (nodes s1) parent R new ;;
        Ok (with_nodes s1 ns, Some new, path, log)
      else insert_loop f s key value next (path ++ [(Some parent, Some R, next)]) log
    else Ok (s, None, path, log ++ [current_key; current_key])
  end.

Definition insert (s : st) (key value : Z) : res (st * option N * list Z) :=
  let reference_node := root s in
  if reference_node =? 0 then
    (* repair of D4: an empty tree with capacity 0 refuses *)
    if is_full s then Ok (s, None, []) else
    '(s1, r) <- add s key value ;;
    Ok (with_root s1 r, Some r, [])
  else
    '(s1, r, path, log) <- insert_loop (fuel_of s) s key value reference_node
                                      [(None, None, reference_node)] [] ;;
    match r with
    | None => Ok (s1, None, log)
    | Some new =>
      s2 <- rebalance s1 path ;;
      Ok (s2, Some new, log)
    end.

(* ---------------------------------------------------------------- *)
(* remove                                                           *)

Fixpoint remove_descent (fuel : nat) (ns : list node) (key : Z) (node_index : N)
         (path : list anc) (log : list Z) : res (N * list anc * list Z) :=
  match fuel with
  | O => Fuel
  | S f =>
    if node_index =? 0 then Ok (0, path, log) else
    n <- getn ns node_index ;;
    let current_key := nk n in
    let parent := node_index in
    if (key <? current_key)%Z then
      let next := nl n in
      remove_descent f ns key next (path ++ [(Some parent, Some L, next)]) (log ++ [current_key])
    else if (key >? current_key)%Z then
      let next := nr n in
      remove_descent f ns key next (path ++ [(Some parent, Some R, next)])
                     (log ++ [current_key; current_key])
    else Ok (node_index, path, log ++ [current_key; current_key])
  end.

(* while node!(leftmost).left != SENTINEL { ... } *)
Fixpoint leftmost_loop (fuel : nat) (ns : list node) (leftmost leftmost_parent : N)
         (inner_path : list anc) : res (N * N * list anc) :=
  match fuel with
  | O => Fuel
  | S f =>
    n <- getn ns leftmost ;;
    if nl n =? 0 then Ok (leftmost, leftmost_parent, inner_path)
    else
      let lp := leftmost in
      let lm := nl n in
      leftmost_loop f ns lm lp (inner_path ++ [(Some lp, Some L, lm)])
  end.

Definition pop_last {A} (l : list A) : option (list A * A) :=
  match rev l with [] => None | x :: r => Some (rev r, x) end.

Definition remove (s : st) (key : Z) : res (st * option Z * list Z) :=
  let node_index := root s in
  if node_index =? 0 then Ok (s, None, []) else
  '(node_index, path, log) <- remove_descent (fuel_of s) (nodes s) key node_index
                                             [(None, None, node_index)] [] ;;
  if node_index =? 0 then Ok (s, None, log) else
  n <- getn (nodes s) node_index ;;
  let left := nl n in let right := nr n in
  '(ns, path, replacement) <-
    (if negb (left =? 0) && negb (right =? 0) then
       '(leftmost, leftmost_parent, inner_path) <-
           leftmost_loop (fuel_of s) (nodes s) right 0 [] ;;
       ns1 <- (if negb (leftmost_parent =? 0) then
                 lm <- getn (nodes s) leftmost ;;
                 update_child (nodes s) leftmost_parent L (nr lm)
               else Ok (nodes s)) ;;
       ns2 <- update_child ns1 leftmost L left ;;
       ns3 <- (if negb (right =? leftmost) then update_child ns2 leftmost R right else Ok ns2) ;;
       match pop_last path with
       | None => Panic PUnwrap
       | Some (path, (parent, branch, _)) =>
         ns4 <- (match parent with
                 | Some p => d <- expect_dir branch ;; update_child ns3 p d leftmost
                 | None => Ok ns3
                 end) ;;
         let path := path ++ [(parent, branch, leftmost)] in
         let path := if negb (right =? leftmost)
                     then path ++ [(Some leftmost, Some R, right)] else path in
         let inner_path := match pop_last inner_path with
                           | Some (ip, _) => ip | None => inner_path end in
         Ok (ns4, path ++ inner_path, leftmost)
       end
     else
       let child := if (left =? 0) && (right =? 0) then 0
                    else if negb (left =? 0) then left else right in
       match pop_last path with
       | None => Panic PUnwrap
       | Some (path, (parent, branch, _)) =>
         match parent with
         | Some p =>
           d <- expect_dir branch ;;
           ns1 <- update_child (nodes s) p d child ;;
           Ok (ns1, if negb (child =? 0) then path ++ [(Some p, branch, child)] else path, child)
         | None => Ok (nodes s, path, child)
         end
       end) ;;
  let s1 := with_nodes s ns in
  let s2 := if node_index =? root s1 then with_root s1 replacement else s1 in
  s3 <- rebalance s2 path ;;
  '(s4, v) <- remove_node s3 node_index ;;
  Ok (s4, v, log).

End Width.
