(* Extraction of the executable models to OCaml for the correspondence
   check.  Only ExtrOcamlBasic's mappings are used (bool, option, list, prod,
   unit, sumbool, sumor to OCaml's); N, Z, positive and nat stay the extracted
   inductive types. *)
From Coq Require Import List NArith ZArith Bool.
From Coq Require Extraction.
From Coq Require Import ExtrOcamlBasic.
From Stevia Require Import Base.Res Base.Bytes Base.Utf8 Base.Sip.
From Stevia Require Import Avl.Impl Avl.Format Avl.Spec Avl.Session.
From Stevia Require Import Hash.Impl Hash.Format Hash.Spec.
From Stevia Require Import Arr.Impl Arr.Format Arr.Spec Arr.Checked.
From Stevia Require Import Str.Prefix Pod.PodStr Pod.Pod.

Extraction Language OCaml.
Extraction "model.ml"
  N.of_nat N.to_nat Z.of_N Z.to_N Z.add Z.mul Z.opp N.add N.mul N.eqb Z.eqb Z.ltb N.ltb N.leb
  le_enc le_dec z_enc z_dec utf8_valid utf8_enc is_char_boundary floor_boundary
  sip13 hash_int hash_weak
  (* trees *)
  Avl.Impl.insert Avl.Impl.remove Avl.Impl.get Avl.Impl.is_full Avl.Impl.open_mut
  Avl.Spec.step_c Avl.Spec.init_c Avl.Spec.spec_step Avl.Spec.spec_init Avl.Spec.s_claim
  Avl.Session.step_sess Avl.Session.spec_step_sess Avl.Session.init_sess Avl.Session.spec_init_sess
  Avl.Format.encode Avl.Format.decode Avl.Format.decode_doc Avl.Format.data_len
  Avl.Format.d_inorder Avl.Format.d_levels
  (* hash set *)
  Hash.Spec.hstep_c Hash.Spec.hinit_c Hash.Spec.hspec_step Hash.Impl.hcontains Hash.Impl.hiter
  Hash.Spec.zs_sort
  Hash.Format.hencode Hash.Format.hdecode Hash.Format.hdecode_doc Hash.Format.hdata_len
  (* array sets *)
  Arr.Spec.astep_c Arr.Checked.astep_chk Arr.Spec.ainit_c Arr.Spec.aspec_step Arr.Impl.aderef
  Arr.Format.aencode Arr.Format.adecode Arr.Format.adecode_doc
  (* strings and pods *)
  Str.Prefix.new Str.Prefix.from_bytes Str.Prefix.copy_from_str Str.Prefix.payload Str.Prefix.psize
  Pod.PodStr.ps_copy_from_slice Pod.PodStr.ps_as_str Pod.PodStr.ps_display Pod.PodStr.ps_load
  Pod.Pod.pod_of_bool Pod.Pod.bool_of_pod Pod.Pod.load Pod.Pod.load_mut_store Pod.Pod.po_value.
