(* Layer C for src/types/prefix_str.rs (U8/U16 PrefixStr and PrefixStrMut),
   on raw bytes.  [p] is the prefix width in bytes (1 or 2). *)
From Coq Require Import List NArith Bool Arith.
From Stevia Require Import Base.Res Base.Bytes Base.Utf8.
Import ListNotations.
Open Scope N_scope.

Section P.
Variable p : nat.
Definition pfx_max : N := 2 ^ (8 * N.of_nat p) - 1.

(* A handle: the whole buffer and the recorded payload length.  The payload
   is bytes [p, p + plen) of the buffer. *)
Record pstr := mkP { pbuf : list N; plen : nat }.

Definition payload (h : pstr) : list N := firstn (plen h) (skipn p (pbuf h)).

(* from_bytes_unchecked / from_bytes_mut: split_at(p), read the LE length,
   slice value[..length] *)
Definition open_unchecked (bytes : list N) : res pstr :=
  if (length bytes <? p)%nat then Panic PSlice else
  let length_ := N.to_nat (le_dec (firstn p bytes)) in
  if (length bytes - p <? length_)%nat then Panic PSlice else
  Ok (mkP bytes length_).

(* from_bytes (read-only view): None = Err(Utf8Error) *)
Definition from_bytes (bytes : list N) : res (option pstr) :=
  h <- open_unchecked bytes ;;
  Ok (if utf8_valid (payload h) then Some h else None).

(* new_unchecked: writes the prefix.  Repair of D11: the recorded length
   saturates at the prefix type's maximum instead of wrapping *)
Definition new_unchecked (data : list N) : res pstr :=
  let n := N.of_nat (length data - p) in
  let recorded := N.min n pfx_max in
  if (length data <? p)%nat then Panic PSlice else
  open_unchecked (le_enc p recorded ++ skipn p data).

Definition new (data : list N) : res (list N * option pstr) :=
  h <- new_unchecked data ;;
  Ok (pbuf h, if utf8_valid (payload h) then Some h else None).

(* copy_from_slice: copy min(len) bytes, zero-fill the rest of the payload *)
Definition copy_from_slice (h : pstr) (slice : list N) : pstr :=
  let length_ := Nat.min (plen h) (length slice) in
  let pay := firstn length_ slice ++ zeros (plen h - length_) in
  mkP (firstn p (pbuf h) ++ pay ++ skipn (p + plen h) (pbuf h)) (plen h).

(* copy_from_str.  Repair of D6: the cut backs up to a char boundary *)
Definition copy_from_str (h : pstr) (s : list N) : pstr :=
  let length_ := floor_boundary s (Nat.min (plen h) (length s)) in
  copy_from_slice h (firstn length_ s).

Definition psize (h : pstr) : nat := p + plen h.
Definition as_str (h : pstr) : list N := payload h.
End P.
