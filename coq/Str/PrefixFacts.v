(* Theory of Str/Prefix.v, generic in the prefix width [p] (bytes). *)
From Coq Require Import List NArith ZArith Bool Arith Lia ZifyBool ZifyNat ZifyN.
From Stevia Require Import Base.Res Base.Bytes Base.Utf8 Base.Utf8Facts Str.Prefix.
Import ListNotations.
Open Scope N_scope.
Arguments N.add : simpl never. Arguments N.sub : simpl never. Arguments N.mul : simpl never.
Arguments N.div : simpl never. Arguments N.modulo : simpl never. Arguments N.eqb : simpl never.
Arguments N.ltb : simpl never. Arguments N.leb : simpl never. Arguments N.max : simpl never.
Arguments N.min : simpl never. Arguments N.pow : simpl never.

(* list bookkeeping *)
Lemma firstn_app_exact {A} (a b : list A) n : length a = n -> firstn n (a ++ b) = a.
Proof.
  intros H. rewrite firstn_app, <- H, Nat.sub_diag, firstn_all. cbn [firstn]. apply app_nil_r.
Qed.

Lemma skipn_app_exact {A} (a b : list A) n : length a = n -> skipn n (a ++ b) = b.
Proof.
  intros H. rewrite skipn_app, <- H, Nat.sub_diag, skipn_all. reflexivity.
Qed.

Lemma zeros_length n : length (zeros n) = n.
Proof. apply repeat_length. Qed.

Section P.
Variable p : nat.

Definition wf (h : pstr) : Prop :=
  le_dec (firstn p (pbuf h)) = N.of_nat (plen h) /\ (p + plen h <= length (pbuf h))%nat.
Definition valid (h : pstr) : Prop := utf8_valid (payload p h) = true.

Lemma pfx_max_lt : pfx_max p < 2 ^ (8 * N.of_nat p).
Proof.
  unfold pfx_max. pose proof (N.pow_nonzero 2 (8 * N.of_nat p)) as H. lia.
Qed.

Lemma pstr_eta h : mkP (pbuf h) (plen h) = h.
Proof. destruct h; reflexivity. Qed.

(* ---------------------------------------------------------------- *)
(* 6. size and text *)
Lemma psize_eq h : psize p h = (p + plen h)%nat.
Proof. reflexivity. Qed.

Lemma as_str_eq h : as_str p h = payload p h.
Proof. reflexivity. Qed.

Lemma payload_length h : wf h -> length (payload p h) = plen h.
Proof.
  intros [_ Hl]. unfold payload. rewrite firstn_length, skipn_length. lia.
Qed.

(* ---------------------------------------------------------------- *)
(* open_unchecked *)
Lemma open_unchecked_ok bytes n :
  (p <= length bytes)%nat -> le_dec (firstn p bytes) = N.of_nat n -> (n <= length bytes - p)%nat ->
  open_unchecked p bytes = Ok (mkP bytes n).
Proof.
  intros H1 H2 H3. unfold open_unchecked.
  destruct (Nat.ltb_spec (length bytes) p) as [Hlt|_]; [lia|].
  rewrite H2, Nat2N.id.
  destruct (Nat.ltb_spec (length bytes - p) n) as [Hlt|_]; [lia|]. reflexivity.
Qed.

Lemma open_unchecked_cases bytes :
  (open_unchecked p bytes = Panic PSlice /\
     ((length bytes < p)%nat \/ N.of_nat (length bytes - p) < le_dec (firstn p bytes))) \/
  (open_unchecked p bytes = Ok (mkP bytes (N.to_nat (le_dec (firstn p bytes)))) /\
     (p <= length bytes)%nat /\ le_dec (firstn p bytes) <= N.of_nat (length bytes - p)).
Proof.
  unfold open_unchecked.
  destruct (Nat.ltb_spec (length bytes) p) as [Hlt|Hge]; [left; split; [reflexivity|left; exact Hlt]|].
  destruct (Nat.ltb_spec (length bytes - p) (N.to_nat (le_dec (firstn p bytes)))) as [Hlt|Hge2].
  - left. split; [reflexivity|right; lia].
  - right. split; [reflexivity|]. split; [exact Hge|lia].
Qed.

Lemma open_unchecked_wf bytes h : open_unchecked p bytes = Ok h -> wf h /\ pbuf h = bytes.
Proof.
  intros H. destruct (open_unchecked_cases bytes) as [[E _]|[E [H1 H2]]]; rewrite E in H; [discriminate|].
  injection H as <-. unfold wf. cbn [pbuf plen]. rewrite N2Nat.id. repeat split. lia.
Qed.

(* ---------------------------------------------------------------- *)
(* 2. from_bytes *)
Theorem from_bytes_cases bytes :
  (from_bytes p bytes = Panic PSlice /\
     ((length bytes < p)%nat \/ N.of_nat (length bytes - p) < le_dec (firstn p bytes))) \/
  (exists h, h = mkP bytes (N.to_nat (le_dec (firstn p bytes))) /\ wf h /\
     ((from_bytes p bytes = Ok (Some h) /\ utf8_valid (payload p h) = true) \/
      (from_bytes p bytes = Ok None /\ utf8_valid (payload p h) = false))).
Proof.
  unfold from_bytes.
  destruct (open_unchecked_cases bytes) as [[E Hc]|[E [H1 H2]]]; rewrite E; cbn [bind].
  - left. split; [reflexivity|exact Hc].
  - right. eexists. split; [reflexivity|]. split; [apply (open_unchecked_wf _ _ E)|].
    destruct (utf8_valid _) eqn:Ev; [left|right]; split; reflexivity.
Qed.

Theorem from_bytes_panic_iff bytes :
  from_bytes p bytes = Panic PSlice <->
  ((length bytes < p)%nat \/ N.of_nat (length bytes - p) < le_dec (firstn p bytes)).
Proof.
  destruct (from_bytes_cases bytes) as [[E Hc]|(h & Eh & Hw & [[E Hv]|[E Hv]])]; rewrite E.
  - split; [intros _; exact Hc|reflexivity].
  - split; [discriminate|]. intros Hc. exfalso. destruct Hw as [Hw1 Hw2]. subst h.
    cbn [pbuf plen] in *. lia.
  - split; [discriminate|]. intros Hc. exfalso. destruct Hw as [Hw1 Hw2]. subst h.
    cbn [pbuf plen] in *. lia.
Qed.

(* no other failure exists *)
Theorem from_bytes_total bytes :
  from_bytes p bytes = Panic PSlice \/ from_bytes p bytes = Ok None \/
  exists h, from_bytes p bytes = Ok (Some h).
Proof.
  destruct (from_bytes_cases bytes) as [[E _]|(h & _ & _ & [[E _]|[E _]])]; eauto.
Qed.

Theorem from_bytes_some bytes h :
  from_bytes p bytes = Ok (Some h) -> valid h /\ wf h /\ pbuf h = bytes.
Proof.
  intros H.
  destruct (from_bytes_cases bytes) as [[E _]|(h' & Eh & Hw & [[E Hv]|[E Hv]])]; rewrite E in H;
    try discriminate.
  injection H as <-. split; [exact Hv|]. split; [exact Hw|]. subst h'. reflexivity.
Qed.

Theorem from_bytes_none_iff bytes :
  from_bytes p bytes = Ok None <->
  (p <= length bytes)%nat /\ le_dec (firstn p bytes) <= N.of_nat (length bytes - p) /\
  utf8_valid (payload p (mkP bytes (N.to_nat (le_dec (firstn p bytes))))) = false.
Proof.
  destruct (from_bytes_cases bytes) as [[E Hc]|(h & Eh & Hw & [[E Hv]|[E Hv]])]; rewrite E.
  - split; [discriminate|]. intros (H1 & H2 & _). exfalso. lia.
  - subst h. split; [discriminate|]. intros (_ & _ & H3). rewrite Hv in H3. discriminate.
  - subst h. split; [intros _|reflexivity]. destruct Hw as [Hw1 Hw2]. cbn [pbuf plen] in *.
    split; [lia|]. split; [lia|exact Hv].
Qed.

Theorem from_bytes_some_iff bytes :
  (exists h, from_bytes p bytes = Ok (Some h)) <->
  (p <= length bytes)%nat /\ le_dec (firstn p bytes) <= N.of_nat (length bytes - p) /\
  utf8_valid (payload p (mkP bytes (N.to_nat (le_dec (firstn p bytes))))) = true.
Proof.
  destruct (from_bytes_cases bytes) as [[E Hc]|(h & Eh & Hw & [[E Hv]|[E Hv]])]; rewrite E.
  - split; [intros [h H]; discriminate|]. intros (H1 & H2 & _). exfalso. lia.
  - subst h. split; [intros _|eauto]. destruct Hw as [Hw1 Hw2]. cbn [pbuf plen] in *.
    split; [lia|]. split; [lia|exact Hv].
  - subst h. split; [intros [h H]; discriminate|]. intros (_ & _ & H3). rewrite Hv in H3. discriminate.
Qed.

(* ---------------------------------------------------------------- *)
(* 1. new / new_unchecked: total, the recorded length saturates *)
Definition new_recorded (data : list N) : N := N.min (N.of_nat (length data - p)) (pfx_max p).
Definition new_buf (data : list N) : list N := le_enc p (new_recorded data) ++ skipn p data.
Definition new_handle (data : list N) : pstr := mkP (new_buf data) (N.to_nat (new_recorded data)).

Lemma new_buf_length data : (p <= length data)%nat -> length (new_buf data) = length data.
Proof.
  intros H. unfold new_buf. rewrite app_length, le_enc_length, skipn_length. lia.
Qed.

Lemma new_handle_wf data : (p <= length data)%nat -> wf (new_handle data).
Proof.
  intros H. unfold wf, new_handle. cbn [pbuf plen]. rewrite new_buf_length by exact H.
  unfold new_buf. rewrite firstn_app_exact by apply le_enc_length.
  rewrite N2Nat.id. split.
  - apply le_dec_enc. pose proof pfx_max_lt. unfold new_recorded. lia.
  - unfold new_recorded. lia.
Qed.

Theorem new_unchecked_short data : (length data < p)%nat -> new_unchecked p data = Panic PSlice.
Proof.
  intros H. unfold new_unchecked. destruct (Nat.ltb_spec (length data) p) as [_|Hge]; [reflexivity|lia].
Qed.

Theorem new_unchecked_ok data : (p <= length data)%nat -> new_unchecked p data = Ok (new_handle data).
Proof.
  intros H. unfold new_unchecked. destruct (Nat.ltb_spec (length data) p) as [Hlt|_]; [lia|].
  destruct (new_handle_wf data H) as [Hw1 Hw2]. cbn [new_handle pbuf plen] in Hw1, Hw2.
  fold (new_recorded data). fold (new_buf data).
  apply open_unchecked_ok; [lia|exact Hw1|lia].
Qed.

Theorem new_short data : (length data < p)%nat -> new p data = Panic PSlice.
Proof. intros H. unfold new. rewrite new_unchecked_short by exact H. reflexivity. Qed.

Theorem new_ok data : (p <= length data)%nat ->
  new p data = Ok (new_buf data,
                   if utf8_valid (payload p (new_handle data)) then Some (new_handle data) else None).
Proof. intros H. unfold new. rewrite new_unchecked_ok by exact H. reflexivity. Qed.

Lemma new_handle_payload data :
  payload p (new_handle data) = firstn (N.to_nat (new_recorded data)) (skipn p data).
Proof.
  unfold payload, new_handle, new_buf. cbn [pbuf plen].
  rewrite skipn_app_exact by apply le_enc_length. reflexivity.
Qed.

(* the full description of [new] *)
Theorem new_spec data :
  (p <= length data)%nat ->
  exists buf' o h,
    new p data = Ok (buf', o) /\ new_unchecked p data = Ok h /\
    buf' = le_enc p (N.min (N.of_nat (length data - p)) (pfx_max p)) ++ skipn p data /\
    length buf' = length data /\ pbuf h = buf' /\ wf h /\
    N.of_nat (plen h) = N.min (N.of_nat (length data - p)) (pfx_max p) /\
    payload p h = firstn (plen h) (skipn p data) /\
    (N.of_nat (length data - p) <= pfx_max p -> payload p h = skipn p data) /\
    (pfx_max p < N.of_nat (length data - p) -> N.of_nat (plen h) = pfx_max p) /\
    (o = Some h <-> utf8_valid (payload p h) = true) /\
    (o = None <-> utf8_valid (payload p h) = false) /\
    (forall h', o = Some h' -> h' = h).
Proof.
  intros H. eexists; eexists; exists (new_handle data).
  split; [apply new_ok; exact H|]. split; [apply new_unchecked_ok; exact H|].
  split; [reflexivity|]. split; [apply new_buf_length; exact H|]. split; [reflexivity|].
  split; [apply new_handle_wf; exact H|].
  split; [cbn [new_handle plen]; apply N2Nat.id|].
  split; [apply new_handle_payload|].
  split.
  { intros Hle. rewrite new_handle_payload. apply firstn_all2. rewrite skipn_length.
    unfold new_recorded. lia. }
  split.
  { intros Hgt. cbn [new_handle plen]. rewrite N2Nat.id. unfold new_recorded. lia. }
  destruct (utf8_valid (payload p (new_handle data))); repeat split; intros; congruence.
Qed.

(* whatever [new] returns: Some exactly for valid payloads *)
Theorem new_result data buf' o : new p data = Ok (buf', o) ->
  exists h, new_unchecked p data = Ok h /\ buf' = pbuf h /\ wf h /\
    (o = Some h <-> utf8_valid (payload p h) = true) /\
    (o = None <-> utf8_valid (payload p h) = false) /\
    (forall h', o = Some h' -> h' = h /\ valid h').
Proof.
  intros H. destruct (Nat.lt_ge_cases (length data) p) as [Hlt|Hge].
  { rewrite new_short in H by exact Hlt. discriminate. }
  rewrite new_ok in H by exact Hge. injection H as <- <-.
  exists (new_handle data). split; [apply new_unchecked_ok; exact Hge|].
  split; [reflexivity|]. split; [apply new_handle_wf; exact Hge|].
  unfold valid.
  destruct (utf8_valid (payload p (new_handle data))) eqn:E; repeat split; intros; congruence.
Qed.

Theorem new_total data :
  ((length data < p)%nat /\ new p data = Panic PSlice) \/
  ((p <= length data)%nat /\ exists buf' o, new p data = Ok (buf', o)).
Proof.
  destruct (Nat.lt_ge_cases (length data) p) as [H|H]; [left|right]; split; try exact H.
  - apply new_short; exact H.
  - rewrite new_ok by exact H. eauto.
Qed.

(* ---------------------------------------------------------------- *)
(* 3. copy_from_slice / copy_from_str *)
Definition cut (n : nat) (s : list N) : list N :=
  firstn (floor_boundary s (Nat.min n (length s))) s.

Lemma cut_length_le n s : (length (cut n s) <= n)%nat.
Proof.
  unfold cut. pose proof (floor_boundary_le s (Nat.min n (length s))) as H.
  rewrite firstn_length. lia.
Qed.

Lemma copy_from_slice_plen h sl : plen (copy_from_slice p h sl) = plen h.
Proof. reflexivity. Qed.

Lemma copy_from_slice_pay_length h sl :
  length (firstn (Nat.min (plen h) (length sl)) sl ++ zeros (plen h - Nat.min (plen h) (length sl))) = plen h.
Proof. rewrite app_length, firstn_length, zeros_length. lia. Qed.

Lemma copy_from_slice_length h sl : wf h -> length (pbuf (copy_from_slice p h sl)) = length (pbuf h).
Proof.
  intros [_ Hl]. unfold copy_from_slice. cbn [pbuf].
  rewrite app_length, app_length, copy_from_slice_pay_length, firstn_length, skipn_length. lia.
Qed.

Lemma copy_from_slice_prefix h sl : wf h ->
  firstn p (pbuf (copy_from_slice p h sl)) = firstn p (pbuf h).
Proof.
  intros [_ Hl]. unfold copy_from_slice. cbn [pbuf].
  apply firstn_app_exact. rewrite firstn_length. lia.
Qed.

Lemma copy_from_slice_tail h sl : wf h ->
  skipn (p + plen h) (pbuf (copy_from_slice p h sl)) = skipn (p + plen h) (pbuf h).
Proof.
  intros [_ Hl]. unfold copy_from_slice. cbn [pbuf].
  rewrite app_assoc. apply skipn_app_exact.
  rewrite app_length, copy_from_slice_pay_length, firstn_length. lia.
Qed.

Lemma copy_from_slice_payload h sl : wf h ->
  payload p (copy_from_slice p h sl) =
  firstn (Nat.min (plen h) (length sl)) sl ++ zeros (plen h - Nat.min (plen h) (length sl)).
Proof.
  intros [_ Hl]. unfold payload, copy_from_slice. cbn [pbuf plen].
  rewrite skipn_app_exact by (rewrite firstn_length; lia).
  apply firstn_app_exact. apply copy_from_slice_pay_length.
Qed.

Lemma copy_from_slice_wf h sl : wf h -> wf (copy_from_slice p h sl).
Proof.
  intros Hw. split.
  - rewrite copy_from_slice_prefix by exact Hw. apply Hw.
  - rewrite copy_from_slice_length by exact Hw. apply Hw.
Qed.

Lemma copy_from_str_eq h s : copy_from_str p h s = copy_from_slice p h (cut (plen h) s).
Proof. reflexivity. Qed.

Theorem copy_from_str_plen h s : plen (copy_from_str p h s) = plen h.
Proof. reflexivity. Qed.

Theorem copy_from_str_length h s : wf h -> length (pbuf (copy_from_str p h s)) = length (pbuf h).
Proof. intros Hw. rewrite copy_from_str_eq. apply copy_from_slice_length, Hw. Qed.

Theorem copy_from_str_prefix h s : wf h -> firstn p (pbuf (copy_from_str p h s)) = firstn p (pbuf h).
Proof. intros Hw. rewrite copy_from_str_eq. apply copy_from_slice_prefix, Hw. Qed.

Theorem copy_from_str_tail h s : wf h ->
  skipn (p + plen h) (pbuf (copy_from_str p h s)) = skipn (p + plen h) (pbuf h).
Proof. intros Hw. rewrite copy_from_str_eq. apply copy_from_slice_tail, Hw. Qed.

Theorem copy_from_str_wf h s : wf h -> wf (copy_from_str p h s).
Proof. intros Hw. rewrite copy_from_str_eq. apply copy_from_slice_wf, Hw. Qed.

Theorem copy_from_str_payload h s : wf h ->
  let keep := firstn (floor_boundary s (Nat.min (plen h) (length s))) s in
  payload p (copy_from_str p h s) = keep ++ zeros (plen h - length keep).
Proof.
  intros Hw keep. rewrite copy_from_str_eq, copy_from_slice_payload by exact Hw.
  fold (cut (plen h) s). change (cut (plen h) s) with keep.
  pose proof (cut_length_le (plen h) s) as Hk. change (cut (plen h) s) with keep in Hk.
  replace (Nat.min (plen h) (length keep)) with (length keep) by lia.
  rewrite firstn_all. reflexivity.
Qed.

(* the new payload is a function of the source and the capacity only: nothing
   of the earlier payload survives *)
Theorem copy_from_str_overwrites h1 h2 s : wf h1 -> wf h2 -> plen h1 = plen h2 ->
  payload p (copy_from_str p h1 s) = payload p (copy_from_str p h2 s).
Proof.
  intros H1 H2 E. rewrite !copy_from_str_payload by assumption. cbv zeta. rewrite E. reflexivity.
Qed.

(* ---------------------------------------------------------------- *)
(* 4. C11: copies of real strings keep the handle valid *)
Theorem copy_from_str_valid h cs : wf h -> Forall scalar cs -> valid (copy_from_str p h (utf8_enc cs)).
Proof.
  intros Hw Hs. unfold valid. rewrite copy_from_str_payload by exact Hw. cbv zeta.
  apply utf8_valid_app_zeros. apply floor_boundary_valid. exact Hs.
Qed.

Theorem copy_from_str_fold_wf ss : forall h, wf h ->
  wf (fold_left (fun h s => copy_from_str p h (utf8_enc s)) ss h).
Proof.
  induction ss as [|s ss IH]; intros h Hw; cbn [fold_left]; [exact Hw|].
  apply IH. apply copy_from_str_wf. exact Hw.
Qed.

Theorem copy_from_str_fold_valid ss : forall h, wf h -> valid h -> Forall (Forall scalar) ss ->
  wf (fold_left (fun h s => copy_from_str p h (utf8_enc s)) ss h) /\
  valid (fold_left (fun h s => copy_from_str p h (utf8_enc s)) ss h).
Proof.
  induction ss as [|s ss IH]; intros h Hw Hv Hss; cbn [fold_left]; [split; assumption|].
  inversion Hss as [|s' ss' Hs Hss' E]; subst.
  apply IH; [apply copy_from_str_wf; exact Hw | apply copy_from_str_valid; assumption | exact Hss'].
Qed.

(* after at least one copy the validity of the starting handle is irrelevant *)
Theorem copy_from_str_fold_valid_nonempty s ss h : wf h -> Forall (Forall scalar) (s :: ss) ->
  valid (fold_left (fun h s => copy_from_str p h (utf8_enc s)) (s :: ss) h).
Proof.
  intros Hw Hss. inversion Hss as [|s' ss' Hs Hss' E]; subst. cbn [fold_left].
  apply copy_from_str_fold_valid; [apply copy_from_str_wf; exact Hw | apply copy_from_str_valid; assumption | exact Hss'].
Qed.

(* what is stored is the longest whole-character prefix that fits *)
Theorem copy_from_str_longest_fit h cs : wf h -> Forall scalar cs ->
  exists cs1 cs2, cs = cs1 ++ cs2 /\
    payload p (copy_from_str p h (utf8_enc cs)) = utf8_enc cs1 ++ zeros (plen h - length (utf8_enc cs1)) /\
    (length (utf8_enc cs1) <= plen h)%nat /\
    (cs2 = [] \/ (plen h < length (utf8_enc cs1) + length (utf8_enc_char (hd 0%N cs2)))%nat).
Proof.
  intros Hw Hs. destruct (floor_boundary_longest_fit cs (plen h) Hs) as (s1 & s2 & E & Ef & Hl & Hn).
  exists s1, s2. split; [exact E|]. split; [|split; assumption].
  rewrite copy_from_str_payload by exact Hw. cbv zeta. rewrite Ef. reflexivity.
Qed.

(* ---------------------------------------------------------------- *)
(* 5. reload *)
Theorem reload h : wf h -> valid h -> from_bytes p (pbuf h) = Ok (Some h).
Proof.
  intros [Hw1 Hw2] Hv. unfold from_bytes.
  rewrite (open_unchecked_ok (pbuf h) (plen h)) by (try exact Hw1; lia).
  cbn [bind]. rewrite pstr_eta. unfold valid in Hv. rewrite Hv. reflexivity.
Qed.

Theorem reload_ex h : wf h -> valid h ->
  exists h', from_bytes p (pbuf h) = Ok (Some h') /\ payload p h' = payload p h /\ plen h' = plen h.
Proof. intros Hw Hv. exists h. split; [apply reload; assumption|split; reflexivity]. Qed.

Theorem reload_ignores_tail h junk : wf h -> valid h ->
  exists h', from_bytes p (firstn (p + plen h) (pbuf h) ++ junk) = Ok (Some h') /\
             payload p h' = payload p h /\ plen h' = plen h.
Proof.
  intros [Hw1 Hw2] Hv.
  set (b' := firstn (p + plen h) (pbuf h) ++ junk).
  assert (Hlen : length (firstn (p + plen h) (pbuf h)) = (p + plen h)%nat)
    by (apply firstn_length_le; exact Hw2).
  assert (Hpre : firstn p b' = firstn p (pbuf h)).
  { unfold b'. rewrite firstn_app, Hlen. replace (p - (p + plen h))%nat with 0%nat by lia.
    cbn [firstn]. rewrite app_nil_r, firstn_firstn. f_equal. lia. }
  assert (Hpay : payload p (mkP b' (plen h)) = payload p h).
  { unfold payload. cbn [pbuf plen]. unfold b'. rewrite skipn_app, Hlen.
    replace (p - (p + plen h))%nat with 0%nat by lia. cbn [skipn].
    rewrite firstn_app_exact by (rewrite skipn_length, Hlen; lia).
    symmetry. apply firstn_skipn_comm. }
  exists (mkP b' (plen h)). split; [|split; [exact Hpay|reflexivity]].
  unfold from_bytes. rewrite (open_unchecked_ok b' (plen h)).
  - cbn [bind]. rewrite Hpay. unfold valid in Hv. rewrite Hv. reflexivity.
  - unfold b'. rewrite app_length, Hlen. lia.
  - rewrite Hpre. exact Hw1.
  - unfold b'. rewrite app_length, Hlen. lia.
Qed.

End P.
